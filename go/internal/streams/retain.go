package streams

// retain.go — stream "retain" (property C08, RETENTION part).
//
// Every case builds a real catalog whose oplog holds k events — hand-built OLD events (clones of real
// events re-stamped with chosen timestamps relative to bsonkit.Now(): same second, 1 s, 2 s, …,
// minutes, hours, days older, equal seconds with increasing counters, exactly on the cutoff seconds)
// followed by events appended by real writes of the transaction under test — and calls the REAL
// Transaction.Clean(minSize, maxSize, minAge, maxAge) with generated parameters (sizes around k incl.
// 0, 1, k, k±1, min > max; ages 0, sub-second, seconds, minutes, hours).  A case may clean the same
// transaction a second and third time.  END-TO-END cases open an engine with small oplog options on a
// memory store preloaded with old events and perform ONE commit that appends several events
// (InsertMany / UpdateMany / BulkWrite), so that one retention pass has to drop several events.
//
// Model side: op retain.count (cleanCount / Txn.clean / Sys.commitWith on the timestamp list).  `now`
// is read by Clean itself: the harness reads bsonkit.Now() before and after; a case in which the second
// ticked over is rebuilt (at most retainRetries times, then discarded), so now.T is known exactly and
// now.I lies strictly between the two counters; the model is asked for both ends and every count in
// between is admissible (the count is monotone in now.I; the two ends differ only when an event sits
// on the maxAge cutoff second with a counter between the two readings).
//
// Monitors (independent oracle from the property text, timestamps at one-second resolution: the age of
// an event in whole seconds is a = now.T − ts.T, its true age lies in (a−1, a+1)):
//   (a) retention:not-a-suffix       the new list is the old list minus a prefix (same pointers, same
//                                    contents, same order)
//   (b) retention:protected-removed  a removed event was one of the newest minSize events, or
//                                    minAge > 0 and a·1s < minAge (younger than minAge)
//   (c) retention:kept-beyond-max    an event is still there although it and every event before it is
//                                    outside the protected zone for certain (not in the newest minSize,
//                                    minAge = 0 or (a−1)·1s ≥ minAge) and beyond the maximum for certain
//                                    (more than maxSize events from it to the end, or (a−1)·1s ≥ maxAge)
//   (d) retention:set-index-stale    the oplog Set is inconsistent (len(Index) ≠ len(List),
//                                    Index[List[i]] ≠ i, a removed document still in Index)
//   (e) retention:touched-other      another namespace changed; a Clean that drops nothing replaced the
//                                    catalog or set the dirty flag; a Clean that drops something did not
//                                    set it, or modified the catalog the transaction was started from
//   (f) retention:reader-not-suffix  (end-to-end) Find on local.oplog or a change stream opened at the
//                                    beginning of time does not see exactly the retained suffix
//   (g) retention:snapshot-trimmed   (C03 and C08) a view taken BEFORE the retention pass lists something
//                                    else afterwards: the catalog the transaction was started from /
//                                    engine.Catalog() taken before the commit, a read-only transaction's Find
//                                    on local.oplog, an open cursor, the decoded result of an earlier Find; or
//                                    the published log changed although the commit's Store failed
// (b)/(c) are skipped for ages outside the engine's validated range (0 … 21 days; `wrap` cases).
//
// Management-only transactions: a commit (or a direct Clean) whose transaction only built or dropped an
// index or created a collection is dirty but never cloned the oplog — its catalog still holds the very
// oplog collection every earlier snapshot holds.  Direct cases with Mgmt operations and the end-to-end
// kinds createIndex / dropIndex / dropIndexByKey / createCollection (and insertOne for comparison), also
// with a store whose Store fails, check that retention then still works on a private copy.

import (
	"encoding/json"
	"fmt"
	"os"
	"sort"
	"strconv"
	"strings"
	"time"

	"go.mongodb.org/mongo-driver/bson"
	"go.mongodb.org/mongo-driver/bson/primitive"
	"go.mongodb.org/mongo-driver/mongo"
	"go.mongodb.org/mongo-driver/mongo/options"

	"github.com/256dpi/lungo"
	"github.com/256dpi/lungo/bsonkit"
	"github.com/256dpi/lungo/mongokit"

	"verifharness/internal/gen"
	"verifharness/internal/run"
	"verifharness/internal/vj"
)

const retainRetries = 4

type retainParams struct {
	MinSize, MaxSize int
	MinAge, MaxAge   time.Duration
}

func (p retainParams) String() string {
	return fmt.Sprintf("Clean(%d,%d,%s,%s)", p.MinSize, p.MaxSize, p.MinAge, p.MaxAge)
}

// a hand-built event: Age seconds before the reference reading of the clock; counter by Mode
// (0: small, 1: around the current counter, 2: huge) plus Off.
type retainHand struct {
	Age  int64
	Mode int
	Off  int
}

type retainE2E struct {
	Opts      retainParams
	Kind      string // insertMany | updateMany | bulk | insertOne | createIndex | dropIndex | dropIndexByKey | createCollection
	N         int
	FailStore bool // the store refuses the commit
}

type retainSpec struct {
	Hand      []retainHand
	Mono      bool     // force increasing counters inside runs of equal seconds
	Real      int      // events appended by real writes of the transaction under test
	Mgmt      []string // management operations of the transaction under test (no events): createIndex | dropIndex | dropIndexByKey | create
	WriteSeed int
	Cleans    []retainParams
	E2E       *retainE2E
	Tags      []string
}

var (
	retainDataC = lungo.Handle{"db", "c"}
	retainDataD = lungo.Handle{"db", "d"}
)

const retainMaxValidAge = 21 * 24 * time.Hour

func init() {
	run.Register(&run.Stream{
		Name:   "retain",
		Rule:   "nontrivial = the log holds at least one event that is beyond maxSize or older than maxAge (so the protected zone decides), or at least one event is removed",
		Gen:    retainGen,
		Corpus: retainCorpus,
		Replay: retainReplay,
	})
}

// ---------------------------------------------------------------------------------------------
// building the log

// retainWrites performs real writes on txn until exactly n more events are in its oplog.
func retainWrites(txn *lungo.Transaction, h lungo.Handle, prefix string, n, seed int, insertsOnly bool) error {
	start := len(txn.Catalog().Namespaces[lungo.Oplog].Documents.List)
	var live []string
	produced := 0
	for i := 0; produced < n; i++ {
		choice := (seed + i*7 + i*i) % 5
		if insertsOnly {
			choice = 0
		}
		want := 1
		var err error
		switch {
		case choice == 2 && len(live) > 0:
			_, err = txn.Update(h, bsonkit.MustConvert(bson.M{"_id": live[len(live)-1]}), nil,
				bsonkit.MustConvert(bson.M{"$inc": bson.M{"n": int64(1)}}), 0, 1, false, nil)
		case choice == 3 && len(live) > 0:
			_, err = txn.Delete(h, bsonkit.MustConvert(bson.M{"_id": live[0]}), nil, 0, 1)
			live = live[1:]
		case choice == 4 && n-produced >= 2:
			want = 2
			if n-produced >= 3 && seed%2 == 0 {
				want = 3
			}
			var list bsonkit.List
			for j := 0; j < want; j++ {
				id := fmt.Sprintf("%s%d_%d", prefix, i, j)
				list = append(list, bsonkit.MustConvert(bson.D{{Key: "_id", Value: id}, {Key: "n", Value: int64(0)}, {Key: "grp", Value: int64(produced + j)}}))
				live = append(live, id)
			}
			_, err = txn.Insert(h, list, true)
		default:
			id := fmt.Sprintf("%s%d", prefix, i)
			_, err = txn.Insert(h, bsonkit.List{bsonkit.MustConvert(bson.D{{Key: "_id", Value: id}, {Key: "n", Value: int64(0)}, {Key: "grp", Value: int64(produced)}})}, true)
			live = append(live, id)
		}
		if err != nil {
			return err
		}
		produced += want
		if got := len(txn.Catalog().Namespaces[lungo.Oplog].Documents.List) - start; got != produced {
			return fmt.Errorf("write %d produced %d events, expected %d", i, got, produced)
		}
	}
	return nil
}

func retainStamp(ev bsonkit.Doc, ts primitive.Timestamp) bsonkit.Doc {
	c := bsonkit.Clone(ev)
	_, _ = bsonkit.Put(c, "_id.ts", ts, false)
	_, _ = bsonkit.Put(c, "clusterTime", ts, false)
	_, _ = bsonkit.Put(c, "wallTime", primitive.DateTime(int64(ts.T)*1000), false)
	return c
}

// retainHandTimestamps turns the abstract hand-built events into timestamps relative to ref.
func retainHandTimestamps(hand []retainHand, mono bool, ref primitive.Timestamp) []primitive.Timestamp {
	out := make([]primitive.Timestamp, len(hand))
	for i, h := range hand {
		t := int64(ref.T) - h.Age
		if t < 1 {
			t = 1
		}
		var c int64
		switch h.Mode {
		case 0:
			c = 1 + int64(h.Off)
		case 1:
			c = int64(ref.I) + int64(h.Off)
		default:
			c = 1<<31 + int64(h.Off)
		}
		if c < 0 {
			c = 0
		}
		if c > 0xFFFFFFF0 {
			c = 0xFFFFFFF0
		}
		out[i] = primitive.Timestamp{T: uint32(t), I: uint32(c)}
		if mono && i > 0 && out[i].T == out[i-1].T && out[i].I <= out[i-1].I {
			out[i].I = out[i-1].I + 1
		}
	}
	return out
}

// retainBase builds a catalog whose oplog consists of the given hand-stamped events (well-formed change
// events: clones of the events of real writes into db.c), together with the data those writes left.
func retainBase(stamps []primitive.Timestamp, seed int, insertsOnly bool) (*lungo.Catalog, error) {
	scratch := lungo.NewTransaction(lungo.NewCatalog())
	if err := scratch.Create(retainDataD); err != nil {
		return nil, err
	}
	if err := retainWrites(scratch, retainDataC, "h", len(stamps), seed, insertsOnly); err != nil {
		return nil, err
	}
	if _, err := scratch.CreateIndex(retainDataC, "n_1", mongokit.IndexConfig{Key: bsonkit.MustConvert(bson.D{{Key: "n", Value: int32(1)}})}); err != nil {
		return nil, err
	}
	cat := scratch.Catalog().Clone()
	templates := cat.Namespaces[lungo.Oplog].Documents.List
	if len(templates) != len(stamps) {
		return nil, fmt.Errorf("scratch log has %d events, expected %d", len(templates), len(stamps))
	}
	fresh := mongokit.NewCollection(false)
	for i, ev := range templates {
		if !fresh.Documents.Add(retainStamp(ev, stamps[i])) {
			return nil, fmt.Errorf("cannot add event %d", i)
		}
	}
	cat.Namespaces[lungo.Oplog] = fresh
	return cat, nil
}

func retainTsOf(doc bsonkit.Doc) (primitive.Timestamp, bool) {
	ts, ok := bsonkit.Get(doc, "_id.ts").(primitive.Timestamp)
	return ts, ok
}

// ---------------------------------------------------------------------------------------------
// the oracle (from the property text; see the header)

func retainCeilSec(d time.Duration) int64 {
	if d <= 0 {
		return 0
	}
	return int64((d + time.Second - 1) / time.Second)
}

func retainInDomain(p retainParams) bool {
	return p.MinAge >= 0 && p.MinAge <= retainMaxValidAge && p.MaxAge >= 0 && p.MaxAge <= retainMaxValidAge
}

type retainOracle struct {
	p    retainParams
	ts   []primitive.Timestamp
	nowT uint32
}

func (o retainOracle) n() int { return len(o.ts) }
func (o retainOracle) minSize() int {
	if o.p.MinSize < 0 {
		return 0
	}
	return o.p.MinSize
}
func (o retainOracle) maxSize() int {
	if o.p.MaxSize < 0 {
		return 0
	}
	return o.p.MaxSize
}
func (o retainOracle) age(j int) int64 { return int64(o.nowT) - int64(o.ts[j].T) }

// protected: must never be removed
func (o retainOracle) inWindow(j int) bool { return j >= o.n()-o.minSize() }
func (o retainOracle) younger(j int) bool {
	return o.p.MinAge > 0 && o.age(j) < retainCeilSec(o.p.MinAge)
}

// certainly outside the protected zone / certainly beyond the maximum
func (o retainOracle) outside(j int) bool {
	return !o.inWindow(j) && (o.p.MinAge == 0 || o.age(j)-1 >= retainCeilSec(o.p.MinAge))
}
func (o retainOracle) beyondSize(j int) bool { return j < o.n()-o.maxSize() }
func (o retainOracle) beyondAge(j int) bool  { return o.age(j)-1 >= retainCeilSec(o.p.MaxAge) }

// mustDrop = length of the longest prefix of events each of which is certainly outside the protected
// zone and certainly beyond the maximum size or age.
func (o retainOracle) mustDrop() int {
	j := 0
	for j < o.n() && o.outside(j) && (o.beyondSize(j) || o.beyondAge(j)) {
		j++
	}
	return j
}

// someBeyond: at least one event is beyond a maximum (used for the nontrivial rule)
func (o retainOracle) someBeyond() bool {
	for j := 0; j < o.n(); j++ {
		if o.beyondSize(j) || o.beyondAge(j) {
			return true
		}
	}
	return false
}

func (o retainOracle) allAgeProtected() bool {
	if o.n() == 0 {
		return false
	}
	for j := 0; j < o.n(); j++ {
		if !o.younger(j) {
			return false
		}
	}
	return true
}

// ---------------------------------------------------------------------------------------------
// observation of one retention pass

type retainObs struct {
	kind    string // direct | again | e2e
	p       retainParams
	pre     bsonkit.List // log before the pass (pointers)
	preEnc  []string
	post    bsonkit.List
	set     *bsonkit.Set // the Set behind post
	nowT    uint32
	loI     uint32
	hiI     uint32
	dirty0  bool
	dirty1  bool
	otherOK bool
	panicS  string
}

func (ob *retainObs) dropped() int { return len(ob.pre) - len(ob.post) }

func (ob *retainObs) first() int {
	if len(ob.post) == 0 {
		return -1
	}
	for i, d := range ob.pre {
		if d == ob.post[0] {
			return i
		}
	}
	return -2
}

func retainViol(what, witness, req, detail string) run.Violation {
	return run.Violation{Property: "C08", What: what, Witness: witness, Req: req, Detail: detail}
}

// retainCheck runs monitors (a)–(d) on one pass and returns the violations.
func retainCheck(ob *retainObs, req string) []run.Violation {
	var vs []run.Violation
	ctx := ob.kind + " " + ob.p.String() + fmt.Sprintf(" n=%d left=%d nowT=%d", len(ob.pre), len(ob.post), ob.nowT)
	if ob.panicS != "" {
		return append(vs, retainViol("retention panicked", "retention:panic", req, ctx+" "+ob.panicS))
	}
	// (a) suffix
	suffix := len(ob.post) <= len(ob.pre)
	if suffix {
		d := ob.dropped()
		for i, doc := range ob.post {
			if ob.pre[d+i] != doc {
				suffix = false
				vs = append(vs, retainViol("the log after retention is not the old log minus a prefix", "retention:not-a-suffix", req,
					fmt.Sprintf("%s: position %d of the new log is not old event %d", ctx, i, d+i)))
				break
			}
		}
	} else {
		vs = append(vs, retainViol("the log grew during retention", "retention:not-a-suffix", req, ctx))
	}
	for i, doc := range ob.pre {
		if e := vj.Enc(*doc); e != ob.preEnc[i] {
			vs = append(vs, retainViol("retention modified an event document", "retention:not-a-suffix", req, fmt.Sprintf("%s: event %d: %s -> %s", ctx, i, ob.preEnc[i], e)))
			break
		}
	}
	// (d) set consistency
	if ob.set != nil {
		bad := ""
		if len(ob.set.Index) != len(ob.set.List) {
			bad = fmt.Sprintf("len(Index)=%d len(List)=%d", len(ob.set.Index), len(ob.set.List))
		}
		for i, doc := range ob.set.List {
			if j, ok := ob.set.Index[doc]; bad == "" && (!ok || j != i) {
				bad = fmt.Sprintf("Index[List[%d]] = %d (present %v)", i, j, ok)
			}
		}
		if bad == "" {
			remaining := map[bsonkit.Doc]bool{}
			for _, doc := range ob.post {
				remaining[doc] = true
			}
			for i, doc := range ob.pre {
				if _, ok := ob.set.Index[doc]; ok && !remaining[doc] {
					bad = fmt.Sprintf("removed event %d is still in Index", i)
					break
				}
			}
		}
		if bad != "" {
			vs = append(vs, retainViol("the oplog set is inconsistent after retention", "retention:set-index-stale", req, ctx+": "+bad))
		}
	}
	// (b), (c) on the removed prefix
	if !suffix || !retainInDomain(ob.p) {
		return vs
	}
	o := retainOracle{p: ob.p, nowT: ob.nowT}
	for _, doc := range ob.pre {
		ts, ok := retainTsOf(doc)
		if !ok {
			return vs
		}
		o.ts = append(o.ts, ts)
	}
	d := ob.dropped()
	for j := 0; j < d; j++ {
		if o.inWindow(j) {
			vs = append(vs, retainViol("retention removed one of the newest MinOplogSize events", "retention:protected-removed", req,
				fmt.Sprintf("%s: removed event %d of %d", ctx, j, o.n())))
			break
		}
		if o.younger(j) {
			vs = append(vs, retainViol("retention removed an event younger than MinOplogAge", "retention:protected-removed", req,
				fmt.Sprintf("%s: removed event %d with ts %v (age %d s)", ctx, j, o.ts[j], o.age(j))))
			break
		}
	}
	if m := o.mustDrop(); d < m {
		why := "older than MaxOplogAge"
		if o.beyondSize(d) {
			why = "beyond MaxOplogSize"
		}
		vs = append(vs, retainViol("retention kept an unprotected event "+why, "retention:kept-beyond-max", req,
			fmt.Sprintf("%s: event %d (ts %v, age %d s) is still there; the first %d events are unprotected and beyond the maximum", ctx, d, o.ts[d], o.age(d), m)))
	}
	return vs
}

// retainReq renders the model request of a pass.
func retainReq(ob *retainObs) string {
	var sb strings.Builder
	sb.WriteString(`{"op":"retain.count","kind":"` + ob.kind + `","ts":[`)
	for i, doc := range ob.pre {
		ts, _ := retainTsOf(doc)
		if i > 0 {
			sb.WriteByte(',')
		}
		sb.WriteString("[" + strconv.FormatUint(uint64(ts.T), 10) + "," + strconv.FormatUint(uint64(ts.I), 10) + "]")
	}
	nowI := strconv.FormatUint(uint64(ob.loI), 10)
	if ob.hiI != ob.loI {
		nowI += "," + strconv.FormatUint(uint64(ob.hiI), 10)
	}
	// the model's inputs: whole seconds (mod 2^32 as the uint32 conversion does) and the zero test
	sb.WriteString(fmt.Sprintf(`],"minSize":%d,"maxSize":%d,"minAgeS":%d,"maxAgeS":%d,"minAgeZero":%v,"minAgeNs":%d,"maxAgeNs":%d,"nowT":%d,"nowI":[%s],"dirty":%v}`,
		ob.p.MinSize, ob.p.MaxSize, uint64(ob.p.MinAge/time.Second)%(1<<32), uint64(ob.p.MaxAge/time.Second)%(1<<32), ob.p.MinAge == 0,
		int64(ob.p.MinAge), int64(ob.p.MaxAge), ob.nowT, nowI, ob.dirty0))
	return sb.String()
}

func retainImpl(ob *retainObs) string {
	if ob.panicS != "" {
		return `{"panic":` + run.JS(ob.panicS) + `}`
	}
	return fmt.Sprintf(`{"ok":{"dropped":%d,"dirty":%v,"first":%d,"other":%v}}`, ob.dropped(), ob.dirty1, ob.first(), ob.otherOK)
}

type retainModelReply struct {
	OK []struct {
		Commit int  `json:"commit"`
		Count  int  `json:"count"`
		Dirty  bool `json:"dirty"`
		First  int  `json:"first"`
		Other  bool `json:"other"`
		Txn    int  `json:"txn"`
	} `json:"ok"`
}

// retainAccept: every candidate of the model must be self-consistent (cleanCount = Txn.clean =
// Sys.commitWith, suffix, dirty flag, other namespace) and the implementation's count must lie between
// the counts for the two admissible ends of now.I, with the same derived observables.
func retainAccept(n, dropped, first int, dirty0, dirty1, other bool, e2e bool) func(string) bool {
	return func(reply string) bool {
		var m retainModelReply
		if err := json.Unmarshal([]byte(reply), &m); err != nil || len(m.OK) == 0 {
			return false
		}
		lo, hi := m.OK[0].Count, m.OK[0].Count
		for _, c := range m.OK {
			wantFirst := c.Count
			if c.Count >= n {
				wantFirst = -1
			}
			if c.Txn != c.Count || c.Commit != c.Count || !c.Other || c.First != wantFirst || c.Dirty != (dirty0 || c.Count > 0) {
				return false
			}
			if c.Count < lo {
				lo = c.Count
			}
			if c.Count > hi {
				hi = c.Count
			}
		}
		if dropped < lo || dropped > hi || !other {
			return false
		}
		wantFirst := dropped
		if dropped >= n {
			wantFirst = -1
		}
		if first != wantFirst {
			return false
		}
		return e2e || dirty1 == (dirty0 || dropped > 0)
	}
}

func retainDropTag(d, n int) string {
	switch {
	case d == 0:
		return "drop=0"
	case d == n:
		return "drop=all"
	case d == 1:
		return "drop=1"
	case d == 2:
		return "drop=2"
	default:
		return "drop=many"
	}
}

func retainAgeTag(name string, d time.Duration) string {
	switch {
	case d == 0:
		return name + "=0"
	case d < time.Second:
		return name + "=sub-second"
	case d > retainMaxValidAge:
		return name + "=wrap"
	case d%time.Second != 0:
		return name + "=fractional"
	case d < time.Minute:
		return name + "=seconds"
	case d < time.Hour:
		return name + "=minutes"
	default:
		return name + "=hours+"
	}
}

// retainCase turns an observed pass into a run.Case.
func retainCase(ob *retainObs, extraTags []string, extraViols []run.Violation) run.Case {
	req := retainReq(ob)
	viols := append(retainCheck(ob, req), extraViols...)
	n := len(ob.pre)
	tags := append([]string{"kind=" + ob.kind}, extraTags...)
	nontrivial := false
	if ob.panicS == "" {
		d := ob.dropped()
		tags = append(tags, retainDropTag(d, n), retainAgeTag("minAge", ob.p.MinAge), retainAgeTag("maxAge", ob.p.MaxAge))
		switch {
		case n == 0:
			tags = append(tags, "k=0")
		case n <= 5:
			tags = append(tags, "k=1-5")
		case n <= 20:
			tags = append(tags, "k=6-20")
		default:
			tags = append(tags, "k=21+")
		}
		if ob.p.MinSize > ob.p.MaxSize {
			tags = append(tags, "min>max")
		}
		if ob.p.MinSize < 0 || ob.p.MaxSize < 0 {
			tags = append(tags, "negative-size")
		}
		if ob.p.MinSize == n || ob.p.MaxSize == n || ob.p.MinSize == n-1 || ob.p.MaxSize == n-1 || ob.p.MaxSize == n+1 || ob.p.MinSize == n+1 {
			tags = append(tags, "size-boundary")
		}
		if ob.hiI != ob.loI {
			tags = append(tags, "nowI-range")
		}
		o := retainOracle{p: ob.p, nowT: ob.nowT}
		mono := true
		for i, doc := range ob.pre {
			ts, _ := retainTsOf(doc)
			o.ts = append(o.ts, ts)
			if i > 0 && bsonkit.Compare(o.ts[i-1], ts) >= 0 {
				mono = false
			}
		}
		if !mono {
			tags = append(tags, "non-monotone")
		}
		if retainInDomain(ob.p) {
			if o.allAgeProtected() {
				tags = append(tags, "all-protected-by-age")
			}
			for j := range o.ts {
				if a := o.age(j); (a == int64(ob.p.MaxAge/time.Second) || a == int64(ob.p.MinAge/time.Second)) && a > 0 {
					tags = append(tags, "event-on-cutoff-second")
					break
				}
			}
			nontrivial = d > 0 || o.someBeyond()
			// (distribution only) an event on the maxAge second whose counter lies between the two clock readings:
			// the only situation in which the two admissible ends of now.I can give different counts
			for j := range o.ts {
				if o.age(j) == int64(ob.p.MaxAge/time.Second) && o.ts[j].I >= ob.loI && o.ts[j].I <= ob.hiI && ob.hiI != ob.loI {
					tags = append(tags, "counter-between-readings")
					break
				}
			}
		} else {
			nontrivial = d > 0
		}
		for _, v := range viols {
			tags = append(tags, "viol:"+v.Witness)
		}
	}
	return run.Case{
		Req:        req,
		Impl:       retainImpl(ob),
		Nontrivial: nontrivial,
		Tags:       tags,
		Viols:      viols,
		Accept:     retainAccept(n, ob.dropped(), ob.first(), ob.dirty0, ob.dirty1, ob.otherOK, ob.kind == "e2e"),
	}
}

// ---------------------------------------------------------------------------------------------
// snapshots

// retainSnap remembers what a set of documents listed at some point.
type retainSnap struct {
	name string
	set  *bsonkit.Set
	list bsonkit.List
	enc  []string
}

func retainSnapOf(name string, set *bsonkit.Set) *retainSnap {
	sn := &retainSnap{name: name, set: set, list: append(bsonkit.List{}, set.List...)}
	for _, d := range sn.list {
		sn.enc = append(sn.enc, vj.Enc(*d))
	}
	return sn
}

// changed reports how the set differs from what it listed when the snapshot was taken ("" = not at all).
func (sn *retainSnap) changed() string {
	if len(sn.set.List) != len(sn.list) {
		return fmt.Sprintf("%s listed %d events, now %d", sn.name, len(sn.list), len(sn.set.List))
	}
	if len(sn.set.Index) != len(sn.list) {
		return fmt.Sprintf("%s: index of %d events, now %d entries", sn.name, len(sn.list), len(sn.set.Index))
	}
	for i, d := range sn.list {
		if sn.set.List[i] != d {
			return fmt.Sprintf("%s: position %d holds another event", sn.name, i)
		}
		if j, ok := sn.set.Index[d]; !ok || j != i {
			return fmt.Sprintf("%s: index entry of event %d is %d (present %v)", sn.name, i, j, ok)
		}
		if vj.Enc(*d) != sn.enc[i] {
			return fmt.Sprintf("%s: event %d was modified", sn.name, i)
		}
	}
	return ""
}

func retainSameEnc(name string, got, want []string) string {
	if len(got) != len(want) {
		return fmt.Sprintf("%s listed %d events, now %d", name, len(want), len(got))
	}
	for i := range got {
		if got[i] != want[i] {
			return fmt.Sprintf("%s: event %d differs", name, i)
		}
	}
	return ""
}

func retainEncList(l bsonkit.List) []string {
	out := make([]string, len(l))
	for i, d := range l {
		out[i] = vj.Enc(*d)
	}
	return out
}

// retainSnapViols: one finding, two properties (snapshot isolation C03, prefix-only retention C08).
func retainSnapViols(req, detail string) []run.Violation {
	var out []run.Violation
	for _, p := range []string{"C03", "C08"} {
		out = append(out, run.Violation{Property: p, What: "a view of the change log taken before a retention pass lost or changed events afterwards",
			Witness: "retention:snapshot-trimmed", Req: req, Detail: detail})
	}
	return out
}

// retainFailStore wraps the memory store; Store fails on demand.
type retainFailStore struct {
	inner *lungo.MemoryStore
	fail  bool
	calls int
}

func (s *retainFailStore) Load() (*lungo.Catalog, error) { return s.inner.Load() }
func (s *retainFailStore) Store(c *lungo.Catalog) error {
	s.calls++
	if s.fail {
		return fmt.Errorf("retain: store refuses")
	}
	return s.inner.Store(c)
}

// ---------------------------------------------------------------------------------------------
// direct passes: Transaction.Clean on a prepared transaction

type retainNsSnap struct {
	coll *mongokit.Collection
	n    int
	enc  string
}

func retainSnapOthers(cat *lungo.Catalog) map[lungo.Handle]retainNsSnap {
	out := map[lungo.Handle]retainNsSnap{}
	for h, c := range cat.Namespaces {
		if h == lungo.Oplog {
			continue
		}
		out[h] = retainNsSnap{coll: c, n: len(c.Documents.List), enc: vj.EncDocs(c.Documents.List)}
	}
	return out
}

func retainOthersSame(cat *lungo.Catalog, snap map[lungo.Handle]retainNsSnap) string {
	count := 0
	for h, c := range cat.Namespaces {
		if h == lungo.Oplog {
			continue
		}
		count++
		s, ok := snap[h]
		if !ok {
			return "namespace " + h.String() + " appeared"
		}
		if s.coll != c {
			return "namespace " + h.String() + " was replaced"
		}
		if len(c.Documents.List) != s.n || vj.EncDocs(c.Documents.List) != s.enc {
			return "namespace " + h.String() + " was modified"
		}
	}
	if count != len(snap) {
		return "a namespace disappeared"
	}
	if cat.Namespaces[lungo.Oplog] == nil {
		return "the oplog namespace disappeared"
	}
	return ""
}

// retainPass calls the real Clean once.  ok=false: the second ticked over during the call.
func retainPass(txn *lungo.Transaction, p retainParams, kind string) (ob *retainObs, extra []run.Violation, ok bool) {
	cat0 := txn.Catalog()
	set0 := cat0.Namespaces[lungo.Oplog].Documents
	ob = &retainObs{kind: kind, p: p, dirty0: txn.Dirty()}
	ob.pre = append(bsonkit.List{}, set0.List...)
	for _, d := range ob.pre {
		ob.preEnc = append(ob.preEnc, vj.Enc(*d))
	}
	others := retainSnapOthers(cat0)
	snap0 := &retainSnap{name: "the catalog the pass started from", set: set0, list: ob.pre, enc: ob.preEnc}

	before := bsonkit.Now()
	func() {
		defer func() {
			if r := recover(); r != nil {
				ob.panicS = fmt.Sprint(r)
			}
		}()
		txn.Clean(p.MinSize, p.MaxSize, p.MinAge, p.MaxAge)
	}()
	after := bsonkit.Now()
	if before.T != after.T {
		return nil, nil, false
	}
	ob.nowT, ob.loI, ob.hiI = before.T, before.I+1, after.I-1
	if ob.panicS != "" {
		return ob, nil, true
	}
	cat1 := txn.Catalog()
	ob.set = cat1.Namespaces[lungo.Oplog].Documents
	ob.post = append(bsonkit.List{}, ob.set.List...)
	ob.dirty1 = txn.Dirty()

	// (e)
	req := "" // filled by the caller through retainCase; monitors below carry their own detail
	ctx := kind + " " + p.String()
	bad := retainOthersSame(cat1, others)
	if bad == "" && cat1 != cat0 {
		bad = retainOthersSame(cat0, others)
	}
	if bad == "" {
		if len(ob.post) == len(ob.pre) {
			if cat1 != cat0 {
				bad = "a Clean that dropped nothing replaced the transaction's catalog"
			} else if ob.dirty1 != ob.dirty0 {
				bad = "a Clean that dropped nothing changed the dirty flag"
			}
		} else {
			if !ob.dirty1 {
				bad = "a Clean that dropped events did not mark the transaction dirty"
			} else if cat1 == cat0 || ob.set == set0 {
				bad = "a Clean that dropped events modified the catalog in place"
			}
		}
	}
	ob.otherOK = bad == ""
	if bad != "" {
		extra = append(extra, retainViol("retention touched something else than the transaction's oplog", "retention:touched-other", req, ctx+": "+bad))
	}
	// the catalog the pass started from (txn.Catalog() before the call) must list what it listed; whether it is
	// also a view others hold — the catalog the transaction was started from — is checked by the caller
	if msg := snap0.changed(); msg != "" && bad == "" {
		ob.otherOK = false
		extra = append(extra, retainViol("retention touched something else than the transaction's oplog", "retention:touched-other", req, ctx+": "+msg))
	}
	return ob, extra, true
}

// retainDirect materialises a spec and runs its Clean calls.
func retainDirect(spec *retainSpec) []run.Case {
	for attempt := 0; attempt < retainRetries; attempt++ {
		ref := bsonkit.Now()
		base, err := retainBase(retainHandTimestamps(spec.Hand, spec.Mono, ref), spec.WriteSeed, false)
		if err != nil {
			return []run.Case{{Impl: `{"bad":` + run.JS(err.Error()) + `}`, Tags: []string{"build-failed"}}}
		}
		txn := lungo.NewTransaction(base)
		baseSnap := retainSnapOf("the catalog the transaction was started from", base.Namespaces[lungo.Oplog].Documents)
		for _, m := range spec.Mgmt {
			var err error
			switch m {
			case "createIndex":
				_, err = txn.CreateIndex(retainDataC, "", mongokit.IndexConfig{Key: bsonkit.MustConvert(bson.D{{Key: "grp", Value: int32(1)}})})
			case "dropIndex":
				err = txn.DropIndex(retainDataC, "n_1")
			case "dropIndexByKey":
				err = txn.DropIndexByKey(retainDataC, bsonkit.MustConvert(bson.D{{Key: "n", Value: int32(1)}}))
			default:
				err = txn.Create(lungo.Handle{"db", "fresh"})
			}
			if err != nil {
				return []run.Case{{Impl: `{"bad":` + run.JS(err.Error()) + `}`, Tags: []string{"build-failed"}}}
			}
		}
		if len(spec.Mgmt) > 0 && !txn.Dirty() {
			return []run.Case{{Impl: `{"bad":"management operations left the transaction clean"}`, Tags: []string{"build-failed"}}}
		}
		if spec.Real > 0 {
			h := retainDataD
			if spec.WriteSeed%3 == 0 {
				h = retainDataC
			}
			if err := retainWrites(txn, h, "r", spec.Real, spec.WriteSeed+1, false); err != nil {
				return []run.Case{{Impl: `{"bad":` + run.JS(err.Error()) + `}`, Tags: []string{"build-failed"}}}
			}
		}
		var cases []run.Case
		ticked := false
		for i, p := range spec.Cleans {
			kind := "direct"
			if i > 0 {
				kind = "again"
			}
			ob, extra, ok := retainPass(txn, p, kind)
			if !ok || (i == 0 && ob.nowT != ref.T) {
				ticked = true
				break
			}
			sharedOplog := len(spec.Mgmt) > 0 && i == 0 && len(ob.pre) > 0 && ob.panicS == "" &&
				len(baseSnap.list) == len(ob.pre) && baseSnap.list[0] == ob.pre[0]
			if ob.panicS == "" {
				if msg := baseSnap.changed(); msg != "" {
					ob.otherOK = false
					extra = append(extra, retainSnapViols("", kind+" "+p.String()+": "+msg)...)
				}
			}
			c := retainCase(ob, spec.Tags, nil)
			for j := range extra {
				extra[j].Req = c.Req
				c.Tags = append(c.Tags, "viol:"+extra[j].Witness)
			}
			c.Viols = append(c.Viols, extra...)
			if len(spec.Mgmt) > 0 {
				c.Tags = append(c.Tags, "mgmt-only")
				if sharedOplog && ob.dropped() > 0 {
					c.Tags = append(c.Tags, "mgmt-only-drop")
				}
			}
			if spec.Real > 0 && i == 0 {
				c.Tags = append(c.Tags, "real-events")
			}
			if len(spec.Hand) > 0 && i == 0 {
				c.Tags = append(c.Tags, "hand-events")
			}
			cases = append(cases, c)
			if ob.panicS != "" {
				break
			}
		}
		if !ticked {
			if attempt > 0 && len(cases) > 0 {
				cases[0].Tags = append(cases[0].Tags, "clock-retry")
			}
			return cases
		}
		if len(cases) > 0 {
			// the first passes are valid observations; only the pass during which the clock ticked is lost
			cases[len(cases)-1].Tags = append(cases[len(cases)-1].Tags, "tick-truncated")
			return cases
		}
	}
	return []run.Case{{Impl: `{"discarded":"clock"}`, Tags: []string{"discarded-clock"}}}
}

// ---------------------------------------------------------------------------------------------
// end-to-end passes: one commit through the engine

func retainE2ERun(spec *retainSpec) []run.Case {
	e := spec.E2E
	for attempt := 0; attempt < retainRetries; attempt++ {
		c, retry := retainE2EOnce(spec, e)
		if !retry {
			if attempt > 0 && len(c) > 0 {
				c[0].Tags = append(c[0].Tags, "clock-retry")
			}
			return c
		}
	}
	return []run.Case{{Impl: `{"discarded":"clock"}`, Tags: []string{"discarded-clock"}}}
}

func retainE2EOnce(spec *retainSpec, e *retainE2E) (cases []run.Case, retry bool) {
	fail := func(err error) ([]run.Case, bool) {
		return []run.Case{{Impl: `{"bad":` + run.JS(err.Error()) + `}`, Tags: []string{"build-failed"}}}, false
	}
	ref := bsonkit.Now()
	base, err := retainBase(retainHandTimestamps(spec.Hand, spec.Mono, ref), spec.WriteSeed, true)
	if err != nil {
		return fail(err)
	}
	ms := lungo.NewMemoryStore()
	if err := ms.Store(base); err != nil {
		return fail(err)
	}
	store := &retainFailStore{inner: ms}
	client, engine, err := lungo.Open(nil, lungo.Options{Store: store, ExpireInterval: time.Hour,
		MinOplogSize: e.Opts.MinSize, MaxOplogSize: e.Opts.MaxSize, MinOplogAge: e.Opts.MinAge, MaxOplogAge: e.Opts.MaxAge})
	if err != nil {
		return fail(err)
	}
	defer engine.Close()

	// views taken before the commit
	cat0 := engine.Catalog()
	snap0 := retainSnapOf("engine.Catalog() taken before the commit", cat0.Namespaces[lungo.Oplog].Documents)
	old := snap0.list
	want0 := snap0.enc
	oldSet := map[bsonkit.Doc]bool{}
	for _, d := range old {
		oldSet[d] = true
	}
	oplogColl := client.Database("local").Collection("oplog")
	rtx, err := engine.Begin(nil, false)
	if err != nil {
		return fail(err)
	}
	rres, err := rtx.Find(lungo.Oplog, bsonkit.MustConvert(bson.D{}), nil, 0, 0)
	if err != nil {
		return fail(err)
	}
	openCur, err := oplogColl.Find(nil, bson.D{})
	if err != nil {
		return fail(err)
	}
	var decoded []bson.D
	if cur, err := oplogColl.Find(nil, bson.D{}); err != nil {
		return fail(err)
	} else if err := cur.All(nil, &decoded); err != nil {
		return fail(err)
	}
	encDecoded := func() []string {
		out := make([]string, len(decoded))
		for i, d := range decoded {
			out[i] = vj.Enc(d)
		}
		return out
	}
	if msg := retainSameEnc("Find before the commit", encDecoded(), want0); msg != "" {
		return fail(fmt.Errorf("harness: %s", msg))
	}

	ob := &retainObs{kind: "e2e", p: e.Opts, dirty0: true, dirty1: true, otherOK: true}
	coll := client.Database("db").Collection("c")
	expected := e.N
	store.fail = e.FailStore
	before := bsonkit.Now()
	werr := func() (err error) {
		defer func() {
			if r := recover(); r != nil {
				ob.panicS = fmt.Sprint(r)
			}
		}()
		switch e.Kind {
		case "createIndex":
			expected = 0
			_, err := coll.Indexes().CreateOne(nil, mongo.IndexModel{Keys: bson.D{{Key: "grp", Value: int32(1)}}})
			return err
		case "dropIndex":
			expected = 0
			_, err := coll.Indexes().DropOne(nil, "n_1")
			return err
		case "dropIndexByKey":
			expected = 0
			_, err := coll.Indexes().DropOneWithKey(nil, bson.D{{Key: "n", Value: int32(1)}})
			return err
		case "createCollection":
			expected = 0
			return client.Database("db").CreateCollection(nil, "fresh")
		case "insertOne":
			expected = 1
			_, err := coll.InsertOne(nil, bson.D{{Key: "_id", Value: "one"}, {Key: "n", Value: int64(0)}})
			return err
		case "updateMany":
			res, err := coll.UpdateMany(nil, bson.D{{Key: "grp", Value: bson.D{{Key: "$lt", Value: int64(e.N)}}}}, bson.D{{Key: "$inc", Value: bson.D{{Key: "n", Value: int64(1)}}}})
			if err != nil {
				return err
			}
			if int(res.ModifiedCount) != e.N {
				return fmt.Errorf("UpdateMany modified %d documents, expected %d", res.ModifiedCount, e.N)
			}
		case "bulk":
			var models []mongo.WriteModel
			for i := 0; i < e.N; i++ {
				switch i % 3 {
				case 0:
					models = append(models, mongo.NewInsertOneModel().SetDocument(bson.D{{Key: "_id", Value: fmt.Sprintf("b%d", i)}, {Key: "n", Value: int64(0)}}))
				case 1:
					models = append(models, mongo.NewUpdateOneModel().SetFilter(bson.D{{Key: "_id", Value: fmt.Sprintf("b%d", i-1)}}).SetUpdate(bson.D{{Key: "$inc", Value: bson.D{{Key: "n", Value: int64(1)}}}}))
				default:
					models = append(models, mongo.NewDeleteOneModel().SetFilter(bson.D{{Key: "_id", Value: fmt.Sprintf("b%d", i-2)}}))
				}
			}
			if _, err := coll.BulkWrite(nil, models); err != nil {
				return err
			}
		default:
			var docs []interface{}
			for i := 0; i < e.N; i++ {
				docs = append(docs, bson.D{{Key: "_id", Value: fmt.Sprintf("e%d", i)}, {Key: "n", Value: int64(i)}})
			}
			if _, err := coll.InsertMany(nil, docs); err != nil {
				return err
			}
		}
		return nil
	}()
	after := bsonkit.Now()
	store.fail = false
	if before.T != after.T || before.T != ref.T {
		return nil, true
	}
	if e.FailStore {
		if werr == nil && ob.panicS == "" {
			return fail(fmt.Errorf("the commit succeeded although the store refused (store calls: %d)", store.calls))
		}
	} else if werr != nil {
		return fail(werr)
	}
	ob.nowT, ob.loI, ob.hiI = before.T, before.I+1, after.I-1

	tags := append([]string{"e2e:" + e.Kind}, spec.Tags...)
	if expected == 0 {
		tags = append(tags, "mgmt-only")
	}
	ctx := "e2e " + e.Kind + " " + e.Opts.String()

	// every view taken before the commit must list exactly what it listed
	var snapMsgs []string
	note := func(msg string) {
		if msg != "" {
			snapMsgs = append(snapMsgs, msg)
		}
	}
	checkViews := func() {
		note(snap0.changed())
		note(retainSameEnc("the earlier result of the read-only transaction's Find", retainEncList(rres.Matched), want0))
		if again, err := rtx.Find(lungo.Oplog, bsonkit.MustConvert(bson.D{}), nil, 0, 0); err != nil {
			note("the read-only transaction's Find fails after the commit")
		} else {
			note(retainSameEnc("the read-only transaction (Begin(ctx,false) before the commit), Find on local.oplog", retainEncList(again.Matched), want0))
		}
		var late []bson.D
		if err := openCur.All(nil, &late); err != nil {
			note("the cursor opened before the commit fails")
		} else {
			got := make([]string, len(late))
			for i, d := range late {
				got[i] = vj.Enc(d)
			}
			note(retainSameEnc("the cursor over local.oplog opened before the commit", got, want0))
		}
		note(retainSameEnc("the decoded result of the Find before the commit", encDecoded(), want0))
	}

	if e.FailStore {
		// nothing was published: same catalog, same log, readers see the old log
		var viols []run.Violation
		if ob.panicS != "" {
			viols = append(viols, retainViol("retention panicked", "retention:panic", "", ctx+" "+ob.panicS))
		} else {
			checkViews()
			cat1 := engine.Catalog()
			if cat1 != cat0 {
				note("a catalog was published although its Store failed")
				if set1 := cat1.Namespaces[lungo.Oplog].Documents; set1 != snap0.set {
					note(retainSameEnc("the published log after the failed Store", retainEncList(set1.List), want0))
				}
			}
			if stored, _ := ms.Load(); stored != base {
				note("the store holds another catalog although Store failed")
			}
			if msg := retainReaders(client, want0); msg != "" {
				note("after the failed Store: " + msg)
			}
		}
		tags = append(tags, "store-fails", retainDropTag(0, len(old)))
		if len(snapMsgs) > 0 {
			viols = append(viols, retainSnapViols("", ctx+" (Store fails): "+strings.Join(snapMsgs, "; "))...)
		}
		for _, v := range viols {
			tags = append(tags, "viol:"+v.Witness)
		}
		o := retainOracle{p: e.Opts, nowT: ob.nowT}
		for _, d := range old {
			ts, _ := retainTsOf(d)
			o.ts = append(o.ts, ts)
		}
		// monitor-only case (no model request): the commit's own retention result is not observable
		return []run.Case{{Impl: fmt.Sprintf(`{"ok":{"store-fails":%q,"n":%d}}`, e.Kind, len(old)) + ctx + fmt.Sprint(ob.nowT), Tags: tags, Viols: viols,
			Nontrivial: o.mustDrop() > 0 || o.someBeyond()}}, false
	}

	var extra []run.Violation
	if ob.panicS == "" {
		cat1 := engine.Catalog()
		ob.set = cat1.Namespaces[lungo.Oplog].Documents
		ob.post = append(bsonkit.List{}, ob.set.List...)
		// the pre-clean log = old events ++ the events of this commit (the tail of the new log that is not old)
		var fresh bsonkit.List
		for _, d := range ob.post {
			if !oldSet[d] {
				fresh = append(fresh, d)
			}
		}
		ob.pre = append(append(bsonkit.List{}, old...), fresh...)
		ob.preEnc = append(append([]string{}, want0...), retainEncList(fresh)...)
		if len(fresh) != expected {
			// the commit's own events are younger than any MinOplogAge > 0 (the engine never runs with 0)
			v := retainViol("retention at commit removed events appended by that very commit (younger than MinOplogAge)", "retention:protected-removed", "",
				fmt.Sprintf("%s n=%d: %d of the %d new events are in the published log", ctx, e.N, len(fresh), expected))
			return []run.Case{{Impl: `{"ok":"new-events-missing"}`, Tags: append(tags, "viol:"+v.Witness), Viols: []run.Violation{v}, Nontrivial: true}}, false
		}
		if stored, _ := ms.Load(); stored != cat1 {
			ob.otherOK = false
			extra = append(extra, retainViol("the stored catalog is not the published one", "retention:touched-other", "", ctx))
		}
		if cat1 == cat0 || (ob.set == snap0.set && len(ob.post) != len(old)) {
			ob.otherOK = false
			extra = append(extra, retainViol("the commit changed the previously published catalog in place", "retention:touched-other", "", ctx))
		}
		checkViews()
		if len(snapMsgs) > 0 {
			ob.otherOK = false
			extra = append(extra, retainSnapViols("", ctx+": "+strings.Join(snapMsgs, "; "))...)
		}
		// readers: Find on local.oplog and a change stream from the beginning of time
		if msg := retainReaders(client, retainEncList(ob.post)); msg != "" {
			extra = append(extra, retainViol("a reader of the oplog does not see exactly the retained suffix", "retention:reader-not-suffix", "", ctx+": "+msg))
		}
		if d := ob.dropped(); d >= 2 {
			tags = append(tags, "e2e-multi-drop")
		}
		if expected == 0 && ob.dropped() > 0 {
			tags = append(tags, "mgmt-only-drop")
		}
	}
	c := retainCase(ob, tags, nil)
	for j := range extra {
		extra[j].Req = c.Req
		c.Tags = append(c.Tags, "viol:"+extra[j].Witness)
	}
	c.Viols = append(c.Viols, extra...)
	return []run.Case{c}, false
}

func retainReaders(client lungo.IClient, want []string) string {
	cur, err := client.Database("local").Collection("oplog").Find(nil, bson.D{})
	if err != nil {
		return "Find failed"
	}
	var docs []bson.D
	if err := cur.All(nil, &docs); err != nil {
		return "Find cursor failed"
	}
	if len(docs) != len(want) {
		return fmt.Sprintf("Find returned %d events, the log holds %d", len(docs), len(want))
	}
	for i, d := range docs {
		if vj.Enc(d) != want[i] {
			return fmt.Sprintf("Find: event %d differs", i)
		}
	}
	cs, err := client.Watch(nil, bson.A{}, options.ChangeStream().SetStartAtOperationTime(&primitive.Timestamp{T: 1, I: 0}))
	if err != nil {
		return "Watch failed"
	}
	defer cs.Close(nil)
	i := 0
	for cs.TryNext(nil) {
		var ev bson.D
		if err := cs.Decode(&ev); err != nil {
			return "Decode failed"
		}
		if i >= len(want) {
			return "the stream delivered more events than the log holds"
		}
		if vj.Enc(ev) != want[i] {
			return fmt.Sprintf("stream: event %d differs", i)
		}
		i++
	}
	if cs.Err() != nil {
		return "stream error"
	}
	if i != len(want) {
		return fmt.Sprintf("the stream delivered %d events, the log holds %d", i, len(want))
	}
	return ""
}

// ---------------------------------------------------------------------------------------------
// generation

var retainAgePalette = []time.Duration{0, 0, 1, 500 * time.Millisecond, 999 * time.Millisecond, time.Second, time.Second, 1001 * time.Millisecond,
	1500 * time.Millisecond, 2 * time.Second, 2 * time.Second, 3 * time.Second, 5 * time.Second, 10 * time.Second, 59 * time.Second, time.Minute,
	61 * time.Second, 5 * time.Minute, time.Hour, 24 * time.Hour, retainMaxValidAge}

var retainEventAges = []int64{0, 0, 0, 1, 1, 2, 2, 3, 4, 5, 6, 9, 10, 11, 58, 59, 60, 61, 62, 299, 300, 301, 3599, 3600, 3601, 86399, 86400, 86401,
	21*86400 - 1, 21 * 86400, 21*86400 + 1, 30 * 86400}

func retainGenSize(r *gen.R, k int) int {
	switch r.N(12) {
	case 0:
		return 0
	case 1:
		return 1
	case 2:
		return k
	case 3:
		return k + 1
	case 4:
		if k > 0 {
			return k - 1
		}
		return 0
	case 5:
		return k / 2
	case 6:
		return 2
	case 7:
		if r.P(50) {
			return 100
		}
		return 1000
	case 8:
		if r.P(15) {
			return -1 - r.N(3)
		}
		return r.N(k + 4)
	default:
		return r.N(k + 4)
	}
}

func retainGenParams(r *gen.R, k int) retainParams {
	p := retainParams{MinSize: retainGenSize(r, k), MaxSize: retainGenSize(r, k)}
	p.MinAge = retainAgePalette[r.N(len(retainAgePalette))]
	p.MaxAge = retainAgePalette[r.N(len(retainAgePalette))]
	if r.P(35) {
		p.MinSize = 0
	}
	if r.P(30) {
		p.MinAge = 0
	}
	if r.P(10) {
		// size only
		p.MaxAge = time.Hour
	}
	if r.P(2) {
		// outside the validated range: the uint32 subtraction wraps (model comparison and monitors a, d, e only)
		if r.P(50) {
			p.MaxAge = 70 * 365 * 24 * time.Hour
		} else {
			p.MinAge = 70 * 365 * 24 * time.Hour
		}
	}
	return p
}

func retainGenSpec(r *gen.R) *retainSpec {
	k := 0
	switch c := r.N(100); {
	case c < 4:
		k = 0
	case c < 40:
		k = 1 + r.N(6)
	case c < 80:
		k = 7 + r.N(14)
	default:
		k = 21 + r.N(20)
	}
	spec := &retainSpec{WriteSeed: r.N(1000), Mono: !r.P(6)}
	real := 0
	switch r.N(4) {
	case 0:
		real = 0
	case 1:
		real = k
	default:
		real = r.N(k + 1)
	}
	if real > k {
		real = k
	}
	if r.P(12) {
		// a transaction that only managed indexes / collections: dirty, no events, oplog never cloned
		real = 0
		spec.Mgmt = [][]string{{"createIndex"}, {"dropIndex"}, {"dropIndexByKey"}, {"create"}, {"createIndex", "create"},
			{"create", "dropIndex"}, {"createIndex", "dropIndexByKey"}}[r.N(7)]
	}
	spec.Real = real
	h := k - real
	p := retainGenParams(r, k)
	// ages of the hand-built events: palette values and the cutoff seconds ± 1
	cut := []int64{int64(p.MinAge / time.Second), int64(p.MaxAge / time.Second)}
	ages := make([]int64, h)
	for i := range ages {
		switch {
		case r.P(30):
			ages[i] = cut[r.N(2)] + int64(r.N(3)) - 1
		case r.P(50):
			ages[i] = int64(r.N(8))
		default:
			ages[i] = retainEventAges[r.N(len(retainEventAges))]
		}
		if ages[i] < 0 {
			ages[i] = 0
			if r.P(20) {
				ages[i] = -1 - int64(r.N(3)) // an event stamped in the future (clock skew)
			}
		}
		if ages[i] > 40*86400 {
			ages[i] = 40 * 86400
		}
	}
	if spec.Mono {
		sort.Slice(ages, func(i, j int) bool { return ages[i] > ages[j] })
	} else {
		spec.Tags = append(spec.Tags, "shuffled")
	}
	for _, a := range ages {
		// counters "around the current one": Clean reads the clock after the k writes that build the log
		// (ref, then k writes, then the reading before Clean: Clean itself sees ref.I + k + 2 if no other shard interferes)
		hd := retainHand{Age: a, Mode: []int{0, 0, 1, 1, 1, 2}[r.N(6)], Off: r.N(k+12) - 4}
		if hd.Mode == 1 && r.P(25) {
			hd.Off = k + 2 + r.N(3)
		}
		spec.Hand = append(spec.Hand, hd)
	}
	spec.Cleans = []retainParams{p}
	for r.P(35) && len(spec.Cleans) < 3 {
		q := retainGenParams(r, k)
		if r.P(50) {
			// same ages, tighter sizes (the unit tests' pattern)
			q.MinAge, q.MaxAge = p.MinAge, p.MaxAge
		}
		spec.Cleans = append(spec.Cleans, q)
	}
	return spec
}

func retainGenE2E(r *gen.R) *retainSpec {
	m := 1 + r.N(5)
	M := 1 + r.N(8)
	if r.P(60) && M < m {
		m, M = M, m
	}
	h := r.N(M + 4)
	if r.P(50) {
		h = M + r.N(3)
	}
	if r.P(10) {
		h = 0
	}
	n := 2 + r.N(6)
	kind := []string{"insertMany", "insertMany", "updateMany", "bulk", "insertOne", "createIndex", "createIndex", "dropIndex", "dropIndexByKey", "createCollection"}[r.N(10)]
	if kind == "updateMany" {
		if h < 2 {
			h = 2 + r.N(4)
		}
		if n > h {
			n = h
		}
	}
	spec := &retainSpec{WriteSeed: r.N(1000), Mono: true}
	minAge := []time.Duration{1, 1, 1, 500 * time.Millisecond, time.Second, 3 * time.Second, 5 * time.Minute}[r.N(7)]
	maxAge := []time.Duration{time.Hour, time.Hour, 24 * time.Hour, time.Second, 2 * time.Second, 10 * time.Second, time.Minute, 1}[r.N(8)]
	ages := make([]int64, h)
	for i := range ages {
		switch {
		case r.P(40):
			ages[i] = 2 + int64(r.N(10))
		case r.P(30):
			ages[i] = int64(maxAge/time.Second) + int64(r.N(4))
		default:
			ages[i] = []int64{2, 3, 5, 60, 61, 300, 301, 3600, 3601, 7200, 90000}[r.N(11)]
		}
		if ages[i] < 2 {
			ages[i] = 2
		}
	}
	sort.Slice(ages, func(i, j int) bool { return ages[i] > ages[j] })
	for _, a := range ages {
		spec.Hand = append(spec.Hand, retainHand{Age: a, Mode: []int{0, 1, 2}[r.N(3)], Off: r.N(20)})
	}
	spec.E2E = &retainE2E{Opts: retainParams{MinSize: m, MaxSize: M, MinAge: minAge, MaxAge: maxAge}, Kind: kind, N: n, FailStore: r.P(20)}
	return spec
}

func retainGen(r *gen.R, idx int) []run.Case {
	if r.P(8) {
		return retainE2ERun(retainGenE2E(r))
	}
	return retainDirect(retainGenSpec(r))
}

// ---------------------------------------------------------------------------------------------
// corpus

func retainHands(mode int, ages ...int64) []retainHand {
	var out []retainHand
	for i, a := range ages {
		out = append(out, retainHand{Age: a, Mode: mode, Off: i})
	}
	return out
}

func retainCorpus() []run.Case {
	h := time.Hour
	s := time.Second
	specs := []*retainSpec{
		// the unit tests of /repo: by size, by time, multi-drop
		{Real: 3, Cleans: []retainParams{{3, 0, 0, h}, {2, 0, 0, h}, {0, 1, 0, h}, {0, 0, 0, h}}, Tags: []string{"corpus:by-size"}},
		{Hand: retainHands(0, 4, 2), Real: 1, Cleans: []retainParams{{0, 100, 3 * s, 0}, {0, 100, 2 * s, 0}, {0, 100, 0, 2 * s}, {0, 100, 0, 0}}, Tags: []string{"corpus:by-time"}},
		{Real: 6, Cleans: []retainParams{{0, 1, 0, h}}, Tags: []string{"corpus:multi-drop"}},
		// drop 0, 1, 2, many
		{Hand: retainHands(0, 10, 9, 8, 7), Cleans: []retainParams{{0, 4, 0, h}}, Tags: []string{"corpus:drop0"}},
		{Hand: retainHands(0, 10, 9, 8, 7), Cleans: []retainParams{{0, 3, 0, h}}, Tags: []string{"corpus:drop1"}},
		{Hand: retainHands(0, 10, 9, 8, 7), Cleans: []retainParams{{0, 2, 0, h}}, Tags: []string{"corpus:drop2"}},
		{Hand: retainHands(0, 7200, 7200, 7200, 3700, 3601, 3600, 3599, 10, 9, 8, 7), Real: 4, Cleans: []retainParams{{2, 100, s, h}}, Tags: []string{"corpus:drop-many-by-age"}},
		{Hand: retainHands(2, 30, 30, 30, 30, 30, 20, 20, 20, 20, 10, 10, 10), Real: 20, Cleans: []retainParams{{5, 7, 0, h}}, Tags: []string{"corpus:drop-many-by-size"}},
		// min > max: the protected zone wins
		{Hand: retainHands(0, 10, 9, 8, 7, 6, 5), Cleans: []retainParams{{4, 1, 0, h}}, Tags: []string{"corpus:min>max"}},
		{Hand: retainHands(0, 10, 9, 8, 7, 6, 5), Cleans: []retainParams{{4, 1, 0, 0}}, Tags: []string{"corpus:min>max-age"}},
		{Hand: retainHands(0, 10, 9, 8, 7, 6, 5), Cleans: []retainParams{{7, 0, 0, 0}}, Tags: []string{"corpus:min>n"}},
		// everything protected by age although beyond both maxima
		{Hand: retainHands(0, 10, 9, 8, 7, 6, 5), Real: 2, Cleans: []retainParams{{0, 0, time.Minute, 0}}, Tags: []string{"corpus:all-protected-by-age"}},
		{Hand: retainHands(1, 0, 0, 0), Real: 3, Cleans: []retainParams{{0, 0, 1, 0}}, Tags: []string{"corpus:sub-second-min-age"}},
		// exactly at the size boundary
		{Hand: retainHands(0, 10, 9, 8, 7, 6), Cleans: []retainParams{{5, 5, 0, 0}, {4, 4, 0, 0}, {0, 5, 0, h}, {0, 4, 0, h}}, Tags: []string{"corpus:size-boundary"}},
		// on the cutoff seconds; counters around now.I on the maxAge second
		{Hand: retainHands(0, 6, 5, 5, 4, 3, 3, 2), Cleans: []retainParams{{0, 100, 3 * s, 5 * s}}, Tags: []string{"corpus:cutoff-seconds"}},
		{Hand: retainHands(1, 5, 5, 5, 5, 5, 5), Cleans: []retainParams{{0, 100, 0, 5 * s}}, Tags: []string{"corpus:cutoff-counter"}},
		{Hand: []retainHand{{5, 1, 4}, {5, 1, 5}, {5, 1, 6}}, Cleans: []retainParams{{0, 100, 0, 5 * s}}, Tags: []string{"corpus:cutoff-counter-exact"}},
		{Hand: retainHands(2, 5, 5, 5), Cleans: []retainParams{{0, 100, 0, 5 * s}}, Tags: []string{"corpus:cutoff-counter-huge"}},
		{Hand: retainHands(0, 2, 1, 1), Real: 2, Cleans: []retainParams{{0, 100, 1500 * time.Millisecond, 1500 * time.Millisecond}}, Tags: []string{"corpus:fractional"}},
		// empty log, single event
		{Cleans: []retainParams{{0, 0, 0, 0}}, Tags: []string{"corpus:empty"}},
		{Real: 1, Cleans: []retainParams{{0, 0, 0, 0}}, Tags: []string{"corpus:single"}},
		{Real: 1, Cleans: []retainParams{{1, 0, 0, 0}}, Tags: []string{"corpus:single-protected"}},
		// outside the validated range
		{Hand: retainHands(0, 10, 9), Cleans: []retainParams{{0, 100, 0, 70 * 365 * 24 * h}}, Tags: []string{"corpus:wrap"}},
		// end to end: one commit, several drops
		{Hand: retainHands(0, 10, 9, 8, 7), Mono: true, E2E: &retainE2E{Opts: retainParams{1, 4, 1, h}, Kind: "insertMany", N: 3}, Tags: []string{"corpus:e2e-insertMany"}},
		{Hand: retainHands(0, 10, 9, 8, 7), Mono: true, E2E: &retainE2E{Opts: retainParams{2, 3, 1, h}, Kind: "updateMany", N: 4}, Tags: []string{"corpus:e2e-updateMany"}},
		{Hand: retainHands(0, 7200, 7200, 10, 9, 8), Mono: true, E2E: &retainE2E{Opts: retainParams{1, 100, 1, h}, Kind: "bulk", N: 4}, Tags: []string{"corpus:e2e-by-age"}},
		{Hand: retainHands(0, 10, 9, 8, 7), Mono: true, E2E: &retainE2E{Opts: retainParams{5, 2, 1, s}, Kind: "insertMany", N: 2}, Tags: []string{"corpus:e2e-min>max"}},
		{Mono: true, E2E: &retainE2E{Opts: retainParams{1, 2, 1, s}, Kind: "insertMany", N: 5}, Tags: []string{"corpus:e2e-empty-store"}},
		// management-only transactions: dirty, no events of their own, oplog never cloned
		{Hand: retainHands(0, 10, 9, 8, 7, 6), Mgmt: []string{"createIndex"}, Cleans: []retainParams{{0, 2, 0, h}, {0, 1, 0, h}}, Tags: []string{"corpus:mgmt-createIndex"}},
		{Hand: retainHands(0, 10, 9, 8, 7, 6), Mgmt: []string{"dropIndex"}, Cleans: []retainParams{{1, 100, 0, 7 * s}}, Tags: []string{"corpus:mgmt-dropIndex"}},
		{Hand: retainHands(0, 10, 9, 8, 7, 6), Mgmt: []string{"dropIndexByKey"}, Cleans: []retainParams{{0, 0, 0, 0}}, Tags: []string{"corpus:mgmt-dropIndexByKey"}},
		{Hand: retainHands(0, 10, 9, 8, 7, 6), Mgmt: []string{"create"}, Cleans: []retainParams{{2, 3, s, h}}, Tags: []string{"corpus:mgmt-create"}},
		{Hand: retainHands(0, 10, 9, 8, 7, 6), Mgmt: []string{"create"}, Cleans: []retainParams{{5, 5, 0, h}}, Tags: []string{"corpus:mgmt-create-noop"}},
		{Hand: retainHands(0, 10, 9, 8, 7), Mono: true, E2E: &retainE2E{Opts: retainParams{1, 2, 1, h}, Kind: "createIndex"}, Tags: []string{"corpus:e2e-createIndex"}},
		{Hand: retainHands(0, 10, 9, 8, 7), Mono: true, E2E: &retainE2E{Opts: retainParams{1, 2, 1, h}, Kind: "dropIndex"}, Tags: []string{"corpus:e2e-dropIndex"}},
		{Hand: retainHands(0, 7200, 7200, 8, 7), Mono: true, E2E: &retainE2E{Opts: retainParams{1, 100, 1, h}, Kind: "dropIndexByKey"}, Tags: []string{"corpus:e2e-dropIndexByKey"}},
		{Hand: retainHands(0, 10, 9, 8, 7), Mono: true, E2E: &retainE2E{Opts: retainParams{1, 1, 1, h}, Kind: "createCollection"}, Tags: []string{"corpus:e2e-createCollection"}},
		{Hand: retainHands(0, 10, 9, 8, 7), Mono: true, E2E: &retainE2E{Opts: retainParams{1, 2, 1, h}, Kind: "insertOne"}, Tags: []string{"corpus:e2e-insertOne"}},
		{Hand: retainHands(0, 10, 9, 8, 7), Mono: true, E2E: &retainE2E{Opts: retainParams{1, 2, 1, h}, Kind: "createIndex", FailStore: true}, Tags: []string{"corpus:e2e-createIndex-store-fails"}},
		{Hand: retainHands(0, 10, 9, 8, 7), Mono: true, E2E: &retainE2E{Opts: retainParams{1, 2, 1, h}, Kind: "createCollection", FailStore: true}, Tags: []string{"corpus:e2e-createCollection-store-fails"}},
		{Hand: retainHands(0, 10, 9, 8, 7), Mono: true, E2E: &retainE2E{Opts: retainParams{1, 2, 1, h}, Kind: "insertMany", N: 3, FailStore: true}, Tags: []string{"corpus:e2e-insertMany-store-fails"}},
	}
	var out []run.Case
	for _, sp := range specs {
		sp.Mono = true
		var cs []run.Case
		if sp.E2E != nil {
			cs = retainE2ERun(sp)
		} else {
			cs = retainDirect(sp)
		}
		if os.Getenv("RETAIN_DEBUG") != "" {
			for _, c := range cs {
				fmt.Fprintln(os.Stderr, sp.Tags, c.Impl, c.Req)
			}
		}
		out = append(out, cs...)
	}
	return out
}

// ---------------------------------------------------------------------------------------------
// replay: rebuild the log of a request relative to the current clock and clean it again

func retainReplay(req string) string {
	var q struct {
		Ts       [][2]int64 `json:"ts"`
		MinSize  int        `json:"minSize"`
		MaxSize  int        `json:"maxSize"`
		MinAgeNs int64      `json:"minAgeNs"`
		MaxAgeNs int64      `json:"maxAgeNs"`
		NowT     int64      `json:"nowT"`
		Dirty    bool       `json:"dirty"`
	}
	if err := json.Unmarshal([]byte(req), &q); err != nil {
		return ""
	}
	p := retainParams{q.MinSize, q.MaxSize, time.Duration(q.MinAgeNs), time.Duration(q.MaxAgeNs)}
	for attempt := 0; attempt < retainRetries; attempt++ {
		ref := bsonkit.Now()
		stamps := make([]primitive.Timestamp, len(q.Ts))
		for i, t := range q.Ts {
			stamps[i] = primitive.Timestamp{T: uint32(int64(ref.T) - (q.NowT - t[0])), I: uint32(t[1])}
		}
		base, err := retainBase(stamps, 0, false)
		if err != nil {
			return `{"bad":` + run.JS(err.Error()) + `}`
		}
		txn := lungo.NewTransaction(base)
		if q.Dirty {
			_ = txn.Create(lungo.Handle{"db", "replay"})
		}
		ob, extra, ok := retainPass(txn, p, "direct")
		if !ok || ob.nowT != ref.T {
			continue
		}
		out := retainImpl(ob)
		for _, v := range append(retainCheck(ob, req), extra...) {
			out += " VIOLATION " + v.Witness + ": " + v.Detail
		}
		return out
	}
	return `{"discarded":"clock"}`
}
