package streams

import (
	"bytes"
	"strconv"
	"strings"

	"go.mongodb.org/mongo-driver/bson"
	"go.mongodb.org/mongo-driver/bson/primitive"

	"github.com/256dpi/lungo/bsonkit"
)

// Own key extraction and key comparison of the C07 / C15 monitors. The values an index sees at a
// path are collected by an own walk (documents inside arrays fan out, numeric segments address array
// positions, one level of arrays is flattened at the end); equality of key values is decided by an
// own structural comparison whose NUMERIC leaves use the exact big.Rat oracle of cmp.go (exactCmp),
// timestamps / dates / strings / booleans / ObjectIDs / binaries their own fields. Only the
// remaining leaves (null and missing, regex, …) and cross-class pairs go through bsonkit.Compare.

func ownIndex(seg string) (int, bool) {
	if seg == "" || seg[0] < '0' || seg[0] > '9' {
		return 0, false
	}
	i, err := strconv.Atoi(seg)
	return i, err == nil
}

func ownGet(v interface{}, segs []string) (interface{}, bool) {
	if len(segs) == 0 {
		return v, false
	}
	switch x := v.(type) {
	case bson.D:
		for _, e := range x {
			if e.Key == segs[0] {
				return ownGet(e.Value, segs[1:])
			}
		}
	case bson.A:
		if i, ok := ownIndex(segs[0]); ok && i < len(x) {
			return ownGet(x[i], segs[1:])
		}
		res := bson.A{}
		for _, item := range x {
			val, nested := ownGet(item, segs)
			if val == bsonkit.Missing {
				continue
			}
			if arr, isArr := val.(bson.A); isArr && nested {
				res = append(res, arr...)
			} else {
				res = append(res, val)
			}
		}
		return res, true
	}
	return bsonkit.Missing, false
}

// ownValues: the value of the document at the path as an index sees it (the counterpart of
// bsonkit.All(doc, path, true, true)).
func ownValues(doc bsonkit.Doc, path string) interface{} {
	if path == "" || strings.Contains(path, "..") || strings.HasPrefix(path, ".") || strings.HasSuffix(path, ".") {
		v, _ := bsonkit.All(doc, path, true, true) // degenerate paths: no own opinion
		return v
	}
	v, nested := ownGet(*doc, strings.Split(path, "."))
	if !nested {
		return v
	}
	arr, ok := v.(bson.A)
	if !ok {
		return v
	}
	out := make(bson.A, 0, len(arr))
	for _, item := range arr {
		if a, ok := item.(bson.A); ok {
			out = append(out, a...)
		} else {
			out = append(out, item)
		}
	}
	return out
}

func isNumeric(v interface{}) bool {
	switch v.(type) {
	case int32, int64, float64, primitive.Decimal128:
		return true
	}
	return false
}

// keyEq: two key values are the same key.
func keyEq(a, b interface{}) bool {
	na, nb := isNumeric(a), isNumeric(b)
	if na != nb {
		return false
	}
	if na {
		if c, ok := exactCmp(a, b); ok {
			return c == 0
		}
		return bsonkit.Compare(a, b) == 0
	}
	switch x := a.(type) {
	case string:
		if y, ok := b.(string); ok {
			return x == y
		}
	case bool:
		if y, ok := b.(bool); ok {
			return x == y
		}
	case primitive.Timestamp:
		if y, ok := b.(primitive.Timestamp); ok {
			return x.T == y.T && x.I == y.I
		}
	case primitive.DateTime:
		if y, ok := b.(primitive.DateTime); ok {
			return int64(x) == int64(y)
		}
	case primitive.ObjectID:
		if y, ok := b.(primitive.ObjectID); ok {
			return x == y
		}
	case primitive.Binary:
		if y, ok := b.(primitive.Binary); ok {
			return x.Subtype == y.Subtype && bytes.Equal(x.Data, y.Data)
		}
	case bson.D:
		if y, ok := b.(bson.D); ok {
			if len(x) != len(y) {
				return false
			}
			for i := range x {
				if x[i].Key != y[i].Key || !keyEq(x[i].Value, y[i].Value) {
					return false
				}
			}
			return true
		}
	case bson.A:
		if y, ok := b.(bson.A); ok {
			if len(x) != len(y) {
				return false
			}
			for i := range x {
				if !keyEq(x[i], y[i]) {
					return false
				}
			}
			return true
		}
	}
	return bsonkit.Compare(a, b) == 0
}

// keyCmp: the order of two key values; exact for numbers, timestamps and dates.
func keyCmp(a, b interface{}) int {
	if isNumeric(a) && isNumeric(b) {
		if c, ok := exactCmp(a, b); ok {
			return c
		}
	}
	switch x := a.(type) {
	case primitive.Timestamp:
		if y, ok := b.(primitive.Timestamp); ok {
			switch {
			case x.T != y.T:
				if x.T < y.T {
					return -1
				}
				return 1
			case x.I != y.I:
				if x.I < y.I {
					return -1
				}
				return 1
			}
			return 0
		}
	case primitive.DateTime:
		if y, ok := b.(primitive.DateTime); ok {
			switch {
			case x < y:
				return -1
			case x > y:
				return 1
			}
			return 0
		}
	}
	return bsonkit.Compare(a, b)
}
