package streams

import (
	"regexp"
	"strings"
	"testing"

	"verifharness/internal/run"
)

var oidsField = regexp.MustCompile(`,"oids":\[[^\]]*\]`)
var dateField = regexp.MustCompile(`\{"t":-?[0-9]+\}`)

func canonReply(s string) string { return dateField.ReplaceAllString(canonGenOids(s), `{"t":0}`) }

// The request line of every generated call decodes back to the same call (replay fidelity).
func TestAPIRequestRoundTrip(t *testing.T) {
	calls := 0
	for key := uint64(1); key <= 150; key++ {
		steps, _, _ := runAPIHistory(key, -1)
		for _, st := range steps {
			o, err := parseReq(st.req)
			if err != nil {
				t.Fatalf("key %d: unparsable request %s", key, st.req)
			}
			back := decodeAPICall(o).req(nil, "")
			want := oidsField.ReplaceAllString(st.call.req(nil, ""), "")
			if got := oidsField.ReplaceAllString(back, ""); got != want {
				t.Fatalf("key %d: request does not round-trip\n want %s\n got  %s", key, want, got)
			}
			calls++
		}
	}
	if calls < 1000 {
		t.Fatalf("only %d calls generated", calls)
	}
}

// A recorded history (the Req of a violation) replays to the same canonical replies.
func TestAPILiteralReplay(t *testing.T) {
	run.NoModel = true
	for key := uint64(200); key <= 260; key++ {
		steps, _, _ := runAPIHistory(key, -1)
		var reqs, replies []string
		for _, st := range steps {
			// pretend the history was recorded three days ago
			reqs = append(reqs, st.req)
			replies = append(replies, canonReply(st.reply))
		}
		out := apiReplay(`{"op":"api.history","calls":[` + strings.Join(reqs, ",") + `]}`)
		var got []string
		for _, l := range strings.Split(out, "\n") {
			if i := strings.Index(l, " impl : "); i >= 0 && strings.HasPrefix(l, "#") {
				got = append(got, canonReply(l[i+8:]))
			}
		}
		if strings.Join(got, "\n") != strings.Join(replies, "\n") {
			t.Fatalf("key %d: literal replay differs\n%s\nvs\n%s", key, strings.Join(got, "\n"), strings.Join(replies, "\n"))
		}
	}
}
