package streams

import (
	"regexp"
	"strings"
	"testing"

	"go.mongodb.org/mongo-driver/bson"

	"github.com/256dpi/lungo/mongokit"

	"verifharness/internal/run"
)

var oidsField = regexp.MustCompile(`,"oids":\[[^\]]*\]`)
var dateField = regexp.MustCompile(`\{"t":-?[0-9]+\}`)

func canonReply(s string) string { return dateField.ReplaceAllString(canonGenOids(s), `{"t":0}`) }

// The request line of every generated call decodes back to the same call (replay fidelity).
func TestAPIRequestRoundTrip(t *testing.T) {
	calls := 0
	for key := uint64(1); key <= 150; key++ {
		steps, _, _ := runAPIHistory(key, -1)
		for _, st := range steps {
			o, err := parseReq(st.req)
			if err != nil {
				t.Fatalf("key %d: unparsable request %s", key, st.req)
			}
			back := decodeAPICall(o).req(nil, "")
			want := oidsField.ReplaceAllString(st.call.req(nil, ""), "")
			if got := oidsField.ReplaceAllString(back, ""); got != want {
				t.Fatalf("key %d: request does not round-trip\n want %s\n got  %s", key, want, got)
			}
			calls++
		}
	}
	if calls < 1000 {
		t.Fatalf("only %d calls generated", calls)
	}
}

// A recorded history (the Req of a violation) replays to the same canonical replies.
func TestAPILiteralReplay(t *testing.T) {
	run.NoModel = true
	for key := uint64(200); key <= 260; key++ {
		steps, _, _ := runAPIHistory(key, -1)
		var reqs, replies []string
		for _, st := range steps {
			// pretend the history was recorded three days ago
			reqs = append(reqs, st.req)
			replies = append(replies, canonReply(st.reply))
		}
		out := apiReplay(`{"op":"api.history","calls":[` + strings.Join(reqs, ",") + `]}`)
		var got []string
		for _, l := range strings.Split(out, "\n") {
			if i := strings.Index(l, " impl : "); i >= 0 && strings.HasPrefix(l, "#") {
				got = append(got, canonReply(l[i+8:]))
			}
		}
		if strings.Join(got, "\n") != strings.Join(replies, "\n") {
			t.Fatalf("key %d: literal replay differs\n%s\nvs\n%s", key, strings.Join(got, "\n"), strings.Join(replies, "\n"))
		}
	}
}

func issueSet(ns *mongokit.Collection) map[string]bool {
	out := map[string]bool{}
	for _, is := range indexIssues(ns) {
		out[is.reason] = true
	}
	return out
}

// The C15 monitor reads the entries behind an index and recognises hand-made incoherent states.
func TestIndexIssues(t *testing.T) {
	mk := func() *mongokit.Collection {
		ns := mongokit.NewCollection(true)
		if _, err := ns.CreateIndex("", mongokit.IndexConfig{Key: &bson.D{{Key: "a", Value: int32(-1)}}}); err != nil {
			t.Fatal(err)
		}
		if _, err := ns.CreateIndex("", mongokit.IndexConfig{Key: &bson.D{{Key: "b", Value: int32(1)}}, Unique: true,
			Partial: &bson.D{{Key: "x", Value: bson.D{{Key: "$gt", Value: int32(0)}}}}}); err != nil {
			t.Fatal(err)
		}
		for i, d := range []bson.D{
			{{Key: "_id", Value: int32(1)}, {Key: "a", Value: bson.A{int32(1), int32(2)}}, {Key: "b", Value: int32(1)}, {Key: "x", Value: int32(1)}},
			{{Key: "_id", Value: int32(2)}, {Key: "a", Value: int32(3)}, {Key: "b", Value: int32(1)}},
			{{Key: "_id", Value: int32(3)}, {Key: "a", Value: bson.A{}}, {Key: "b", Value: int32(2)}, {Key: "x", Value: int64(5)}},
		} {
			d := d
			if _, err := ns.Insert(&d); err != nil {
				t.Fatalf("insert %d: %v", i, err)
			}
		}
		return ns
	}
	ns := mk()
	es, ok := indexEntries(ns.Indexes["a_-1"])
	if !ok || len(es) != 4 {
		t.Fatalf("entries of a_-1 not readable: ok=%v n=%d", ok, len(es))
	}
	if got := indexIssues(ns); len(got) != 0 {
		t.Fatalf("coherent collection reported: %v", got)
	}
	// a document without its index entries
	ns = mk()
	ns.Documents.Add(&bson.D{{Key: "_id", Value: int32(9)}, {Key: "x", Value: int32(2)}})
	if s := issueSet(ns); !s["missing-entry"] {
		t.Fatalf("missing-entry not reported: %v", s)
	}
	// an entry for a document that is not in the collection
	ns = mk()
	ns.Indexes["a_-1"].Add(&bson.D{{Key: "_id", Value: int32(9)}, {Key: "a", Value: int32(2)}})
	if s := issueSet(ns); !s["foreign-entry"] || !s["differs-from-rebuild"] {
		t.Fatalf("foreign-entry not reported: %v", s)
	}
	// a stored document changed in place: its entries no longer are its keys
	ns = mk()
	(*ns.Documents.List[0])[1].Value = bson.A{int32(1), int32(7)}
	if s := issueSet(ns); !s["stale-key"] || !s["missing-key"] {
		t.Fatalf("stale-key/missing-key not reported: %v", s)
	}
	// a document moved into the partial filter in place
	ns = mk()
	*ns.Documents.List[1] = append(*ns.Documents.List[1], bson.E{Key: "x", Value: int32(3)})
	if s := issueSet(ns); !s["missing-entry"] {
		t.Fatalf("missing-entry (partial) not reported: %v", s)
	}
	// ... and out of it
	ns = mk()
	(*ns.Documents.List[0])[3].Value = int32(0)
	if s := issueSet(ns); !s["outside-filter"] {
		t.Fatalf("outside-filter not reported: %v", s)
	}
	// the position map
	ns = mk()
	ns.Documents.Index[ns.Documents.List[0]] = 2
	if s := issueSet(ns); !s["set-index-stale"] {
		t.Fatalf("set-index-stale not reported: %v", s)
	}
	// would-be collections: a swap is no duplicate, a collision is
	ns = mk()
	swap := writeItem{T: "updateMany", Q: bson.D{{Key: "x", Value: bson.D{{Key: "$gt", Value: int32(0)}}}},
		U: bson.D{{Key: "$bit", Value: bson.D{{Key: "b", Value: bson.D{{Key: "xor", Value: int32(3)}}}}}}}
	if d := spuriousDup(ns, swap); d == "" {
		t.Fatalf("a key swap is taken for a duplicate")
	}
	coll := writeItem{T: "updateOne", Q: bson.D{{Key: "_id", Value: int32(2)}}, U: bson.D{{Key: "$set", Value: bson.D{{Key: "x", Value: int32(1)}}}}}
	if d := spuriousDup(ns, coll); d != "" {
		t.Fatalf("a move into the partial filter onto a taken key is not taken for a duplicate: %s", d)
	}
}
