package streams

// watch.go — stream "watch" (C09): change-stream consumers (Next / TryNext / Close) run
// concurrently with committing writers under the schedule controller; the hook points next.locked /
// next.oplog / next.wait / next.woke are used to force the critical interleaving "the writer
// commits between the consumer's oplog read and its wait".  Monitors (sched.CheckStreams): exact
// delivery, no stalls, invalidate on drop, resume positions, explicit lost position.  The engine
// side of every run (Begin/Commit/Abort/Watch/Close and the consumers' short e.mutex sections) is
// validated against the Lean model exactly as in stream "sched".

import (
	"encoding/json"
	"fmt"
	"os"
	"sync"

	"verifharness/internal/gen"
	"verifharness/internal/run"
	"verifharness/internal/sched"
)

func init() {
	run.Register(&run.Stream{
		Name:   "watch",
		Rule:   "nontrivial = a forced preemption inside a critical section (incl. a consumer parked between its oplog read and its wait while a writer publishes) or an injected fault (cancel, close, drop, retention)",
		Gen:    watchGen,
		Corpus: watchCorpus,
		Replay: watchReplay,
	})
}

var watchScopes = []string{"client", "db", "coll"}

// a write into one of three namespaces: db.c (the watched one), db.d, other.c
func genWrite(r *gen.R) sched.Op {
	op := sched.Op{Kind: []string{"ins", "ins3", "ins3", "inc", "del"}[r.N(5)]}
	switch r.N(4) {
	case 0:
		op.Coll = "d"
		op.Kind = "ins"
	case 1:
		op.DB = "other"
		op.Kind = "ins"
	}
	return op
}

func genPolls(r *gen.R, slot, n int) []sched.Op {
	var s []sched.Op
	for i := 0; i < n; i++ {
		s = append(s, sched.Op{Kind: []string{"next", "next", "trynext"}[r.N(3)], Stream: slot})
	}
	return s
}

func genWatchScenario(r *gen.R) (sched.Scenario, sched.Chooser) {
	kinds := []string{"deliver", "deliver", "resume", "drop", "wake", "race", "race", "retention", "retention", "mix", "mix"}
	return genWatchKind(r, kinds[r.N(len(kinds))])
}

func genWatchKind(r *gen.R, kind string) (sched.Scenario, sched.Chooser) {
	sc := sched.Scenario{Kind: kind, Watch: true}
	var ch sched.Chooser = &sched.Rand{Next: r.N, Stay: 30 + r.N(60), Flt: 30}
	scope := watchScopes[r.N(3)]
	switch kind {
	case "deliver":
		cons := append([]sched.Op{{Kind: "watch", Stream: 1, Scope: scope}}, genPolls(r, 1, 1+r.N(3))...)
		sc.Actors = [][]sched.Op{cons}
		if r.P(30) {
			sc.Actors = append(sc.Actors, append([]sched.Op{{Kind: "watch", Stream: 2, Scope: watchScopes[r.N(3)]}}, genPolls(r, 2, 1+r.N(2))...))
		}
		for w := 1 + r.N(2); w > 0; w-- {
			var s []sched.Op
			for k := 1 + r.N(3); k > 0; k-- {
				s = append(s, genWrite(r))
			}
			sc.Actors = append(sc.Actors, s)
		}
	case "resume":
		// deliver on slot 1, then reopen on slot 2 at a position derived from slot 1
		start := []string{"resume:1", "after:1", "time:1"}[r.N(3)]
		cons := []sched.Op{{Kind: "watch", Stream: 1, Scope: scope}, {Kind: "next", Stream: 1}}
		if r.P(50) {
			cons = append(cons, sched.Op{Kind: "trynext", Stream: 1})
		}
		cons = append(cons, sched.Op{Kind: "watch", Stream: 2, Scope: scope, Start: start})
		cons = append(cons, genPolls(r, 2, 1+r.N(3))...)
		sc.Actors = [][]sched.Op{cons, {{Kind: "ins"}, {Kind: "ins"}, genWrite(r)}, {genWrite(r), {Kind: "ins"}}}
	case "drop":
		sc.Actors = [][]sched.Op{
			append([]sched.Op{{Kind: "watch", Stream: 1, Scope: scope}}, genPolls(r, 1, 3+r.N(2))...),
			{{Kind: "ins"}, {Kind: []string{"drop", "dropdb"}[r.N(2)]}, {Kind: "ins"}},
		}
		if r.P(35) {
			// a collection stream on a collection that does not exist: only the dropDatabase event
			// (which carries no ns.coll) can invalidate it
			sc.Actors = [][]sched.Op{
				append([]sched.Op{{Kind: "watch", Stream: 1, Scope: "coll", DB: "other", Coll: "zz"}}, genPolls(r, 1, 2+r.N(2))...),
				{{Kind: "ins", DB: "other"}, {Kind: "dropdb", DB: "other"}, {Kind: "ins", DB: "other", Coll: "zz"}},
			}
		}
		if r.P(40) {
			sc.Actors = append(sc.Actors, []sched.Op{genWrite(r)})
		}
	case "wake":
		// a consumer parked in Next is woken by Close / Stream.Close / context cancellation
		sc.Actors = [][]sched.Op{{{Kind: "watch", Stream: 1, Scope: scope}, {Kind: "next", Stream: 1}, {Kind: "trynext", Stream: 1}}}
		switch r.N(3) {
		case 0:
			sc.Actors = append(sc.Actors, []sched.Op{{Kind: "close"}})
		case 1:
			sc.Actors = append(sc.Actors, []sched.Op{{Kind: "sclose", Stream: 1}})
		default:
			sc.AllowCancel = true
			sc.Actors = append(sc.Actors, []sched.Op{{Kind: "find"}})
		}
		if r.P(50) {
			sc.Actors = append(sc.Actors, []sched.Op{genWrite(r)})
		}
	case "race":
		// forced: the writer commits while the consumer sits between its oplog read and its wait
		sc.Actors = [][]sched.Op{
			{{Kind: "watch", Stream: 1, Scope: scope}, {Kind: "next", Stream: 1}, {Kind: []string{"next", "trynext"}[r.N(2)], Stream: 1}},
			{{Kind: "ins"}, genWrite(r)},
		}
		at := []string{"next.oplog", "next.wait", "next.locked"}[r.N(3)]
		ch = &sched.Directed{Steps: []sched.Directive{{Actor: 1, Until: at}, {Actor: 2, Until: "op.start"}, {Actor: 1, Until: "done"}}, Then: ch}
	case "mix":
		// "block for the first event, poll for the rest" and its mirror images: Next and TryNext mixed
		// on ONE stream while commits append several events at once (InsertMany) or several commits
		// coalesce into one signal; the consumer first runs until it is blocked (or done), then the
		// writers run completely, then the consumer drains
		var cons []sched.Op
		switch r.N(4) {
		case 0: // block first, then poll
			cons = []sched.Op{{Kind: "next", Stream: 1}, {Kind: "trynext", Stream: 1}, {Kind: "trynext", Stream: 1}, {Kind: "trynext", Stream: 1}}
		case 1: // empty poll, block, poll
			cons = []sched.Op{{Kind: "trynext", Stream: 1}, {Kind: "next", Stream: 1}, {Kind: "trynext", Stream: 1}, {Kind: "trynext", Stream: 1}}
		case 2: // alternating
			cons = []sched.Op{{Kind: "next", Stream: 1}, {Kind: "trynext", Stream: 1}, {Kind: "next", Stream: 1}, {Kind: "trynext", Stream: 1}, {Kind: "trynext", Stream: 1}}
		default:
			cons = genPolls(r, 1, 3+r.N(3))
		}
		cons = append([]sched.Op{{Kind: "watch", Stream: 1, Scope: scope}}, cons...)
		var wr []sched.Op
		switch r.N(3) {
		case 0:
			wr = []sched.Op{{Kind: "ins3"}}
		case 1:
			wr = []sched.Op{{Kind: "ins"}, {Kind: "ins"}, {Kind: "ins"}}
		default:
			wr = []sched.Op{{Kind: "ins3"}, {Kind: "ins3"}}
		}
		sc.Actors = [][]sched.Op{cons, wr}
		steps := []sched.Directive{{Actor: 1, Until: "done"}, {Actor: 2, Until: "done"}, {Actor: 1, Until: "done"}}
		if r.P(40) {
			// two commits with the consumer draining in between
			steps = []sched.Directive{{Actor: 1, Until: "done"}, {Actor: 2, Until: "op.start"}, {Actor: 1, Until: "done"}, {Actor: 2, Until: "done"}, {Actor: 1, Until: "done"}}
		}
		if r.P(70) {
			ch = &sched.Directed{Steps: steps, Then: ch}
		}
	case "retention":
		// old events + a small size window: new commits discard old events
		sc.Preload = 5 + r.N(3)
		sc.MinOplog, sc.MaxOplog = 2, 3+r.N(2)
		start := []string{"old:1", "old:2", "oldtime:0", "time0", "oldtime:3", "old:5"}[r.N(6)]
		cons := []sched.Op{{Kind: "watch", Stream: 1, Scope: "client", Start: start}}
		if r.P(50) {
			cons = append(cons, sched.Op{Kind: "trynext", Stream: 1})
		}
		cons = append(cons, genPolls(r, 1, 2+r.N(2))...)
		sc.Actors = [][]sched.Op{cons, {{Kind: "ins"}, {Kind: "ins"}}, {{Kind: "inc"}}}
	}
	if kind != "wake" && r.P(15) {
		sc.AllowCancel = true
	}
	return sc, ch
}

func watchCase(sc sched.Scenario, ch sched.Chooser) run.Case {
	o := sched.Run(sc, ch)
	c := schedCaseOf(o, "watch")
	scj, _ := json.Marshal(withSchedule(o))
	for _, v := range sched.CheckStreams(o) {
		c.Viols = append(c.Viols, run.Violation{Property: v.Property, What: v.What, Witness: v.Witness, Req: string(scj), Detail: v.Detail})
	}
	// tags: which stream-level races were forced, start positions, outcomes
	tags := c.Tags
	parked := map[int]string{}
	for _, r := range o.Trace {
		switch r.Kind {
		case "event":
			if r.Parked {
				parked[r.Actor] = r.Point
			}
			if r.Point == "commit.published" {
				for a, p := range parked {
					if a != r.Actor && (p == "next.oplog" || p == "next.wait" || p == "next.locked") {
						tags = append(tags, "forced:publish-while-consumer-at-"+p)
						c.Nontrivial = true
					}
				}
			}
		case "release":
			parked[r.Actor] = ""
		}
	}
	for _, s := range sc.Actors {
		for _, op := range s {
			if op.Kind == "watch" {
				st := op.Start
				if st == "" {
					st = "now"
				}
				for i := 0; i < len(st); i++ {
					if st[i] == ':' {
						st = st[:i]
						break
					}
				}
				tags = append(tags, "scope:"+op.Scope, "start:"+st)
			}
			if op.Kind == "drop" || op.Kind == "dropdb" {
				tags = append(tags, "fault:"+op.Kind)
				c.Nontrivial = true
			}
		}
	}
	if sc.Preload > 0 {
		tags = append(tags, "fault:retention")
		c.Nontrivial = true
	}
	delivered := 0
	for _, h := range o.History {
		if (h.Kind == "next" || h.Kind == "trynext") && h.Res.Has {
			delivered++
			if h.Res.Ev != nil && h.Res.Ev.Op == "invalidate" {
				tags = append(tags, "delivered:invalidate")
			}
		}
		if h.Res.StreamErr != "" {
			tags = append(tags, "streamerr:"+h.Res.StreamErr)
		}
	}
	tags = append(tags, fmt.Sprintf("delivered:%d", delivered))
	c.Tags = dedup(tags)
	return c
}

func withSchedule(o *sched.Outcome) sched.Scenario {
	sc := o.Sc
	sc.Schedule = o.Schedule
	return sc
}

func watchGen(r *gen.R, idx int) []run.Case {
	var extra []run.Case
	if os.Getenv("VERIF_TIER") == "thorough" {
		extra = watchThorough() // once per process
	}
	sc, ch := genWatchScenario(r)
	return append(extra, watchCase(sc, ch))
}

var watchThoroughOnce sync.Once

// watchThorough: exhaustive DFS over all hook-level interleavings of tiny consumer/writer scripts.
func watchThorough() []run.Case {
	var out []run.Case
	watchThoroughOnce.Do(func() {
		budget := 1500
		if b := os.Getenv("VERIF_DFS_BUDGET"); b != "" {
			fmt.Sscanf(b, "%d", &budget)
		}
		w := func(scope, start string) sched.Op {
			return sched.Op{Kind: "watch", Stream: 1, Scope: scope, Start: start}
		}
		nx, tn := sched.Op{Kind: "next", Stream: 1}, sched.Op{Kind: "trynext", Stream: 1}
		tiny := []sched.Scenario{
			{Kind: "deliver", Watch: true, Actors: [][]sched.Op{{w("client", ""), nx}, {{Kind: "ins"}}}},
			{Kind: "deliver", Watch: true, Actors: [][]sched.Op{{w("coll", ""), nx, tn}, {{Kind: "ins", Coll: "d"}, {Kind: "ins"}}}},
			{Kind: "deliver", Watch: true, Actors: [][]sched.Op{{w("db", ""), nx}, {{Kind: "ins", DB: "other"}}, {{Kind: "inc"}}}},
			{Kind: "mix", Watch: true, Actors: [][]sched.Op{{w("coll", ""), nx, tn, tn}, {{Kind: "ins3"}}}},
			{Kind: "drop", Watch: true, Actors: [][]sched.Op{{w("coll", ""), nx, nx}, {{Kind: "drop"}}}},
			{Kind: "wake", Watch: true, Actors: [][]sched.Op{{w("client", ""), nx}, {{Kind: "close"}}}},
			{Kind: "wake", Watch: true, Actors: [][]sched.Op{{w("client", ""), nx}, {{Kind: "sclose", Stream: 1}}}},
			{Kind: "wake", Watch: true, AllowCancel: true, Actors: [][]sched.Op{{w("client", ""), nx}, {{Kind: "find"}}}},
			{Kind: "retention", Watch: true, Preload: 5, MinOplog: 2, MaxOplog: 3, Actors: [][]sched.Op{{w("client", "old:1"), tn, tn}, {{Kind: "ins"}}}},
		}
		for _, sc := range tiny {
			runs, complete := sched.Explore(sc, budget, 0, func(o *sched.Outcome) bool {
				c := schedCaseOf(o, "watch")
				scj, _ := json.Marshal(withSchedule(o))
				for _, v := range sched.CheckStreams(o) {
					c.Viols = append(c.Viols, run.Violation{Property: v.Property, What: v.What, Witness: v.Witness, Req: string(scj), Detail: v.Detail})
				}
				c.Tags = append(c.Tags, "dfs")
				out = append(out, c)
				return true
			})
			fmt.Fprintf(os.Stderr, "watch dfs: kind %s: %d interleavings, exhaustive=%v\n", sc.Kind, runs, complete)
		}
	})
	return out
}

func watchReplay(req string) string {
	var env schedEnv
	if err := json.Unmarshal([]byte(req), &env); err != nil || len(env.Scenario.Actors) == 0 {
		if json.Unmarshal([]byte(req), &env.Scenario) != nil || len(env.Scenario.Actors) == 0 {
			return ""
		}
	}
	sc := env.Scenario
	c := watchCase(sc, &sched.Fixed{Sched: sc.Schedule})
	for _, v := range c.Viols {
		fmt.Fprintln(os.Stderr, "violation:", v.Witness, v.What, v.Detail)
	}
	if c.Req != "" {
		fmt.Fprintln(os.Stderr, "request:", c.Req)
	}
	return c.Impl
}

// watchCorpus: the known defect (a stream whose position is nil skips discarded events silently) and
// the critical wake-up interleavings, with directed schedules.
func watchCorpus() []run.Case {
	var out []run.Case
	// known finding lost-position:nil-last — start time before the first retained event
	for _, start := range []string{"time0", "oldtime:0"} {
		sc := sched.Scenario{Kind: "retention", Watch: true, Preload: 6, MinOplog: 2, MaxOplog: 3, Actors: [][]sched.Op{
			{{Kind: "watch", Stream: 1, Scope: "client", Start: start}, {Kind: "trynext", Stream: 1}, {Kind: "trynext", Stream: 1}},
			{{Kind: "ins"}, {Kind: "ins"}},
		}}
		// the consumer opens the stream, the writer commits (discarding old events), then the consumer polls
		ch := &sched.Directed{Steps: []sched.Directive{{Actor: 1, Until: "op.start"}, {Actor: 2, Until: "done"}, {Actor: 1, Until: "done"}}}
		out = append(out, watchCase(sc, ch))
	}
	// opened on an EMPTY oplog (last == nil), then retention discards the first events
	{
		sc := sched.Scenario{Kind: "retention", Watch: true, EmptyStart: true, MinOplog: 1, MaxOplog: 2, Actors: [][]sched.Op{
			{{Kind: "watch", Stream: 1, Scope: "client"}, {Kind: "trynext", Stream: 1}},
			// events of the current second are never discarded: let the first two grow one second old
			{{Kind: "ins"}, {Kind: "ins"}, {Kind: "sleep", N: 1100}, {Kind: "ins"}, {Kind: "ins"}},
		}}
		ch := &sched.Directed{Steps: []sched.Directive{{Actor: 1, Until: "op.start"}, {Actor: 2, Until: "done"}, {Actor: 1, Until: "done"}}}
		out = append(out, watchCase(sc, ch))
	}
	// the same with a real position: must be explicit (ErrLostOplogPosition)
	{
		sc := sched.Scenario{Kind: "retention", Watch: true, Preload: 6, MinOplog: 2, MaxOplog: 3, Actors: [][]sched.Op{
			{{Kind: "watch", Stream: 1, Scope: "client", Start: "old:1"}, {Kind: "trynext", Stream: 1}, {Kind: "trynext", Stream: 1}, {Kind: "trynext", Stream: 1}},
			{{Kind: "ins"}, {Kind: "ins"}},
		}}
		// the consumer opens the stream and delivers one event, then the writer discards its position
		ch := &sched.Directed{Steps: []sched.Directive{{Actor: 1, Until: "op.start"}, {Actor: 1, Until: "op.start"}, {Actor: 2, Until: "done"}, {Actor: 1, Until: "done"}}}
		out = append(out, watchCase(sc, ch))
	}
	// writer commits between the consumer's oplog read and its wait
	for _, at := range []string{"next.oplog", "next.wait"} {
		for _, scope := range watchScopes {
			sc := sched.Scenario{Kind: "race", Watch: true, Actors: [][]sched.Op{
				{{Kind: "watch", Stream: 1, Scope: scope}, {Kind: "next", Stream: 1}},
				{{Kind: "ins"}},
			}}
			ch := &sched.Directed{Steps: []sched.Directive{{Actor: 1, Until: at}, {Actor: 2, Until: "done"}, {Actor: 1, Until: "done"}}}
			out = append(out, watchCase(sc, ch))
		}
	}
	// "block for the first event, poll for the rest" (and the mirror images): the consumer is parked in
	// Next, ONE commit appends three events (or three commits coalesce into one signal), Next returns the
	// first, the following TryNext calls must deliver the rest without any further commit
	{
		nx, tn := sched.Op{Kind: "next", Stream: 1}, sched.Op{Kind: "trynext", Stream: 1}
		w := sched.Op{Kind: "watch", Stream: 1, Scope: "coll"}
		one := []sched.Directive{{Actor: 1, Until: "done"}, {Actor: 2, Until: "done"}, {Actor: 1, Until: "done"}}
		two := []sched.Directive{{Actor: 1, Until: "done"}, {Actor: 2, Until: "op.start"}, {Actor: 1, Until: "done"}, {Actor: 2, Until: "done"}, {Actor: 1, Until: "done"}}
		for _, v := range []struct {
			cons, wr []sched.Op
			steps    []sched.Directive
		}{
			{[]sched.Op{w, nx, tn, tn, tn}, []sched.Op{{Kind: "ins3"}}, one},
			{[]sched.Op{w, nx, tn, tn, tn}, []sched.Op{{Kind: "ins"}, {Kind: "ins"}, {Kind: "ins"}}, one},
			{[]sched.Op{w, tn, nx, tn, tn, tn}, []sched.Op{{Kind: "ins3"}}, one},
			{[]sched.Op{w, nx, tn, nx, tn, tn, tn, tn}, []sched.Op{{Kind: "ins3"}, {Kind: "ins3"}}, two},
			{[]sched.Op{w, nx, tn, tn, nx, tn, tn, tn}, []sched.Op{{Kind: "ins3"}, {Kind: "ins3"}}, two},
		} {
			sc := sched.Scenario{Kind: "mix", Watch: true, Actors: [][]sched.Op{v.cons, v.wr}}
			out = append(out, watchCase(sc, &sched.Directed{Steps: v.steps}))
		}
	}
	// a collection stream whose collection does not exist is invalidated by dropDatabase alone
	{
		sc := sched.Scenario{Kind: "drop", Watch: true, Actors: [][]sched.Op{
			{{Kind: "watch", Stream: 1, Scope: "coll", DB: "other", Coll: "zz"}, {Kind: "next", Stream: 1}, {Kind: "next", Stream: 1}, {Kind: "trynext", Stream: 1}},
			{{Kind: "ins", DB: "other"}, {Kind: "dropdb", DB: "other"}, {Kind: "ins", DB: "other", Coll: "zz"}},
		}}
		ch := &sched.Directed{Steps: []sched.Directive{{Actor: 1, Until: "op.start"}, {Actor: 2, Until: "done"}, {Actor: 1, Until: "done"}}}
		out = append(out, watchCase(sc, ch))
	}
	// drops end the stream with invalidate
	for _, d := range []string{"drop", "dropdb"} {
		sc := sched.Scenario{Kind: "drop", Watch: true, Actors: [][]sched.Op{
			{{Kind: "watch", Stream: 1, Scope: "coll"}, {Kind: "next", Stream: 1}, {Kind: "next", Stream: 1}, {Kind: "next", Stream: 1}, {Kind: "trynext", Stream: 1}},
			{{Kind: "ins"}, {Kind: d}, {Kind: "ins"}},
		}}
		r := gen.New(78, 0, 1)
		out = append(out, watchCase(sc, &sched.Rand{Next: r.N, Stay: 50}))
	}
	return out
}
