package streams

import (
	"context"
	"encoding/json"
	"errors"
	"fmt"
	"os"
	"reflect"
	"sort"
	"strconv"
	"strings"
	"unsafe"

	"go.mongodb.org/mongo-driver/bson"
	"go.mongodb.org/mongo-driver/bson/primitive"
	"go.mongodb.org/mongo-driver/mongo"

	"github.com/256dpi/lungo"
	"github.com/256dpi/lungo/bsonkit"

	"verifharness/internal/run"
	"verifharness/internal/vj"
)

// Canonicalisers of the "sess" stream (C03): replies and catalog dumps of the real driver in
// the format of Driver.OpsApi `replyJ` / `dumpJ`. Every identifier carries the prefix `sess`
// (the plain "api" stream has its own, richer set).

const (
	sessDoneReply    = `{"ok":{"done":true}}`
	sessBlockedReply = `{"blocked":true}`
	sessUnitReply    = `{"ok":{"unit":true}}`
	sessPanicReply   = `{"panic":"go"}`
)

func sessErrClass(err error) string {
	if lungo.IsUniquenessError(err) {
		return "dup"
	}
	return "err"
}

// sessErrReply maps an error to its class; a context deadline (the call waited for the writer
// slot until its context expired) is the model's `blocked`.
func sessErrReply(err error) string {
	if errors.Is(err, context.DeadlineExceeded) {
		return sessBlockedReply
	}
	return `{"err":"` + sessErrClass(err) + `"}`
}

func sessEncVals(vs []interface{}) string {
	var sb strings.Builder
	sb.WriteByte('[')
	for i, v := range vs {
		if i > 0 {
			sb.WriteByte(',')
		}
		sb.WriteString(vj.Enc(v))
	}
	sb.WriteByte(']')
	return sb.String()
}

func sessEncDocs(l []bson.D) string {
	var sb strings.Builder
	sb.WriteByte('[')
	for i, d := range l {
		if i > 0 {
			sb.WriteByte(',')
		}
		sb.WriteString(vj.Enc(d))
	}
	sb.WriteByte(']')
	return sb.String()
}

func sessSingleReply(res lungo.ISingleResult) string {
	var d bson.D
	err := res.Decode(&d)
	if err == mongo.ErrNoDocuments {
		return `{"ok":{"doc":null}}`
	}
	if err != nil {
		return sessErrReply(err)
	}
	return `{"ok":{"doc":` + vj.Enc(d) + `}}`
}

func sessUpdateReply(res *mongo.UpdateResult, err error) string {
	if err != nil {
		return sessErrReply(err)
	}
	ups := "null"
	if res.UpsertedCount > 0 || res.UpsertedID != nil {
		ups = vj.Enc(res.UpsertedID)
	}
	return fmt.Sprintf(`{"ok":{"matched":%d,"modified":%d,"upserted":%s}}`, res.MatchedCount, res.ModifiedCount, ups)
}

func sessCursorReply(csr lungo.ICursor, err error) string {
	if err != nil {
		return sessErrReply(err)
	}
	var out []bson.D
	if err := csr.All(context.Background(), &out); err != nil {
		return sessErrReply(err)
	}
	return `{"ok":{"docs":` + sessEncDocs(out) + `}}`
}

// ---- canonical dump of a catalog (format of Driver.dumpJ) ----

func sessSortedHandles(c *lungo.Catalog) []lungo.Handle {
	hs := make([]lungo.Handle, 0, len(c.Namespaces))
	for h := range c.Namespaces {
		hs = append(hs, h)
	}
	sort.Slice(hs, func(i, j int) bool {
		if hs[i][0] != hs[j][0] {
			return hs[i][0] < hs[j][0]
		}
		return hs[i][1] < hs[j][1]
	})
	return hs
}

// sessCanonEvent replaces the clock-dependent parts of an oplog event: `_id.ts`/clusterTime by
// the ordinal k, wallTime by date 0; removedFields (Go map order) are sorted.
func sessCanonEvent(ev bson.D, k int) bson.D {
	ts := primitive.Timestamp{T: 0, I: uint32(k)}
	out := make(bson.D, 0, len(ev))
	for _, e := range ev {
		switch e.Key {
		case "_id":
			out = append(out, bson.E{Key: "_id", Value: bson.D{{Key: "ts", Value: ts}}})
		case "clusterTime":
			out = append(out, bson.E{Key: "clusterTime", Value: ts})
		case "wallTime":
			out = append(out, bson.E{Key: "wallTime", Value: primitive.DateTime(0)})
		case "updateDescription":
			ud, _ := e.Value.(bson.D)
			nud := make(bson.D, 0, len(ud))
			for _, f := range ud {
				if a, ok := f.Value.(bson.A); ok && f.Key == "removedFields" {
					ss := make([]string, 0, len(a))
					for _, x := range a {
						s, _ := x.(string)
						ss = append(ss, s)
					}
					sort.Strings(ss)
					na := make(bson.A, 0, len(ss))
					for _, s := range ss {
						na = append(na, s)
					}
					nud = append(nud, bson.E{Key: f.Key, Value: na})
					continue
				}
				nud = append(nud, f)
			}
			out = append(out, bson.E{Key: e.Key, Value: nud})
		default:
			out = append(out, e)
		}
	}
	return out
}

// sessDump renders the catalog as Driver.dumpJ renders the model state. With deep = true the
// dump additionally carries, per index, the documents in INDEX order and, per namespace, the
// size of the pointer→position map (used by the snapshot monitor only: it makes the ordered
// set behind every index and the Set bookkeeping part of the observed value).
func sessDumpOpt(c *lungo.Catalog, deep bool) (out string) {
	defer func() {
		if p := recover(); p != nil {
			out = `{"dump-panic":` + run.JS(fmt.Sprint(p)) + `}`
		}
	}()
	if c == nil {
		return `{"ok":null}`
	}
	var sb strings.Builder
	sb.WriteString(`{"ok":[`)
	for i, h := range sessSortedHandles(c) {
		if i > 0 {
			sb.WriteByte(',')
		}
		ns := c.Namespaces[h]
		sb.WriteString(`{"docs":[`)
		for j, d := range ns.Documents.List {
			if j > 0 {
				sb.WriteByte(',')
			}
			if h == lungo.Oplog && !deep {
				sb.WriteString(vj.Enc(sessCanonEvent(*d, j+1)))
			} else {
				sb.WriteString(vj.Enc(*d))
			}
		}
		sb.WriteString(`],"h":[` + run.JS(h[0]) + `,` + run.JS(h[1]) + `],"indexes":[`)
		names := make([]string, 0, len(ns.Indexes))
		for n := range ns.Indexes {
			names = append(names, n)
		}
		sort.Strings(names)
		for j, n := range names {
			if j > 0 {
				sb.WriteByte(',')
			}
			ix := ns.Indexes[n]
			cfg := ix.Config()
			partial := "null"
			if cfg.Partial != nil {
				partial = vj.Enc(*cfg.Partial)
			}
			list := ix.List()
			pos := make([]int, 0, len(list))
			for _, d := range list {
				p, ok := ns.Documents.Index[d]
				if !ok {
					p = -1
				}
				pos = append(pos, p)
			}
			order := ""
			if deep {
				ps := make([]string, 0, len(pos))
				for _, p := range pos {
					ps = append(ps, strconv.Itoa(p))
				}
				order = `,"order":[` + strings.Join(ps, ",") + `],"ordered":` + vj.EncDocs(list)
			}
			sort.Ints(pos)
			ps := make([]string, 0, len(pos))
			for _, p := range pos {
				ps = append(ps, strconv.Itoa(p))
			}
			sb.WriteString(`{"expiry":` + strconv.FormatInt(int64(cfg.Expiry), 10) + `,"key":` + vj.Enc(*cfg.Key) +
				`,"members":[` + strings.Join(ps, ",") + `],"name":` + run.JS(n) + `,"partial":` + partial +
				`,"unique":` + strconv.FormatBool(cfg.Unique) + order + `}`)
		}
		sb.WriteString(`]`)
		if deep {
			sb.WriteString(`,"nindex":` + strconv.Itoa(len(ns.Documents.Index)))
		}
		sb.WriteString(`}`)
	}
	sb.WriteString(`]}`)
	return sb.String()
}

func sessDump(c *lungo.Catalog) string { return sessDumpOpt(c, false) }

// sessDocsOf renders the documents of one namespace of a catalog (natural order).
func sessDocsOf(c *lungo.Catalog, h lungo.Handle) string {
	if c == nil || c.Namespaces[h] == nil {
		return "[]"
	}
	return vj.EncDocs(c.Namespaces[h].Documents.List)
}

// sessCursorList reads the (unexported) backing list of a cursor without consuming it.
func sessCursorList(c lungo.ICursor) (bsonkit.List, bool) {
	cur, ok := c.(*lungo.Cursor)
	if !ok || cur == nil {
		return nil, false
	}
	f := reflect.ValueOf(cur).Elem().FieldByName("list")
	if !f.IsValid() {
		return nil, false
	}
	return *(*bsonkit.List)(unsafe.Pointer(f.UnsafeAddr())), true
}

// ---- comparison with the model ----

func sessParseJSON(s string) (interface{}, bool) {
	d := json.NewDecoder(strings.NewReader(s))
	d.UseNumber()
	var v interface{}
	if err := d.Decode(&v); err != nil {
		return nil, false
	}
	return v, true
}

// sessJSONEqual compares two replies as parsed JSON (key order is irrelevant), NaN payloads
// canonicalised.
func sessJSONEqual(a, b string) bool {
	if a == b {
		return true
	}
	a, b = canonNaNs(a), canonNaNs(b)
	if a == b {
		return true
	}
	va, ok1 := sessParseJSON(a)
	vb, ok2 := sessParseJSON(b)
	return ok1 && ok2 && reflect.DeepEqual(va, vb)
}

// sessHist is shared by the cases of one history: after an unmodelled step or the first
// disagreement the model state is no longer comparable and later cases are accepted.
type sessHist struct{ poisoned bool }

var sessDebug = os.Getenv("SESS_DEBUG") != ""

func (h *sessHist) accept(impl string) func(string) bool {
	return func(m string) bool {
		if h.poisoned {
			return true
		}
		if strings.Contains(m, `"unmodelled`) {
			h.poisoned = true
			if sessDebug {
				fmt.Fprintln(os.Stderr, "sess: history poisoned:", clip(m, 160))
			}
			return true
		}
		ok := sessJSONEqual(impl, m)
		if !ok {
			h.poisoned = true
		}
		return ok
	}
}
