package streams

import (
	"encoding/json"
	"fmt"
	"reflect"
	"sort"
	"strings"
	"time"
	"unsafe"

	"go.mongodb.org/mongo-driver/bson"
	"go.mongodb.org/mongo-driver/bson/primitive"

	"github.com/256dpi/lungo"
	"github.com/256dpi/lungo/bsonkit"
	"github.com/256dpi/lungo/mongokit"

	"verifharness/internal/vj"
)

// Implementation-side monitors of the "api" stream for C15 (index coherence) and C07 (spurious
// uniqueness rejections). None of them consults the model: the expected members of an index are
// recomputed from Documents.List with the real matcher, the entries of the ordered set behind the
// index are read directly, and the verdict on a uniqueness error is a pairwise comparison of key
// tuples over the collection the call would have produced.

// ---- key tuples and their order (own comparator, api_keys.go) ----

func keyReverse(key bson.D) []bool {
	rev := make([]bool, len(key))
	for i, e := range key {
		switch x := e.Value.(type) {
		case int32:
			rev[i] = x < 0
		case int64:
			rev[i] = x < 0
		case float64:
			rev[i] = x < 0
		}
	}
	return rev
}

func cmpTuple(a, b []interface{}, rev []bool) int {
	for i := 0; i < len(a) && i < len(b); i++ {
		r := keyCmp(a[i], b[i])
		if i < len(rev) && rev[i] {
			r = -r
		}
		if r != 0 {
			return r
		}
	}
	return 0
}

func eqTuple(a, b []interface{}) bool {
	if len(a) != len(b) {
		return false
	}
	for i := range a {
		if !keyEq(a[i], b[i]) {
			return false
		}
	}
	return true
}

func minTuple(ts [][]interface{}, rev []bool) []interface{} {
	m := ts[0]
	for _, t := range ts[1:] {
		if cmpTuple(t, m, rev) < 0 {
			m = t
		}
	}
	return m
}

func encTuple(t []interface{}) string {
	parts := make([]string, 0, len(t))
	for _, v := range t {
		if v == bsonkit.Missing {
			parts = append(parts, "missing")
		} else {
			parts = append(parts, vj.Enc(v))
		}
	}
	return "(" + strings.Join(parts, ",") + ")"
}

// ---- the entries of the ordered set behind an index ----

// ixEntry mirrors bsonkit.indexEntry (checked field by field before it is used).
type ixEntry struct {
	keys []interface{}
	doc  bsonkit.Doc
}

func unexported(v reflect.Value) reflect.Value {
	return reflect.NewAt(v.Type(), unsafe.Pointer(v.UnsafeAddr())).Elem()
}

// indexEntries reads the (key tuple, document) entries of an index in scan order. ok = false
// if the representation is not the expected one (then the entry checks give no verdict).
func indexEntries(ix *mongokit.Index) (out []ixEntry, ok bool) {
	defer func() {
		if recover() != nil {
			out, ok = nil, false
		}
	}()
	base := reflect.ValueOf(ix).Elem().FieldByName("base")
	if !base.IsValid() || base.Kind() != reflect.Ptr || base.IsNil() {
		return nil, false
	}
	tree := base.Elem().FieldByName("btree")
	if !tree.IsValid() || tree.Kind() != reflect.Ptr || tree.IsNil() {
		return nil, false
	}
	scan := unexported(tree).MethodByName("Scan")
	if !scan.IsValid() || scan.Type().NumIn() != 1 || scan.Type().In(0).Kind() != reflect.Func {
		return nil, false
	}
	ft := scan.Type().In(0)
	if ft.NumIn() != 1 || ft.NumOut() != 1 || ft.Out(0).Kind() != reflect.Bool {
		return nil, false
	}
	et := ft.In(0)
	if et.Kind() != reflect.Struct || et.NumField() != 2 || et.Size() != unsafe.Sizeof(ixEntry{}) ||
		et.Field(0).Type != reflect.TypeOf([]interface{}(nil)) || et.Field(1).Type != reflect.TypeOf(bsonkit.Doc(nil)) {
		return nil, false
	}
	fn := reflect.MakeFunc(ft, func(args []reflect.Value) []reflect.Value {
		p := reflect.New(et)
		p.Elem().Set(args[0])
		e := *(*ixEntry)(unsafe.Pointer(p.Pointer()))
		out = append(out, e)
		return []reflect.Value{reflect.ValueOf(true)}
	})
	scan.Call([]reflect.Value{fn})
	return out, true
}

// ---- C15: coherence of one namespace ----

type ixIssue struct{ reason, detail string }

// indexIssues checks one namespace: the position map of the document set, and for every index
// that it holds exactly the documents passing its partial filter (as pointers into Documents.List),
// every key tuple of each of them and nothing else, in key order, and that it lists the documents
// exactly as an index built from scratch over the same documents does.
func indexIssues(ns *mongokit.Collection) (out []ixIssue) {
	add := func(reason, detail string) { out = append(out, ixIssue{reason, detail}) }
	set := ns.Documents
	where := make(map[bsonkit.Doc]int, len(set.List))
	stale := len(set.Index) != len(set.List)
	for i, d := range set.List {
		if _, twice := where[d]; twice {
			add("document-listed-twice", vj.Enc(*d))
		}
		where[d] = i
		if j, ok := set.Index[d]; !ok || j != i {
			stale = true
		}
	}
	if stale {
		add("set-index-stale", fmt.Sprintf("%d listed, %d mapped", len(set.List), len(set.Index)))
	}
	names := make([]string, 0, len(ns.Indexes))
	for n := range ns.Indexes {
		names = append(names, n)
	}
	sort.Strings(names)
nextIndex:
	for _, name := range names {
		ix := ns.Indexes[name]
		cfg := ix.Config()
		if cfg.Key == nil || len(*cfg.Key) == 0 {
			add("no-key", name)
			continue
		}
		key := *cfg.Key
		rev := keyReverse(key)
		// expected members, by the real matcher
		expected := map[bsonkit.Doc]bool{}
		var members bsonkit.List
		for _, d := range set.List {
			in := true
			if cfg.Partial != nil {
				ok, err := mongokit.Match(d, cfg.Partial)
				if err != nil {
					// such an index cannot exist: its build and every insert of this document fail
					add("unevaluable-filter", name+": "+vj.Enc(*cfg.Partial)+" raises an error on stored "+vj.Enc(*d))
					continue nextIndex
				}
				in = ok
			}
			if in {
				expected[d] = true
				members = append(members, d)
			}
		}
		// the listing
		list := ix.List()
		listed := map[bsonkit.Doc]bool{}
		for _, d := range list {
			if listed[d] {
				add("listed-twice", name+" "+vj.Enc(*d))
			}
			listed[d] = true
			if _, ok := where[d]; !ok {
				add("foreign-entry", name+" holds a document that is not in the collection: "+vj.Enc(*d))
			} else if !expected[d] {
				add("outside-filter", name+" holds a document that does not pass "+vj.Enc(*cfg.Partial)+": "+vj.Enc(*d))
			}
		}
		for _, d := range members {
			if !listed[d] {
				add("missing-entry", name+" lacks "+vj.Enc(*d))
			}
		}
		var prev []interface{}
		for i, d := range list {
			m := minTuple(monTuples(d, key), rev)
			if i > 0 && cmpTuple(prev, m, rev) > 0 {
				add("list-order", name+" lists "+encTuple(prev)+" before "+encTuple(m))
				break
			}
			prev = m
		}
		// the entries
		if entries, ok := indexEntries(ix); ok {
			have := map[bsonkit.Doc][][]interface{}{}
			for i, e := range entries {
				if i > 0 && cmpTuple(entries[i-1].keys, e.keys, rev) > 0 {
					add("entry-order", name+" "+encTuple(entries[i-1].keys)+" before "+encTuple(e.keys))
				}
				if e.doc == nil || len(e.keys) != len(key) {
					add("malformed-entry", name)
					continue
				}
				have[e.doc] = append(have[e.doc], e.keys)
				if _, ok := where[e.doc]; !ok {
					continue // reported as foreign-entry
				}
				own := false
				for _, t := range monTuples(e.doc, key) {
					if eqTuple(t, e.keys) {
						own = true
						break
					}
				}
				if !own {
					add("stale-key", name+" holds "+encTuple(e.keys)+" for "+vj.Enc(*e.doc))
				}
			}
			for _, d := range members {
				if !listed[d] {
					continue
				}
				for _, t := range monTuples(d, key) {
					found := false
					for _, k := range have[d] {
						if eqTuple(t, k) {
							found = true
							break
						}
					}
					if !found {
						add("missing-key", name+" lacks "+encTuple(t)+" of "+vj.Enc(*d))
					}
				}
			}
		}
		// an index built from scratch over the same documents lists them identically
		fresh, err := mongokit.CreateIndex(cfg)
		if err != nil {
			add("config-not-rebuildable", name)
			continue
		}
		for _, d := range set.List {
			if ok, err := fresh.Add(d); err != nil || !ok {
				continue nextIndex // duplicates under a unique index are C07's matter
			}
		}
		fl := fresh.List()
		same := len(fl) == len(list)
		for i := 0; same && i < len(fl); i++ {
			same = fl[i] == list[i]
		}
		if !same {
			add("differs-from-rebuild", fmt.Sprintf("%s lists %s, rebuilt %s", name, vj.EncDocs(list), vj.EncDocs(fl)))
		}
	}
	return out
}

// idIndexIssue: every user namespace has the unique index `_id_` over {_id: 1} at all times.
func idIndexIssue(h lungo.Handle, ns *mongokit.Collection) (ixIssue, bool) {
	if h == lungo.Oplog || h[0] == lungo.Local {
		return ixIssue{}, false
	}
	ix := ns.Indexes["_id_"]
	if ix == nil {
		return ixIssue{"id-index-missing", h.String() + " has no _id_ index"}, true
	}
	cfg := ix.Config()
	if !cfg.Unique || cfg.Partial != nil || cfg.Key == nil || len(*cfg.Key) != 1 || (*cfg.Key)[0].Key != "_id" {
		return ixIssue{"id-index-missing", h.String() + " _id_ is not the unique index over _id: " + defOfConfig(cfg).String()}, true
	}
	return ixIssue{}, false
}

// ---- C15: the set of index names (bookkeeping of the successful calls) ----

type ixDef struct {
	key        string // vj encoding of the key document
	keyDoc     bson.D
	unique     bool
	partial    string
	partialDoc bson.D
	expiry     int64
	hasTTL     bool  // created with expireAfterSeconds
	ttlSec     int64 // … this many seconds
}

func (d ixDef) String() string {
	return fmt.Sprintf("{key %s unique %v partial %s expiry %d}", d.key, d.unique, d.partial, d.expiry)
}

// equal: the "same definition" of IndexConfig.Equal (values compared as BSON values, a missing
// partial filter like an empty one).
func (d ixDef) equal(o ixDef) bool {
	return bsonkit.Compare(d.keyDoc, o.keyDoc) == 0 && d.unique == o.unique && d.expiry == o.expiry &&
		bsonkit.Compare(d.partialDoc, o.partialDoc) == 0
}

func defOfConfig(cfg mongokit.IndexConfig) ixDef {
	d := ixDef{unique: cfg.Unique, partial: "null", expiry: int64(cfg.Expiry)}
	if cfg.Key != nil {
		d.key, d.keyDoc = vj.Enc(*cfg.Key), *cfg.Key
	}
	if cfg.Partial != nil {
		d.partial, d.partialDoc = vj.Enc(*cfg.Partial), *cfg.Partial
	}
	return d
}

func defOfCall(c *apiCall) ixDef {
	d := ixDef{key: vj.Enc(c.Keys), keyDoc: c.Keys, unique: c.Unique, partial: "null", expiry: c.expiryNs(), hasTTL: c.HasTTL, ttlSec: int64(c.TTL)}
	if c.HasPartial {
		d.partial, d.partialDoc = vj.Enc(c.Partial), c.Partial
	}
	return d
}

var idDef = ixDef{key: vj.Enc(bson.D{{Key: "_id", Value: int32(1)}}), keyDoc: bson.D{{Key: "_id", Value: int32(1)}}, unique: true, partial: "null"}

// ixBook is what the successful calls of the history created: secondary index definitions by
// namespace and name.
type ixBook map[lungo.Handle]map[string]ixDef

// record updates the book with a call that reported success; it returns complaints about the
// reply itself (a creation that must have failed).
func (b ixBook) record(c *apiCall, reply string) (out []ixIssue) {
	h := lungo.Handle{c.DB, c.Coll}
	switch c.M {
	case "createIndex":
		var r struct {
			OK struct {
				Name string `json:"name"`
			} `json:"ok"`
		}
		if json.Unmarshal([]byte(reply), &r) != nil || r.OK.Name == "" {
			return nil
		}
		def := defOfCall(c)
		defs := map[string]ixDef{"_id_": idDef}
		for n, d := range b[h] {
			defs[n] = d
		}
		if old, ok := defs[r.OK.Name]; ok {
			if !old.equal(def) {
				out = append(out, ixIssue{"conflicting-create-accepted", r.OK.Name + " is " + old.String() + ", created again as " + def.String()})
			}
			return out // same definition: no-op
		}
		for n, d := range defs {
			if bsonkit.Compare(d.keyDoc, def.keyDoc) == 0 {
				out = append(out, ixIssue{"conflicting-create-accepted", n + " has the same key as new " + r.OK.Name})
			}
		}
		if r.OK.Name == "_id_" {
			return out
		}
		if b[h] == nil {
			b[h] = map[string]ixDef{}
		}
		b[h][r.OK.Name] = def
	case "dropIndex":
		delete(b[h], c.Name)
	case "dropAllIndexes":
		delete(b, h)
	case "dropIndexByKey":
		for n, d := range b[h] {
			if bsonkit.Compare(d.keyDoc, c.Keys) == 0 {
				delete(b[h], n)
			}
		}
	case "dropCollection":
		if c.Coll == "" {
			// Collection("").Drop() is Transaction.Drop with an empty collection name: it drops every
			// namespace of the database (what Database.Drop does)
			for k := range b {
				if k[0] == c.DB {
					delete(b, k)
				}
			}
		}
		delete(b, h)
	case "dropDatabase":
		for k := range b {
			if k[0] == c.DB {
				delete(b, k)
			}
		}
	}
	return out
}

// check compares the index names and definitions of every namespace with the book.
func (b ixBook) check(cat *lungo.Catalog) (out []ixIssue) {
	for _, h := range sortedHandles(cat) {
		if h == lungo.Oplog {
			continue
		}
		ns := cat.Namespaces[h]
		want := map[string]ixDef{"_id_": idDef}
		for n, d := range b[h] {
			want[n] = d
		}
		var names []string
		for n := range ns.Indexes {
			names = append(names, n)
		}
		sort.Strings(names)
		for _, n := range names {
			w, ok := want[n]
			if !ok {
				out = append(out, ixIssue{"unexpected-index", h.String() + " has index " + n + " that no successful call created"})
				continue
			}
			got := defOfConfig(ns.Indexes[n].Config())
			if got.key != w.key || got.unique != w.unique || got.partial != w.partial || got.expiry != w.expiry {
				out = append(out, ixIssue{"definition-changed", h.String() + " " + n + " is " + got.String() + ", created as " + w.String()})
			}
		}
		var wn []string
		for n := range want {
			wn = append(wn, n)
		}
		sort.Strings(wn)
		for _, n := range wn {
			if _, ok := ns.Indexes[n]; !ok {
				if n == "_id_" {
					out = append(out, ixIssue{"id-index-missing", h.String() + " has no _id_ index"})
					continue
				}
				out = append(out, ixIssue{"index-lost", h.String() + " lacks index " + n})
			}
		}
	}
	for h, defs := range b {
		if len(defs) > 0 && cat.Namespaces[h] == nil {
			out = append(out, ixIssue{"index-lost", h.String() + " is gone with its indexes"})
		}
	}
	return out
}

// ---- C07: would the write really have produced a duplicate? ----

// dupIn: two of the documents share a key tuple under one of the unique definitions.
func dupIn(cfgs map[string]mongokit.IndexConfig, docs bsonkit.List) (string, bsonkit.Doc, bsonkit.Doc) {
	names := make([]string, 0, len(cfgs))
	for n, cfg := range cfgs {
		if cfg.Unique {
			names = append(names, n)
		}
	}
	sort.Strings(names)
	for _, name := range names {
		cfg := cfgs[name]
		var in bsonkit.List
		var tps [][][]interface{}
		for _, d := range docs {
			if under(cfg, d) {
				in = append(in, d)
				tps = append(tps, monTuples(d, *cfg.Key))
			}
		}
		for i := range in {
			for j := i + 1; j < len(in); j++ {
				if tuplesShare(tps[i], tps[j]) {
					return name, in[i], in[j]
				}
			}
		}
	}
	return "", nil, nil
}

func configsOf(ns *mongokit.Collection) map[string]mongokit.IndexConfig {
	out := map[string]mongokit.IndexConfig{}
	if ns == nil {
		out["_id_"] = mongokit.IndexConfig{Key: &bson.D{{Key: "_id", Value: int32(1)}}, Unique: true}
		return out
	}
	for n, ix := range ns.Indexes {
		out[n] = ix.Config()
	}
	return out
}

// writeItem is one single-document-set write (a driver call or a bulk model).
type writeItem struct {
	T          string // insertOne replaceOne updateOne updateMany findOneAndReplace findOneAndUpdate
	Doc        bson.D
	Q, U, Repl bson.D
	Sort       bson.D
	Upsert     bool
	Filters    []bson.D
	HasFilters bool
}

func itemOfCall(c *apiCall) writeItem {
	it := writeItem{T: c.M, Doc: c.Doc, Q: c.Q, U: c.U, Repl: c.Repl, Upsert: c.Upsert, Filters: c.Filters, HasFilters: c.HasFilters}
	if c.HasSort && (c.M == "findOneAndReplace" || c.M == "findOneAndUpdate") {
		it.Sort = c.Sort
	}
	return it
}

func itemOfBulk(b *apiBulk) writeItem {
	return writeItem{T: b.T, Doc: b.Doc, Q: b.Q, U: b.U, Repl: b.Repl, Upsert: b.Upsert, Filters: b.Filters, HasFilters: b.HasFilters}
}

func ensureID(d bsonkit.Doc) bool {
	if bsonkit.Get(d, "_id") == bsonkit.Missing {
		if _, err := bsonkit.Put(d, "_id", primitive.NewObjectID(), true); err != nil {
			return false
		}
	}
	return true
}

// wouldBe computes the documents the collection would hold after the write: the prior documents
// with the targeted ones (real Sort, real Match, natural order) replaced by their new versions (real
// Apply / the replacement), or with the inserted / upserted document appended. ok = false: no
// verdict (the call fails for another reason before it reaches the indexes).
func wouldBe(ns *mongokit.Collection, it writeItem) (docs bsonkit.List, ok bool) {
	defer func() {
		if recover() != nil {
			docs, ok = nil, false
		}
	}()
	var base bsonkit.List
	if ns != nil {
		base = ns.Documents.List
	}
	tr := func(d bson.D) bsonkit.Doc {
		if d == nil {
			return nil
		}
		out, err := bsonkit.Transform(d)
		if err != nil {
			panic(err)
		}
		return out
	}
	if it.T == "insertOne" {
		d := tr(it.Doc)
		if d == nil || !ensureID(d) {
			return nil, false
		}
		return append(append(bsonkit.List{}, base...), d), true
	}
	q := tr(it.Q)
	if q == nil {
		return nil, false
	}
	list := base
	if len(it.Sort) > 0 {
		var err error
		if list, err = mongokit.Sort(list, tr(it.Sort)); err != nil {
			return nil, false
		}
	}
	var targets bsonkit.List
	for _, d := range list {
		m, err := mongokit.Match(d, q)
		if err != nil {
			return nil, false
		}
		if m {
			targets = append(targets, d)
			if it.T != "updateMany" {
				break
			}
		}
	}
	var filters bsonkit.List
	if it.HasFilters {
		for _, f := range it.Filters {
			filters = append(filters, tr(f))
		}
	}
	replacing := it.T == "replaceOne" || it.T == "findOneAndReplace"
	if len(targets) == 0 {
		if !it.Upsert {
			return base, true
		}
		doc, err := mongokit.Extract(q)
		if err != nil {
			return nil, false
		}
		if replacing {
			repl := tr(it.Repl)
			qid, rid := bsonkit.Get(doc, "_id"), bsonkit.Get(repl, "_id")
			if qid != bsonkit.Missing && rid != bsonkit.Missing && bsonkit.Compare(qid, rid) != 0 {
				return nil, false
			}
			doc = repl
			if rid == bsonkit.Missing && qid != bsonkit.Missing {
				if _, err := bsonkit.Put(doc, "_id", qid, true); err != nil {
					return nil, false
				}
			}
		} else if _, err := mongokit.Apply(doc, q, tr(it.U), true, filters); err != nil {
			return nil, false
		}
		if !ensureID(doc) {
			return nil, false
		}
		return append(append(bsonkit.List{}, base...), doc), true
	}
	newer := map[bsonkit.Doc]bsonkit.Doc{}
	for _, d := range targets {
		var nd bsonkit.Doc
		if replacing {
			nd = tr(it.Repl)
			if bsonkit.Get(nd, "_id") == bsonkit.Missing {
				if _, err := bsonkit.Put(nd, "_id", bsonkit.Get(d, "_id"), true); err != nil {
					return nil, false
				}
			}
		} else {
			nd = bsonkit.Clone(d)
			if _, err := mongokit.Apply(nd, q, tr(it.U), false, filters); err != nil {
				return nil, false
			}
		}
		if vj.Enc(bsonkit.Get(nd, "_id")) != vj.Enc(bsonkit.Get(d, "_id")) {
			return nil, false // rejected as an _id change
		}
		newer[d] = nd
	}
	out := make(bsonkit.List, 0, len(base))
	for _, d := range base {
		if nd, ok := newer[d]; ok {
			out = append(out, nd)
		} else {
			out = append(out, d)
		}
	}
	return out, true
}

// spuriousDup: the write was rejected for uniqueness; does the collection it would have produced
// really hold two documents with a common key tuple under a unique index? Returns a description
// of the would-be collection if it does not.
func spuriousDup(ns *mongokit.Collection, it writeItem) string {
	docs, ok := wouldBe(ns, it)
	if !ok {
		return ""
	}
	if name, _, _ := dupIn(configsOf(ns), docs); name != "" {
		return ""
	}
	return "would-be collection without duplicates: " + vj.EncDocs(docs)
}

// spuriousIndexDup: a unique index build was rejected although no two of the stored documents
// (within the partial filter) share a key tuple.
func spuriousIndexDup(ns *mongokit.Collection, c *apiCall) string {
	if ns == nil {
		return "index build over a missing namespace rejected as duplicate"
	}
	if !c.Unique {
		return "a non-unique index build was rejected as duplicate"
	}
	cfg := mongokit.IndexConfig{Key: &c.Keys, Unique: true, Expiry: time.Duration(c.expiryNs())}
	if c.HasPartial {
		cfg.Partial = &c.Partial
		for _, d := range ns.Documents.List {
			if _, err := mongokit.Match(d, cfg.Partial); err != nil {
				return ""
			}
		}
	}
	if name, _, _ := dupIn(map[string]mongokit.IndexConfig{"new": cfg}, ns.Documents.List); name != "" {
		return ""
	}
	return "no two documents share a key under " + vj.Enc(c.Keys)
}

// bulkErrors parses the per-item error classes of a BulkWrite reply.
func bulkErrors(reply string) (map[int]string, bool) {
	var r struct {
		OK *struct {
			Errors [][]interface{} `json:"errors"`
		} `json:"ok"`
	}
	if json.Unmarshal([]byte(reply), &r) != nil || r.OK == nil {
		return nil, false
	}
	out := map[int]string{}
	for _, e := range r.OK.Errors {
		if len(e) != 2 {
			return nil, false
		}
		i, ok1 := e[0].(float64)
		cls, ok2 := e[1].(string)
		if !ok1 || !ok2 {
			return nil, false
		}
		out[int(i)] = cls
	}
	return out, true
}

func replyClass(reply string) string {
	switch {
	case strings.HasPrefix(reply, `{"ok"`):
		return "ok"
	case reply == `{"err":"dup"}`:
		return "dup"
	}
	return "err"
}

// batchSpurious walks the items of an InsertMany / BulkWrite whose reply reports a uniqueness
// error on a fresh engine holding the prior state (rebuilt from the documents), one call at a
// time, and decides for every item the real batch rejected as duplicate whether the collection
// at that point plus the item really holds a duplicate. Returns the offending items.
func batchSpurious(pre *lungo.Catalog, c *apiCall, reply string) (out []string) {
	cat, ok := rebuildCatalog(pre)
	if !ok {
		return nil
	}
	env, err := openAPIEnv(&fixedStore{cat: cat})
	if err != nil {
		return nil
	}
	defer env.engine.Close()
	h := lungo.Handle{c.DB, c.Coll}
	if c.M == "bulkWrite" {
		errs, ok := bulkErrors(reply)
		if !ok {
			return nil
		}
		for i := range c.Models {
			b := &c.Models[i]
			cls, failed := errs[i]
			if !failed {
				cls = "ok"
			}
			if b.T != "deleteOne" && b.T != "deleteMany" && cls == "dup" {
				if detail := spuriousDup(env.engine.Catalog().Namespaces[h], itemOfBulk(b)); detail != "" {
					out = append(out, fmt.Sprintf("item %d (%s): %s", i, b.T, detail))
				}
			}
			if failed && c.Ordered {
				break
			}
			it := &apiCall{M: b.T, DB: c.DB, Coll: c.Coll, Doc: b.Doc, Q: b.Q, U: b.U, Repl: b.Repl, Upsert: b.Upsert, Filters: b.Filters, HasFilters: b.HasFilters}
			r, _ := env.exec(it)
			if replyClass(r) != cls {
				break // the batch and the single calls part ways here (C02's batch oracle reports that)
			}
		}
		return out
	}
	// insertMany: only the class of the first failure is reported
	if !strings.Contains(reply, `"err":"dup"`) {
		return nil
	}
	for i, d := range c.Docs {
		would := collides(env.engine.Catalog().Namespaces[h], d)
		r, _ := env.exec(&apiCall{M: "insertOne", DB: c.DB, Coll: c.Coll, Doc: d})
		switch replyClass(r) {
		case "ok":
			continue
		case "dup":
			if !would {
				out = append(out, fmt.Sprintf("item %d: %s collides with nothing", i, vj.Enc(d)))
			}
			return out
		default:
			return out // the first failure is of another class when taken alone
		}
	}
	return append(out, "no item fails when the documents are inserted one at a time")
}
