package streams

import (
	"bytes"
	"encoding/hex"
	"encoding/json"
	"fmt"
	"math"
	"reflect"
	"strings"
	"unicode/utf8"

	"go.mongodb.org/mongo-driver/bson"
	"go.mongodb.org/mongo-driver/bson/primitive"

	"github.com/256dpi/lungo/bsonkit"

	"verifharness/internal/gen"
	"verifharness/internal/run"
	"verifharness/internal/vj"
)

// Stream "codec" (C06): generated documents; the model encoder must equal bson.Marshal byte
// for byte, the model decoder must equal bson.Unmarshal into bson.D (= bsonkit.Transform),
// also on mutated (mostly malformed) byte strings. Monitor: Transform is idempotent, i.e. a
// document as stored by lungo (a Transform output) survives a further Marshal/Unmarshal
// (what FileStore.Store/Load do) with identical types, field order and bytes.

var codecStrings = []string{"", "a", "ab", "a\x00b", "\x00", "é", "日本語", "😀", "a.b", "$x", "0", "10", "߿ࠀ￿", "\U00010000\U0010ffff", "\x7f"}
var codecKeys = []string{"a", "b", "c", "x", "", "_id", "é", "日本", "a.b", "$set", "0", "😀k"}

func codecSpecial(r *gen.R) interface{} {
	switch r.N(14) {
	case 0:
		return math.Float64frombits(r.U64()) // any bit pattern: NaN payloads, subnormals, extreme exponents
	case 1:
		return []float64{math.Copysign(0, -1), math.Inf(1), math.Inf(-1), math.Float64frombits(0x7ff0000000000001), math.Float64frombits(0xfff8000000000000),
			math.Float64frombits(0x7fffffffffffffff), 5e-324, math.MaxFloat64, -math.MaxFloat64, math.SmallestNonzeroFloat64, 2.2250738585072014e-308}[r.N(11)]
	case 2:
		return primitive.NewDecimal128(r.U64(), r.U64())
	case 3:
		return gen.Decs[r.N(len(gen.Decs))]
	case 4:
		return []int32{math.MinInt32, math.MaxInt32, 0, -1, 255, 256, 65536}[r.N(7)]
	case 5:
		return []int64{math.MinInt64, math.MaxInt64, 0, -1, 1 << 31, -(1 << 31) - 1, 1 << 32, 255}[r.N(8)]
	case 6:
		n := r.N(6)
		if r.P(20) {
			n = 250 + r.N(20)
		}
		data := make([]byte, n)
		for i := range data {
			data[i] = byte(r.U64())
		}
		if r.P(10) {
			data = nil
		}
		return primitive.Binary{Subtype: []byte{0, 1, 2, 2, 2, 3, 4, 5, 6, 128, 255}[r.N(11)], Data: data}
	case 7:
		return primitive.Timestamp{T: []uint32{0, 1, math.MaxUint32, 1 << 31}[r.N(4)], I: []uint32{0, 1, math.MaxUint32, 1 << 31}[r.N(4)]}
	case 8:
		return primitive.DateTime([]int64{math.MinInt64, math.MaxInt64, 0, -1, 1600000000000}[r.N(5)])
	case 9:
		return primitive.Regex{Pattern: []string{"", "a", "^a.*$", "é", "a/b"}[r.N(5)], Options: []string{"", "i", "im", "mi", "xsmi", "ii", "ézA"}[r.N(7)]}
	case 10:
		return codecStrings[r.N(len(codecStrings))]
	case 11:
		var o primitive.ObjectID
		for i := range o {
			o[i] = byte(r.U64())
		}
		return o
	case 12:
		if r.P(50) {
			return bson.A{}
		}
		return bson.D{}
	default:
		return nil
	}
}

func codecValue(r *gen.R, depth int) interface{} {
	switch {
	case depth > 0 && r.P(22):
		return codecDoc(r, depth-1, false)
	case depth > 0 && r.P(25):
		n := r.N(5)
		if r.P(6) {
			n = 9 + r.N(100) // keys "9","10","11",…,"100"
		}
		a := make(bson.A, 0, n)
		for i := 0; i < n; i++ {
			if n > 8 {
				a = append(a, r.Scalar())
			} else {
				a = append(a, codecValue(r, depth-1))
			}
		}
		return a
	case r.P(45):
		return codecSpecial(r)
	default:
		return r.Scalar()
	}
}

func codecDoc(r *gen.R, depth int, top bool) bson.D {
	n := r.N(5)
	if top {
		n = 1 + r.N(6)
	}
	d := make(bson.D, 0, n)
	for i := 0; i < n; i++ {
		k := codecKeys[r.N(len(codecKeys))]
		if r.P(4) { // duplicate keys are legal BSON and must survive
			if len(d) > 0 {
				k = d[r.N(len(d))].Key
			}
		}
		d = append(d, bson.E{Key: k, Value: codecValue(r, depth)})
	}
	return d
}

// unencodable injects a NUL into a key or a regex (bson.Marshal must refuse; so must the model).
func unencodable(r *gen.R, d bson.D) bson.D {
	if len(d) == 0 {
		return bson.D{{Key: "a\x00", Value: int32(1)}}
	}
	i := r.N(len(d))
	switch r.N(4) {
	case 0:
		d[i].Key = "k\x00y"
	case 1:
		d[i].Value = primitive.Regex{Pattern: "a\x00", Options: "i"}
	case 2:
		d[i].Value = primitive.Regex{Pattern: "a", Options: "\x00"}
	default:
		d[i].Value = bson.A{bson.D{{Key: "\x00", Value: nil}}}
	}
	return d
}

// supported reports whether v consists of lungo's standard types with valid UTF-8 text
// (everything the model value type can represent).
func supported(v interface{}) bool {
	switch x := v.(type) {
	case nil, int32, int64, float64, primitive.Decimal128, primitive.Binary, primitive.ObjectID, bool, primitive.DateTime, primitive.Timestamp:
		return true
	case string:
		return utf8.ValidString(x)
	case primitive.Regex:
		return utf8.ValidString(x.Pattern) && utf8.ValidString(x.Options)
	case bson.D:
		for _, e := range x {
			if !utf8.ValidString(e.Key) || !supported(e.Value) {
				return false
			}
		}
		return true
	case bson.A:
		for _, e := range x {
			if !supported(e) {
				return false
			}
		}
		return true
	}
	return false
}

func implEncode(d bson.D) (reply string, buf []byte) {
	defer func() {
		if p := recover(); p != nil {
			reply, buf = `{"panic":`+run.JS(fmt.Sprint(p))+`}`, nil
		}
	}()
	buf, err := bson.Marshal(d)
	if err != nil {
		return `{"err":"unencodable"}`, nil
	}
	return `{"ok":"` + hex.EncodeToString(buf) + `"}`, buf
}

// implDecode returns the canonical reply and whether it is comparable with the model.
func implDecode(buf []byte) (reply string, comparable bool, out bson.D) {
	defer func() {
		if p := recover(); p != nil {
			reply, comparable, out = `{"panic":`+run.JS(fmt.Sprint(p))+`}`, true, nil
		}
	}()
	var d bson.D
	if err := bson.Unmarshal(buf, &d); err != nil {
		return `{"err":"malformed"}`, true, nil
	}
	if !supported(d) {
		return "", false, d
	}
	return `{"ok":` + vj.Enc(d) + `}`, true, d
}

// jsonAccept compares replies as JSON values (Go and Lean escape strings differently).
func jsonAccept(impl string) func(string) bool {
	return func(modelReply string) bool {
		if modelReply == impl {
			return true
		}
		var a, b interface{}
		da := json.NewDecoder(strings.NewReader(impl))
		da.UseNumber()
		db := json.NewDecoder(strings.NewReader(modelReply))
		db.UseNumber()
		if da.Decode(&a) != nil || db.Decode(&b) != nil {
			return false
		}
		return reflect.DeepEqual(a, b)
	}
}

func mutateBytes(r *gen.R, b []byte) []byte {
	c := append([]byte{}, b...)
	if len(c) == 0 {
		return c
	}
	switch r.N(7) {
	case 0: // truncate
		return c[:r.N(len(c))]
	case 1: // append garbage
		return append(c, byte(r.U64()))
	case 2: // small change of some byte (lengths, type bytes, terminators)
		i := r.N(len(c))
		c[i] += byte(1 + r.N(3))
	case 3:
		i := r.N(len(c))
		c[i] -= byte(1 + r.N(3))
	case 4: // zero a byte
		c[r.N(len(c))] = 0
	case 5: // delete a byte, fix the outer length
		i := 4 + r.N(len(c)-4)
		c = append(c[:i], c[i+1:]...)
		n := len(c)
		c[0], c[1], c[2], c[3] = byte(n), byte(n>>8), byte(n>>16), byte(n>>24)
	default: // random byte
		c[r.N(len(c))] = byte(r.U64())
	}
	return c
}

func valueTags(v interface{}, depth int, tags map[string]bool) {
	switch x := v.(type) {
	case bson.D:
		if depth > 0 {
			tags["nested_doc"] = true
		}
		if len(x) == 0 {
			tags["empty_doc"] = true
		}
		seen := map[string]bool{}
		for _, e := range x {
			if seen[e.Key] {
				tags["duplicate_key"] = true
			}
			seen[e.Key] = true
			valueTags(e.Value, depth+1, tags)
		}
	case bson.A:
		tags["array"] = true
		if len(x) == 0 {
			tags["empty_array"] = true
		}
		if len(x) > 10 {
			tags["array_gt10"] = true
		}
		for _, e := range x {
			if _, ok := e.(bson.A); ok {
				tags["array_in_array"] = true
			}
			valueTags(e, depth+1, tags)
		}
	case float64:
		switch {
		case math.IsNaN(x):
			tags["f64_nan"] = true
			if b := math.Float64bits(x); b != 0x7ff8000000000001 && b != 0x7ff8000000000000 {
				tags["f64_nan_payload"] = true
			}
		case math.IsInf(x, 0):
			tags["f64_inf"] = true
		case x == 0 && math.Signbit(x):
			tags["f64_negzero"] = true
		case x != 0 && math.Abs(x) < 2.2250738585072014e-308:
			tags["f64_subnormal"] = true
		default:
			tags["f64"] = true
		}
	case primitive.Decimal128:
		tags["dec"] = true
	case primitive.Binary:
		tags[fmt.Sprintf("bin_sub%d", x.Subtype)] = true
		if x.Subtype == 2 && len(x.Data) == 0 {
			tags["bin_sub2_empty"] = true
		}
	case primitive.Regex:
		tags["regex"] = true
	case primitive.Timestamp:
		tags["timestamp"] = true
	case primitive.DateTime:
		tags["datetime"] = true
	case primitive.ObjectID:
		tags["oid"] = true
	case int32:
		tags["i32"] = true
	case int64:
		tags["i64"] = true
	case string:
		tags["string"] = true
		if strings.IndexByte(x, 0) >= 0 {
			tags["string_with_nul"] = true
		}
	case nil:
		tags["null"] = true
	case bool:
		tags["bool"] = true
	}
}

// firstDiff names the class of the first difference between two values (monitor witness).
func firstDiff(a, b interface{}) string {
	ta, tb := typeTag(a), typeTag(b)
	if ta != tb {
		return ta + "->" + tb
	}
	switch x := a.(type) {
	case bson.D:
		y := b.(bson.D)
		if len(x) != len(y) {
			return "doc-length"
		}
		for i := range x {
			if x[i].Key != y[i].Key {
				return "key"
			}
			if d := firstDiff(x[i].Value, y[i].Value); d != "" {
				return d
			}
		}
		return ""
	case bson.A:
		y := b.(bson.A)
		if len(x) != len(y) {
			return "array-length"
		}
		for i := range x {
			if d := firstDiff(x[i], y[i]); d != "" {
				return d
			}
		}
		return ""
	case primitive.Binary:
		y := b.(primitive.Binary)
		if x.Subtype != y.Subtype || !bytes.Equal(x.Data, y.Data) {
			if x.Subtype == 2 && len(x.Data) == 0 {
				return "bin-subtype2-empty"
			}
			return "bin"
		}
		return ""
	case primitive.Regex:
		y := b.(primitive.Regex)
		if x.Pattern != y.Pattern {
			return "regex-pattern"
		}
		if x.Options != y.Options {
			return "regex-options-order"
		}
		return ""
	}
	if vj.Enc(a) != vj.Enc(b) {
		return ta
	}
	return ""
}

func init() {
	run.Register(&run.Stream{
		Name: "codec",
		Rule: "documents of depth <= 4 over all supported types (raw-bit doubles/decimals, binary subtypes incl. 2, unsorted regex options, duplicate and non-ASCII keys, " +
			"arrays with > 10 elements, NUL inside strings, 3% unencodable NUL keys/regexes); per document: encode vs bson.Marshal (bytes), decode vs bson.Unmarshal->bson.D, " +
			"and one mutated byte string; non-trivial = distinct case whose document has a nested container or a non-finite/negative-zero/subnormal double, decimal, binary, regex or timestamp, " +
			"or a mutated input",
		Corpus: func() []run.Case {
			var cs []run.Case
			for _, d := range []bson.D{
				{},
				{{Key: "b", Value: primitive.Binary{Subtype: 2, Data: []byte{}}}},
				{{Key: "b", Value: primitive.Binary{Subtype: 2, Data: []byte{1, 2}}}},
				{{Key: "r", Value: primitive.Regex{Pattern: "a", Options: "xi"}}},
				{{Key: "n", Value: math.Float64frombits(0x7ff8000000000001)}, {Key: "z", Value: math.Copysign(0, -1)}},
				{{Key: "a", Value: bson.A{bson.A{}, bson.A{bson.A{}}, bson.D{}}}},
			} {
				reply, buf := implEncode(d)
				cs = append(cs, run.Case{Req: `{"op":"encode","d":` + vj.Enc(d) + `}`, Impl: reply, Nontrivial: true, Tags: []string{"corpus"}})
				dr, _, _ := implDecode(buf)
				cs = append(cs, run.Case{Req: `{"op":"decode","hex":"` + hex.EncodeToString(buf) + `"}`, Impl: dr, Nontrivial: true, Tags: []string{"corpus"}, Accept: jsonAccept(dr)})
			}
			return cs
		},
		Gen: func(r *gen.R, idx int) []run.Case {
			doc := codecDoc(r, 1+r.N(4), true)
			bad := r.P(3)
			if bad {
				doc = unencodable(r, doc)
			}
			tagset := map[string]bool{}
			valueTags(doc, 0, tagset)
			nontrivial := false
			var tags []string
			for t := range tagset {
				tags = append(tags, t)
				switch t {
				case "nested_doc", "array", "f64_nan", "f64_inf", "f64_negzero", "f64_subnormal", "dec", "regex", "timestamp":
					nontrivial = true
				}
				if strings.HasPrefix(t, "bin_") {
					nontrivial = true
				}
			}
			if bad {
				tags = append(tags, "unencodable")
			}
			var cases []run.Case

			// 1. encode
			encReply, buf := implEncode(doc)
			cases = append(cases, run.Case{Req: `{"op":"encode","d":` + vj.Enc(doc) + `}`, Impl: encReply, Nontrivial: nontrivial, Tags: tags})
			if buf == nil {
				if !bad {
					cases[0].Viols = append(cases[0].Viols, run.Violation{Property: "C06", What: "bson.Marshal refused a supported document", Witness: "marshal-refused", Req: vj.Enc(doc)})
				}
				return cases
			}

			// 2. decode of the real bytes
			decReply, cmpOK, d1 := implDecode(buf)
			c2 := run.Case{Impl: decReply, Nontrivial: nontrivial, Tags: []string{"decode"}, Accept: jsonAccept(decReply)}
			if cmpOK {
				c2.Req = `{"op":"decode","hex":"` + hex.EncodeToString(buf) + `"}`
			}
			// monitor: Transform is idempotent (stored documents are Transform outputs; reload is one more Transform)
			var viols []run.Violation
			if d1 != nil {
				if nd := firstDiff(doc, d1); nd != "" {
					c2.Tags = append(c2.Tags, "normalised:"+nd)
				}
				t1, err1 := bsonkit.Transform(d1)
				switch {
				case err1 != nil:
					viols = append(viols, run.Violation{Property: "C06", What: "a Transform output cannot be transformed again", Witness: "retransform-error", Req: vj.Enc(doc)})
				default:
					if nd := firstDiff(d1, *t1); nd != "" {
						viols = append(viols, run.Violation{Property: "C06", What: "Unmarshal∘Marshal is not the identity on a stored document", Witness: "transform-not-idempotent:" + nd, Req: vj.Enc(doc)})
					}
					b2, err2 := bson.Marshal(*t1)
					b1, err3 := bson.Marshal(d1)
					if err2 != nil || err3 != nil || !bytes.Equal(b1, b2) {
						viols = append(viols, run.Violation{Property: "C06", What: "bytes change under a second Marshal/Unmarshal", Witness: "bytes-not-stable", Req: vj.Enc(doc)})
					}
				}
			} else {
				viols = append(viols, run.Violation{Property: "C06", What: "bson.Unmarshal rejects bson.Marshal output", Witness: "unmarshal-own-output", Req: vj.Enc(doc)})
			}
			c2.Viols = viols
			cases = append(cases, c2)

			// 3. decode of a mutated byte string
			mb := mutateBytes(r, buf)
			mReply, mOK, _ := implDecode(mb)
			c3 := run.Case{Impl: mReply, Nontrivial: true, Tags: []string{"mutated"}, Accept: jsonAccept(mReply)}
			if mOK {
				c3.Req = `{"op":"decode","hex":"` + hex.EncodeToString(mb) + `"}`
				if strings.HasPrefix(mReply, `{"ok"`) {
					c3.Tags = append(c3.Tags, "mutated_accepted")
				} else {
					c3.Tags = append(c3.Tags, "mutated_rejected")
				}
			} else {
				c3.Tags = append(c3.Tags, "mutated_unsupported_skipped")
			}
			cases = append(cases, c3)
			return cases
		},
	})
}
