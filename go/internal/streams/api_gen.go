package streams

import (
	"math"
	"sort"

	"go.mongodb.org/mongo-driver/bson"
	"go.mongodb.org/mongo-driver/bson/primitive"

	"github.com/256dpi/lungo"
	"github.com/256dpi/lungo/bsonkit"

	"verifharness/internal/gen"
)

// Generators of the "api" stream: a history is derived from one 64-bit key alone; the
// arguments of later calls are biased by the committed catalog (existing `_id`s, field values,
// index names), read in a deterministic order.

var apiDBs = []string{"d1", "d2"}
var apiColls = []string{"c", "e"}
var apiIdxFields = []string{"a", "b", "c", "x", "a.b"}

// TTL date offsets (ms) relative to the history's clock: at least 30 min away from every
// cutoff (now, now−1 s, now−3600 s).
var apiDateOffsets = []int64{-10 * 3600e3, -3 * 3600e3, -2 * 3600e3, -1800e3, 2 * 3600e3, 24 * 3600e3}

type apiGen struct {
	r         *gen.R
	env       *apiEnv
	malformed bool
	profile   string // "", "uniq" (collision-rich values, unique indexes first), "ttl" (dates, TTL index first), "idx" (index scenarios, api_gen_idx.go)
	idx       *idxScen
	step      int
	bigTTL    int32 // profile ttl: the large expireAfterSeconds of this history (0 = none); dates cluster around now − bigTTL
	nowMs     int64
	dbs       []string
	colls     []string
}

func newAPIGen(r *gen.R, env *apiEnv, nowMs int64) *apiGen {
	g := &apiGen{r: r, env: env, nowMs: nowMs, malformed: r.P(10)}
	if !g.malformed {
		switch k := r.N(100); {
		case k < 18:
			g.profile = "uniq"
		case k < 28:
			g.profile = "ttl"
			if r.P(45) {
				g.bigTTL = apiBigTTLs[r.N(len(apiBigTTLs))]
			}
		case k < 50:
			g.profile = "idx"
		case k < 57:
			g.profile = "names"
		case k < 63:
			g.profile = "nested"
		}
	}
	g.dbs = []string{apiDBs[r.N(2)]}
	if r.P(35) && (g.profile == "" || r.P(30)) {
		g.dbs = []string{"d1", "d2"}
	}
	g.colls = []string{apiColls[r.N(2)]}
	if r.P(50) && (g.profile == "" || r.P(30)) {
		g.colls = []string{"c", "e"}
	}
	if g.profile == "idx" {
		g.initIdx()
	}
	if g.profile == "names" {
		// names of which one is a string prefix of another, in both components of the handle
		g.dbs = []string{"d1", "d10"}
		all := []string{"c", "c2", "c_archive", "c.x", "c.x.y"}
		g.colls = []string{"c"}
		for _, n := range all[1:] {
			if r.P(60) {
				g.colls = append(g.colls, n)
			}
		}
		if len(g.colls) == 1 {
			g.colls = append(g.colls, all[1+r.N(4)])
		}
	}
	return g
}

func (g *apiGen) handle() (string, string) {
	r := g.r
	db := g.dbs[r.N(len(g.dbs))]
	coll := g.colls[r.N(len(g.colls))]
	if g.malformed && r.P(12) {
		switch r.N(4) {
		case 0:
			db = "local"
		case 1:
			coll = ""
		case 2:
			db = "a.b"
		default:
			db = ""
		}
	}
	return db, coll
}

func (g *apiGen) docs(db, coll string) bsonkit.List {
	ns := g.env.engine.Catalog().Namespaces[lungo.Handle{db, coll}]
	if ns == nil {
		return nil
	}
	return ns.Documents.List
}

// apiBigTTLs: lifetimes whose milliseconds / nanoseconds do not fit 32 bits (2147483 s is the last
// one whose milliseconds fit int32; 30 and 60 days; 2^29, 2^30, MaxInt32 seconds).
var apiBigTTLs = []int32{2147483, 2147484, 2592000, 5184000, 4294968, 1 << 29, 1 << 30, 2147483647}

// apiOldDates: pre-epoch dates (1969, 1900, Go's zero time): expired under every lifetime up to 56 years.
var apiOldDates = []int64{-86400e3, -1, -2208988800000, -62135596800000}

func (g *apiGen) date() interface{} {
	if g.bigTTL > 0 && g.r.P(55) {
		// around now − bigTTL: ± 30 min, ± 2 h, ± 1 day
		off := []int64{-86400e3, -7200e3, -1800e3, 1800e3, 7200e3, 86400e3}[g.r.N(6)]
		return primitive.DateTime(g.nowMs - int64(g.bigTTL)*1000 + off)
	}
	if g.profile == "ttl" && g.r.P(8) {
		return primitive.DateTime(apiOldDates[g.r.N(len(apiOldDates))])
	}
	return primitive.DateTime(g.nowMs + apiDateOffsets[g.r.N(len(apiDateOffsets))])
}

// value returns a field value from the small colliding pool, sometimes a TTL date.
func (g *apiGen) value() interface{} {
	r := g.r
	switch g.profile {
	case "uniq":
		switch k := r.N(100); {
		case k < 45:
			return int32(r.N(4))
		case k < 55:
			return r.SmallNumber()
		case k < 75:
			a := bson.A{}
			for i := 0; i < r.N(4); i++ {
				a = append(a, int32(r.N(4)))
			}
			return a
		case k < 82:
			return nil
		case k < 92:
			return bson.D{{Key: "b", Value: int32(r.N(3))}}
		default:
			return gen.Strings[1+r.N(2)]
		}
	case "ttl":
		switch k := r.N(100); {
		case k < 45:
			return g.date()
		case k < 56:
			return bson.A{r.SmallNumber(), g.date(), g.date()}
		case k < 60:
			// only pre-epoch dates: must expire
			return bson.A{primitive.DateTime(apiOldDates[r.N(len(apiOldDates))]), primitive.DateTime(apiOldDates[r.N(len(apiOldDates))])}
		case k < 65:
			return bson.A{bson.D{{Key: "b", Value: g.date()}}, bson.D{{Key: "b", Value: int32(1)}}}
		case k < 70:
			return bson.D{{Key: "b", Value: g.date()}}
		case k < 75:
			return int64(g.nowMs - 10*3600e3) // a number that looks like an old date
		}
	}
	switch {
	case r.P(12):
		return g.date()
	case r.P(4):
		return bson.A{g.date(), r.SmallNumber()}
	case r.P(14):
		// arrays sharing elements (multikey collisions on a later element)
		a := bson.A{}
		for i := 0; i < r.N(4); i++ {
			a = append(a, r.SmallNumber())
		}
		return a
	case r.P(5):
		return bson.A{bson.D{{Key: "b", Value: r.SmallNumber()}}, bson.D{{Key: "b", Value: r.SmallNumber()}}}
	case r.P(45):
		return r.SmallNumber()
	case r.P(20):
		return gen.Strings[r.N(4)]
	default:
		return r.Value(2, false)
	}
}

// doc returns a document for insertion: ~85 % carry an explicit `_id` from the colliding pool.
func (g *apiGen) doc(db, coll string) bson.D {
	r := g.r
	d := bson.D{}
	if r.P(85) {
		d = append(d, bson.E{Key: "_id", Value: g.id(db, coll, 25)})
	}
	if r.P(30) && g.profile == "" {
		d = append(d, r.Doc(2, false, false)...)
		return d
	}
	var keys []string
	if g.profile == "uniq" && r.P(85) {
		// the indexed fields are (almost) always present: a missing field collides with every other missing one
		keys = [][]string{{"a", "b"}, {"b", "a"}, {"a", "b", "c"}, {"a"}, {"b"}}[r.N(5)]
	} else {
		n := r.N(4)
		used := map[string]bool{}
		for i := 0; i < n; i++ {
			k := gen.Keys[r.N(len(gen.Keys))]
			if !used[k] {
				used[k] = true
				keys = append(keys, k)
			}
		}
	}
	for _, k := range keys {
		var v interface{} = g.value()
		if k == "a" && r.P(20) {
			v = bson.D{{Key: "b", Value: g.value()}}
		}
		d = append(d, bson.E{Key: k, Value: v})
	}
	if g.malformed && r.P(10) {
		d = append(d, bson.E{Key: []string{"", "$x", "a.b", "0"}[r.N(4)], Value: int32(1)})
	}
	return d
}

// id returns an `_id`: with probability pctExisting the one of a stored document.
func (g *apiGen) id(db, coll string, pctExisting int) interface{} {
	r := g.r
	docs := g.docs(db, coll)
	if len(docs) > 0 && r.P(pctExisting) {
		return bsonkit.Get(docs[r.N(len(docs))], "_id")
	}
	if r.P(8) {
		// container- and binary-valued ids (sameValue / immutability paths)
		return []interface{}{bson.D{}, bson.D{{Key: "k", Value: int32(r.N(2))}}, primitive.Binary{Subtype: 0, Data: []byte{byte(r.N(2))}},
			bson.D{{Key: "k", Value: bson.A{int32(1)}}}}[r.N(4)]
	}
	return r.ID()
}

func (g *apiGen) filter(db, coll string) bson.D {
	r := g.r
	docs := g.docs(db, coll)
	switch k := r.N(100); {
	case k < 12:
		return bson.D{}
	case k < 40:
		return bson.D{{Key: "_id", Value: g.id(db, coll, 75)}}
	case k < 70 && len(docs) > 0:
		d := *docs[r.N(len(docs))]
		e := d[r.N(len(d))]
		key := e.Key
		val := e.Value
		if sd, ok := val.(bson.D); ok && len(sd) > 0 && r.P(50) {
			key += "." + sd[0].Key
			val = sd[0].Value
		}
		switch r.N(8) {
		case 0:
			return bson.D{{Key: key, Value: bson.D{{Key: "$gte", Value: val}}}}
		case 1:
			return bson.D{{Key: key, Value: bson.D{{Key: "$ne", Value: val}}}}
		case 2:
			return bson.D{{Key: key, Value: bson.D{{Key: "$in", Value: bson.A{val}}}}}
		case 3:
			return bson.D{{Key: "$and", Value: bson.A{bson.D{{Key: key, Value: val}}, bson.D{{Key: "_id", Value: g.id(db, coll, 50)}}}}}
		case 4:
			return bson.D{{Key: key, Value: bson.D{{Key: "$eq", Value: val}}}, {Key: "x", Value: r.SmallNumber()}}
		default:
			if _, isRe := val.(primitive.Regex); isRe {
				return bson.D{{Key: key, Value: bson.D{{Key: "$exists", Value: true}}}}
			}
			return bson.D{{Key: key, Value: val}}
		}
	case k < 80:
		return bson.D{{Key: gen.Keys[r.N(len(gen.Keys))], Value: r.SmallNumber()}}
	default:
		return Filter(r, 1+r.N(2), g.malformed)
	}
}

func stripCurrentDate(u bson.D) bson.D {
	out := make(bson.D, 0, len(u))
	for _, e := range u {
		if e.Key == "$currentDate" {
			continue // the clock is not part of the sequential model's inputs
		}
		out = append(out, e)
	}
	return out
}

func (g *apiGen) update(db, coll string) bson.D {
	r := g.r
	k := gen.Keys[r.N(len(gen.Keys))]
	if g.malformed && r.P(25) {
		switch r.N(3) {
		case 0:
			return bson.D{{Key: k, Value: r.SmallNumber()}} // no operators
		case 1:
			return bson.D{}
		default:
			return bson.D{{Key: "$set", Value: bson.D{{Key: k, Value: int32(1)}}}, {Key: k, Value: int32(2)}}
		}
	}
	docs := g.docs(db, coll)
	switch n := r.N(100); {
	case n < 22:
		var v interface{} = g.value()
		if len(docs) > 0 && r.P(50) {
			if x := bsonkit.Get(docs[r.N(len(docs))], k); x != bsonkit.Missing {
				v = x
			}
		}
		return bson.D{{Key: "$set", Value: bson.D{{Key: k, Value: v}}}}
	case n < 28:
		return bson.D{{Key: "$inc", Value: bson.D{{Key: k, Value: r.SmallNumber()}}}}
	case n < 32:
		// identity updates through operators that always record a change ($inc 0, $mul 1 of the stored type, $push of nothing):
		// the result is identical, so zero documents are modified and no event is logged
		var typed0, typed1 interface{} = int32(0), int32(1)
		if len(docs) > 0 {
			switch bsonkit.Get(docs[r.N(len(docs))], k).(type) {
			case int64:
				typed0, typed1 = int64(0), int64(1)
			case float64:
				typed0, typed1 = float64(0), float64(1)
			}
		}
		switch r.N(4) {
		case 0:
			return bson.D{{Key: "$inc", Value: bson.D{{Key: k, Value: typed0}}}}
		case 1:
			return bson.D{{Key: "$mul", Value: bson.D{{Key: k, Value: typed1}}}}
		case 2:
			return bson.D{{Key: "$push", Value: bson.D{{Key: k, Value: bson.D{{Key: "$each", Value: bson.A{}}, {Key: "$slice", Value: int32(50)}}}}}}
		default:
			return bson.D{{Key: "$inc", Value: bson.D{{Key: k, Value: typed0}}}, {Key: "$max", Value: bson.D{{Key: "zz", Value: nil}}}}
		}
	case n < 40:
		return bson.D{{Key: "$unset", Value: bson.D{{Key: k, Value: ""}}}}
	case n < 43:
		return bson.D{{Key: "$set", Value: bson.D{{Key: "_id", Value: g.id(db, coll, 50)}}}}
	case n < 45:
		// removing or moving the _id must be rejected whatever its value (an empty document serializes like Missing)
		if r.P(50) {
			return bson.D{{Key: "$unset", Value: bson.D{{Key: "_id", Value: ""}}}}
		}
		return bson.D{{Key: "$rename", Value: bson.D{{Key: "_id", Value: k}}}}
	case n < 50:
		return bson.D{{Key: "$set", Value: bson.D{{Key: "a.b", Value: g.value()}}}}
	case n < 55:
		return bson.D{{Key: "$push", Value: bson.D{{Key: k, Value: g.value()}}}}
	case n < 60:
		return bson.D{{Key: "$setOnInsert", Value: bson.D{{Key: k, Value: g.value()}}}, {Key: "$inc", Value: bson.D{{Key: "x", Value: int32(1)}}}}
	default:
		u := stripCurrentDate(Update(r, g.malformed))
		if len(u) == 0 {
			return bson.D{{Key: "$set", Value: bson.D{{Key: k, Value: g.value()}}}}
		}
		return u
	}
}

// arrayResize (C08, updateDescription): with some probability the update becomes a $push with $each
// and a $slice that trims only pushed values (len(old) ≤ slice < len(old)+len(each)), with or without
// $position, a negative $slice, a $pop or a $pull on an EXISTING array field of a stored document,
// and the filter selects that document.
func (g *apiGen) arrayResize(c *apiCall, db, coll string) {
	r := g.r
	docs := g.docs(db, coll)
	type cand struct {
		d   bsonkit.Doc
		f   string
		arr bson.A
	}
	var cands []cand
	for _, d := range docs {
		for _, e := range *d {
			if a, ok := e.Value.(bson.A); ok && e.Key != "_id" {
				cands = append(cands, cand{d, e.Key, a})
			}
		}
	}
	if len(cands) == 0 || !r.P(22) {
		return
	}
	x := cands[r.N(len(cands))]
	n := len(x.arr)
	each := bson.A{}
	for i := 1 + r.N(3); i > 0; i-- {
		each = append(each, g.value())
	}
	c.Q = bson.D{{Key: "_id", Value: idxCopy(bsonkit.Get(x.d, "_id"))}}
	if r.P(25) {
		c.Q = bson.D{{Key: x.f, Value: bson.D{{Key: "$exists", Value: true}}}}
	}
	c.Filters, c.HasFilters, c.Upsert = nil, false, false
	push := func(mods ...bson.E) bson.D {
		return bson.D{{Key: "$push", Value: bson.D{{Key: x.f, Value: append(bson.D{{Key: "$each", Value: each}}, mods...)}}}}
	}
	switch k := r.N(100); {
	case k < 30:
		// trims pushed values only
		c.U = push(bson.E{Key: "$slice", Value: int32(n + r.N(len(each)))})
	case k < 50:
		c.U = push(bson.E{Key: "$position", Value: int32(r.N(n + 1))}, bson.E{Key: "$slice", Value: int32(n + r.N(len(each)))})
	case k < 58:
		c.U = push(bson.E{Key: "$slice", Value: int32(r.N(n + len(each) + 2))})
	case k < 70:
		c.U = push(bson.E{Key: "$slice", Value: int32(-(1 + r.N(n+len(each)+1)))})
	case k < 76:
		c.U = push(bson.E{Key: "$position", Value: int32(-r.N(n + 1))}, bson.E{Key: "$slice", Value: int32(-(1 + r.N(n+len(each))))})
	case k < 86:
		c.U = bson.D{{Key: "$pop", Value: bson.D{{Key: x.f, Value: int32(1 - 2*r.N(2))}}}}
	default:
		if n > 0 {
			c.U = bson.D{{Key: "$pull", Value: bson.D{{Key: x.f, Value: idxCopy(x.arr[r.N(n)])}}}}
			if _, isDoc := x.arr[0].(bson.D); isDoc && r.P(50) {
				c.U = bson.D{{Key: "$pull", Value: bson.D{{Key: x.f, Value: bson.D{}}}}}
			}
		} else {
			c.U = push(bson.E{Key: "$slice", Value: int32(1)})
		}
	}
	if r.P(15) {
		c.U = append(c.U, bson.E{Key: "$set", Value: bson.D{{Key: "zz", Value: int32(r.N(3))}}})
	}
}

// nestedNext (profile "nested"): documents with an array of arrays m: [[1,2],[3]] and a string s;
// operators with indexed paths into the inner arrays, alone and FOLLOWED by an operator that fails
// ($inc on the string): a failed update leaves the document unchanged, a successful one modifies
// exactly one document and returns the pre- or post-image it was asked for.
func (g *apiGen) nestedNext(c *apiCall, db, coll string) *apiCall {
	r := g.r
	docs := g.docs(db, coll)
	var have bsonkit.List
	for _, d := range docs {
		if _, ok := bsonkit.Get(d, "m").(bson.A); ok {
			have = append(have, d)
		}
	}
	if len(have) < 2 || r.P(15) {
		c.M = "insertOne"
		inner := func() bson.A {
			a := bson.A{}
			for i := 1 + r.N(3); i > 0; i-- {
				a = append(a, []interface{}{int32(r.N(4)), int64(r.N(4)), float64(r.N(3)), "t"}[r.N(4)])
			}
			return a
		}
		m := bson.A{inner(), inner()}
		if r.P(30) {
			m = append(m, bson.A{inner()}, int32(5))
		}
		c.Doc = bson.D{{Key: "_id", Value: g.id(db, coll, 5)}, {Key: "m", Value: m}, {Key: "s", Value: "str"}, {Key: "n", Value: int32(r.N(3))}}
		return c
	}
	if !r.P(70) {
		return nil
	}
	d := have[r.N(len(have))]
	path := "m." + []string{"0", "1", "2", "5"}[r.N(4)] + "." + []string{"0", "1", "2", "7"}[r.N(4)]
	if r.P(12) {
		path += ".0"
	}
	var ok bson.D
	switch r.N(6) {
	case 0, 1:
		ok = bson.D{{Key: "$set", Value: bson.D{{Key: path, Value: g.value()}}}}
	case 2, 3:
		ok = bson.D{{Key: "$inc", Value: bson.D{{Key: path, Value: int32(1 + r.N(2))}}}}
	case 4:
		ok = bson.D{{Key: "$unset", Value: bson.D{{Key: path, Value: ""}}}}
	default:
		ok = bson.D{{Key: "$mul", Value: bson.D{{Key: path, Value: int32(2)}}}, {Key: "$push", Value: bson.D{{Key: "m.0", Value: int32(9)}}}}
	}
	if r.P(40) {
		// a second operator that fails after the first one has been applied to the copy
		bad := []bson.E{
			{Key: "$inc", Value: bson.D{{Key: "s", Value: int32(1)}}},
			{Key: "$push", Value: bson.D{{Key: "n", Value: int32(1)}}},
			{Key: "$mul", Value: bson.D{{Key: "s", Value: int32(2)}}},
			{Key: "$pop", Value: bson.D{{Key: "s", Value: int32(1)}}},
		}[r.N(4)]
		if bad.Key == ok[0].Key {
			merged := append(append(bson.D{}, ok[0].Value.(bson.D)...), bad.Value.(bson.D)...)
			ok[0].Value = merged
		} else {
			ok = append(ok, bad)
		}
	}
	c.U = ok
	c.Q = bson.D{{Key: "_id", Value: idxCopy(bsonkit.Get(d, "_id"))}}
	switch r.N(4) {
	case 0:
		c.M = "updateOne"
	case 1:
		c.M, c.Q = "updateMany", bson.D{{Key: "s", Value: "str"}}
	default:
		c.M, c.After = "findOneAndUpdate", r.P(50)
		if r.P(30) {
			c.Proj, c.HasProj = bson.D{{Key: "m", Value: int32(1)}}, true
		}
	}
	return c
}

func (g *apiGen) arrayFilters() ([]bson.D, bool) {
	r := g.r
	if !r.P(15) {
		return nil, false
	}
	var out []bson.D
	for _, d := range arrayFilters(r, g.malformed) {
		out = append(out, *d)
	}
	if out == nil {
		out = []bson.D{}
	}
	return out, true
}

func (g *apiGen) replacement(db, coll string) bson.D {
	r := g.r
	if g.malformed && r.P(25) {
		return bson.D{{Key: "$set", Value: bson.D{{Key: "a", Value: int32(1)}}}}
	}
	d := bson.D{}
	if r.P(30) {
		d = append(d, bson.E{Key: "_id", Value: g.id(db, coll, 60)})
	}
	n := r.N(3)
	used := map[string]bool{}
	for i := 0; i < n; i++ {
		k := gen.Keys[r.N(len(gen.Keys))]
		if used[k] {
			continue
		}
		used[k] = true
		d = append(d, bson.E{Key: k, Value: g.value()})
	}
	docs := g.docs(db, coll)
	if len(docs) > 0 && r.P(15) {
		// an existing document: no-op replacement or duplicate
		return *bsonkit.Clone(docs[r.N(len(docs))])
	}
	return d
}

func (g *apiGen) sortSpec() (bson.D, bool) {
	r := g.r
	if !r.P(50) {
		return nil, false
	}
	if r.P(10) {
		return bson.D{}, true
	}
	if r.P(50) {
		k := append([]string{"_id"}, gen.Keys...)[r.N(1+len(gen.Keys))]
		s := bson.D{{Key: k, Value: int32(1 - 2*r.N(2))}}
		if r.P(30) {
			s = append(s, bson.E{Key: "_id", Value: int32(1 - 2*r.N(2))})
			if k == "_id" {
				s = s[:1]
			}
		}
		return s, true
	}
	return sortSpec(r, g.malformed), true
}

// sortSpecFor: a third of the sorted calls on a collection with secondary indexes sort by the key of
// one of them (C13: the order is "stable sort of the matching documents" whatever indexes exist).
func (g *apiGen) sortSpecFor(db, coll string) (bson.D, bool) {
	if sec := g.secondaryIndexNames(db, coll); len(sec) > 0 && g.r.P(35) {
		ns := g.env.engine.Catalog().Namespaces[lungo.Handle{db, coll}]
		key := *ns.Indexes[sec[g.r.N(len(sec))]].Config().Key
		if g.r.P(20) {
			for i := range key {
				if d, ok := key[i].Value.(int32); ok {
					key[i].Value = -d
				}
			}
		}
		return key, true
	}
	return g.sortSpec()
}

func (g *apiGen) projection(db, coll string) (bson.D, bool) {
	r := g.r
	if !r.P(30) {
		return nil, false
	}
	var sample bson.D
	if docs := g.docs(db, coll); len(docs) > 0 {
		sample = *docs[r.N(len(docs))]
	} else {
		sample = r.Doc(2, false, true)
	}
	p := Projection(r, sample, g.malformed)
	if p == nil {
		p = bson.D{}
	}
	return p, true
}

// lateFailingProjection fails only when field f of the projected document is a non-empty array.
func lateFailingProjection(f string) bson.D {
	return bson.D{{Key: f, Value: bson.D{{Key: "$elemMatch", Value: bson.D{{Key: "$bogus", Value: int32(1)}}}}}}
}

func (g *apiGen) window(c *apiCall) {
	r := g.r
	if r.P(50) {
		c.HasSkip = true
		c.Skip = int64(r.N(3))
		if g.malformed && r.P(30) {
			c.Skip = -int64(1 + r.N(3))
		}
	}
	if r.P(50) {
		c.HasLimit = true
		c.Limit = int64(r.N(4))
		if g.malformed && r.P(30) {
			c.Limit = -int64(1 + r.N(3))
		}
	}
}

func (g *apiGen) indexNames(db, coll string) []string {
	ns := g.env.engine.Catalog().Namespaces[lungo.Handle{db, coll}]
	if ns == nil {
		return nil
	}
	var names []string
	for n := range ns.Indexes {
		names = append(names, n)
	}
	sort.Strings(names)
	return names
}

// retargetToIndexed points the call at a namespace that has a secondary index (if there is one).
func (g *apiGen) retargetToIndexed(c *apiCall) bool {
	cat := g.env.engine.Catalog()
	var hs []lungo.Handle
	for _, h := range sortedHandles(cat) {
		if h != lungo.Oplog && len(cat.Namespaces[h].Indexes) > 1 {
			hs = append(hs, h)
		}
	}
	if len(hs) == 0 {
		return false
	}
	h := hs[g.r.N(len(hs))]
	c.DB, c.Coll = h[0], h[1]
	return true
}

func (g *apiGen) secondaryIndexNames(db, coll string) []string {
	var out []string
	for _, n := range g.indexNames(db, coll) {
		if n != "_id_" {
			out = append(out, n)
		}
	}
	return out
}

func (g *apiGen) indexKeys() bson.D {
	r := g.r
	dir := func() interface{} {
		if g.malformed && r.P(15) {
			return []interface{}{int32(0), "x", int32(2), nil}[r.N(4)]
		}
		return int32(1 - 2*r.N(2))
	}
	if r.P(4) {
		return bson.D{{Key: "_id", Value: int32(1)}}
	}
	if g.malformed && r.P(5) {
		return bson.D{}
	}
	if g.malformed && r.P(8) {
		return bson.D{{Key: []string{"$x", "$or", "a.$b", ""}[r.N(4)], Value: int32(1)}}
	}
	fields := apiIdxFields
	if g.profile == "uniq" {
		fields = []string{"a", "b", "a.b"}
	}
	f := fields[r.N(len(fields))]
	keys := bson.D{{Key: f, Value: dir()}}
	if r.P(28) {
		f2 := fields[r.N(len(fields))]
		if f2 != f {
			keys = append(keys, bson.E{Key: f2, Value: dir()})
		}
	}
	return keys
}

func (g *apiGen) createIndex(c *apiCall) {
	r := g.r
	c.M = "createIndex"
	c.Keys = g.indexKeys()
	c.Unique = r.P(40)
	if r.P(30) {
		c.HasPartial = true
		f := gen.Keys[r.N(len(gen.Keys))]
		switch r.N(5) {
		case 0:
			c.Partial = bson.D{}
		case 1, 2:
			c.Partial = bson.D{{Key: f, Value: bson.D{{Key: "$gt", Value: r.SmallNumber()}}}}
		default:
			c.Partial = bson.D{{Key: f, Value: bson.D{{Key: "$exists", Value: true}}}}
		}
		if g.malformed && r.P(15) {
			c.Partial = bson.D{{Key: f, Value: bson.D{{Key: "$foo", Value: int32(1)}}}}
		}
	}
	if (len(c.Keys) == 1 && r.P(30)) || (g.malformed && r.P(20)) {
		c.HasTTL = true
		c.TTL = []int32{0, 1, 3600, 2592000, 2147483647}[r.N(5)]
	}
	if r.P(30) {
		c.HasName = true
		names := []string{"custom", "a_1", "b_-1", "x_1", "_id_", "a.b_1"}
		names = append(names, g.indexNames(c.DB, c.Coll)...)
		c.Name = names[r.N(len(names))]
	}
	// re-issue an existing definition now and then (create-same-is-a-no-op)
	if r.P(12) {
		ns := g.env.engine.Catalog().Namespaces[lungo.Handle{c.DB, c.Coll}]
		names := g.indexNames(c.DB, c.Coll)
		if ns != nil && len(names) > 0 {
			n := names[r.N(len(names))]
			cfg := ns.Indexes[n].Config()
			c.Keys = *cfg.Key
			c.Unique = cfg.Unique
			c.HasPartial = cfg.Partial != nil
			if cfg.Partial != nil {
				c.Partial = *cfg.Partial
			}
			c.HasTTL = cfg.Expiry > 0
			c.TTL = int32(cfg.Expiry / 1e9)
			c.HasName = r.P(60)
			c.Name = n
			if r.P(25) {
				c.Unique = !c.Unique // conflicting definition under the same name / key
			}
		}
	}
}

func (g *apiGen) bulkModel(db, coll string) apiBulk {
	r := g.r
	switch r.N(10) {
	case 0, 1, 2:
		return apiBulk{T: "insertOne", Doc: g.doc(db, coll)}
	case 3:
		return apiBulk{T: "replaceOne", Q: g.filter(db, coll), Repl: g.replacement(db, coll), Upsert: r.P(40)}
	case 4, 5:
		f, has := g.arrayFilters()
		return apiBulk{T: "updateOne", Q: g.filter(db, coll), U: g.update(db, coll), Upsert: r.P(40), Filters: f, HasFilters: has}
	case 6:
		f, has := g.arrayFilters()
		return apiBulk{T: "updateMany", Q: g.filter(db, coll), U: g.update(db, coll), Upsert: r.P(30), Filters: f, HasFilters: has}
	case 7, 8:
		return apiBulk{T: "deleteOne", Q: g.filter(db, coll)}
	default:
		return apiBulk{T: "deleteMany", Q: g.filter(db, coll)}
	}
}

// canonNaNVal replaces every NaN by the canonical quiet NaN: the payload of an arithmetic
// result is decided by the hardware (amd64 propagates the operand's payload, the model yields
// the canonical NaN), and in a history it would leak into ModifiedCount and the oplog.
func canonNaNVal(v interface{}) interface{} {
	switch x := v.(type) {
	case float64:
		if math.IsNaN(x) {
			return math.Float64frombits(0x7ff8000000000000)
		}
	case bson.D:
		for i := range x {
			x[i].Value = canonNaNVal(x[i].Value)
		}
	case bson.A:
		for i := range x {
			x[i] = canonNaNVal(x[i])
		}
	}
	return v
}

func canonNaNDocs(ds []bson.D) {
	for _, d := range ds {
		canonNaNVal(d)
	}
}

// next generates the next call of the history (NaN payloads canonicalised).
func (g *apiGen) next() *apiCall {
	c := g.next0()
	for _, d := range []bson.D{c.Doc, c.Q, c.U, c.Repl, c.Sort, c.Proj, c.Keys, c.Partial} {
		canonNaNVal(d)
	}
	canonNaNDocs(c.Docs)
	canonNaNDocs(c.Filters)
	for _, m := range c.Models {
		for _, d := range []bson.D{m.Doc, m.Q, m.U, m.Repl} {
			canonNaNVal(d)
		}
		canonNaNDocs(m.Filters)
	}
	return c
}

func (g *apiGen) next0() *apiCall {
	r := g.r
	c := &apiCall{}
	c.DB, c.Coll = g.handle()
	db, coll := c.DB, c.Coll
	k := r.N(1000)
	g.step++
	switch {
	case g.profile == "uniq" && (g.step == 1 || r.P(6)):
		g.createIndex(c)
		c.Unique = true
		if c.HasTTL && r.P(70) {
			c.HasTTL = false
		}
		return c
	case g.profile == "ttl" && (g.step == 1 || r.P(8)):
		g.createIndex(c)
		c.Keys = bson.D{{Key: apiIdxFields[r.N(len(apiIdxFields))], Value: int32(1 - 2*r.N(2))}}
		c.HasTTL, c.TTL = true, []int32{0, 1, 3600}[r.N(3)]
		if g.bigTTL > 0 && r.P(65) {
			c.TTL = g.bigTTL
		}
		if g.step > 1 && r.P(45) {
			c.HasTTL = false // a plain index next to the TTL ones: its field must not expire anything
		}
		if r.P(70) {
			c.Unique = false
		}
		return c
	case g.profile == "ttl" && r.P(12):
		c.M = "expire"
		return c
	}
	if g.profile == "idx" {
		// a scenario step on the scenario's collection, or (nil) noise from the general generator there
		if sc := g.idxNext(c); sc != nil {
			return sc
		}
		db, coll = c.DB, c.Coll
	}
	if g.profile == "names" {
		// documents and an index in every namespace first; then drops of the SHORTER names (collection
		// c, database d1) and listings: the namespaces with the longer names must be untouched
		switch {
		case g.step <= 2*len(g.dbs)*len(g.colls):
			i := (g.step - 1) / 2
			c.DB, c.Coll = g.dbs[i%len(g.dbs)], g.colls[(i/len(g.dbs))%len(g.colls)]
			db, coll = c.DB, c.Coll
			if g.step%2 == 1 {
				c.M, c.Doc = "insertOne", g.doc(db, coll)
				return c
			}
			g.createIndex(c)
			c.HasTTL = false
			return c
		case r.P(16):
			c.M, c.Coll = "dropCollection", g.colls[0]
			if r.P(25) {
				c.Coll = g.colls[r.N(len(g.colls))]
			}
			return c
		case r.P(5):
			c.M, c.DB = "dropDatabase", "d1"
			return c
		case r.P(22):
			c.M = []string{"listCollections", "listDatabases", "listIndexes", "estCount"}[r.N(4)]
			c.Q = bson.D{}
			return c
		case r.P(10):
			c.M, c.Q = "find", bson.D{}
			return c
		}
	}
	if g.profile == "nested" {
		if nc := g.nestedNext(c, db, coll); nc != nil {
			return nc
		}
	}
	if g.profile == "uniq" && r.P(45) {
		// collision pressure: inserts, updates, replacements and batches on the indexed fields
		k = []int{360, 400, 440, 480, 530, 590, 630, 780}[r.N(8)]
	}
	if g.profile != "" && k >= 900 && k < 940 && r.P(75) {
		k = 350 + r.N(450) // profiled histories keep their indexes: fewer drops
	}
	// young collections mostly get inserts
	if len(g.docs(db, coll)) < 2 && r.P(45) {
		k = 350 + r.N(170)
	}
	switch {
	// ---- reads (35 %)
	case k < 120:
		c.M = "find"
		c.Q = g.filter(db, coll)
		c.Sort, c.HasSort = g.sortSpecFor(db, coll)
		c.Proj, c.HasProj = g.projection(db, coll)
		g.window(c)
	case k < 180:
		c.M = "findOne"
		c.Q = g.filter(db, coll)
		c.Sort, c.HasSort = g.sortSpecFor(db, coll)
		c.Proj, c.HasProj = g.projection(db, coll)
		if r.P(30) {
			c.HasSkip = true
			c.Skip = int64(r.N(3))
			if g.malformed && r.P(30) {
				c.Skip = -1
			}
		}
	case k < 230:
		c.M = "count"
		c.Q = g.filter(db, coll)
		g.window(c)
	case k < 250:
		c.M = "estCount"
	case k < 300:
		c.M = "distinct"
		c.Q = g.filter(db, coll)
		c.Field = append([]string{"_id", "a.b"}, gen.Keys...)[r.N(2+len(gen.Keys))]
		if r.P(20) {
			c.Field = r.Path()
		}
	case k < 320:
		c.M = "listIndexes"
	case k < 335:
		c.M = "listCollections"
		switch r.N(4) {
		case 0:
			c.Q = bson.D{{Key: "name", Value: apiColls[r.N(2)]}}
		case 1:
			c.Q = bson.D{{Key: "name", Value: bson.D{{Key: "$in", Value: bson.A{"c", "x"}}}}}
		default:
			c.Q = bson.D{}
		}
		if g.malformed && r.P(40) {
			c.Q = Filter(r, 1, true)
		}
	case k < 350:
		c.M = "listDatabases"
		switch r.N(5) {
		case 0:
			c.Q = bson.D{{Key: "name", Value: apiDBs[r.N(2)]}}
		case 1:
			c.Q = bson.D{{Key: "empty", Value: false}}
		case 2:
			c.Q = bson.D{{Key: "sizeOnDisk", Value: bson.D{{Key: "$gte", Value: int32(0)}}}}
		default:
			c.Q = bson.D{}
		}
		if g.malformed && r.P(40) {
			c.Q = Filter(r, 1, true)
		}
	// ---- writes (45 %)
	case k < 470:
		c.M = "insertOne"
		c.Doc = g.doc(db, coll)
	case k < 520:
		c.M = "insertMany"
		c.Ordered = r.P(50)
		n := 1 + r.N(4)
		for i := 0; i < n; i++ {
			d := g.doc(db, coll)
			if i > 0 && r.P(15) {
				d = *bsonkit.Clone(&c.Docs[r.N(len(c.Docs))]) // duplicate inside the batch
			}
			c.Docs = append(c.Docs, d)
		}
	case k < 580:
		c.M = "updateOne"
		c.Q, c.U, c.Upsert = g.filter(db, coll), g.update(db, coll), r.P(30)
		c.Filters, c.HasFilters = g.arrayFilters()
		g.arrayResize(c, db, coll)
	case k < 620:
		c.M = "updateMany"
		c.Q, c.U, c.Upsert = g.filter(db, coll), g.update(db, coll), r.P(20)
		c.Filters, c.HasFilters = g.arrayFilters()
		g.arrayResize(c, db, coll)
	case k < 660:
		c.M = "replaceOne"
		c.Q, c.Repl, c.Upsert = g.filter(db, coll), g.replacement(db, coll), r.P(35)
	case k < 690:
		c.M = "deleteOne"
		c.Q = g.filter(db, coll)
	case k < 710:
		c.M = "deleteMany"
		c.Q = g.filter(db, coll)
	case k < 730:
		c.M = "findOneAndDelete"
		c.Q = g.filter(db, coll)
		c.Sort, c.HasSort = g.sortSpecFor(db, coll)
		c.Proj, c.HasProj = g.projection(db, coll)
	case k < 750:
		c.M = "findOneAndReplace"
		c.Q, c.Repl, c.Upsert, c.After = g.filter(db, coll), g.replacement(db, coll), r.P(35), r.P(50)
		c.Sort, c.HasSort = g.sortSpecFor(db, coll)
		c.Proj, c.HasProj = g.projection(db, coll)
		if r.P(8) {
			// a projection that fails only on the post-image (the replacement introduces the array)
			f := gen.Keys[r.N(len(gen.Keys))]
			c.Repl = append(bson.D{}, c.Repl...)
			c.Repl = append(c.Repl, bson.E{Key: f + "z", Value: bson.A{g.value()}})
			c.Proj, c.HasProj = lateFailingProjection(f+"z"), true
			c.After, c.Upsert = r.P(70), r.P(50)
		}
	case k < 770:
		c.M = "findOneAndUpdate"
		c.Q, c.U, c.Upsert, c.After = g.filter(db, coll), g.update(db, coll), r.P(35), r.P(50)
		c.Sort, c.HasSort = g.sortSpecFor(db, coll)
		c.Proj, c.HasProj = g.projection(db, coll)
		c.Filters, c.HasFilters = g.arrayFilters()
		g.arrayResize(c, db, coll)
		if r.P(8) {
			// a projection that fails only on the post-image (the update creates the array)
			f := gen.Keys[r.N(len(gen.Keys))] + "z"
			if r.P(50) {
				c.U = bson.D{{Key: "$push", Value: bson.D{{Key: f, Value: g.value()}}}}
			} else {
				c.U = bson.D{{Key: "$set", Value: bson.D{{Key: f, Value: bson.A{g.value()}}}}}
			}
			c.Filters, c.HasFilters = nil, false
			c.Proj, c.HasProj = lateFailingProjection(f), true
			c.After, c.Upsert = r.P(70), r.P(50)
		}
	case k < 800:
		c.M = "bulkWrite"
		c.Ordered = r.P(50)
		n := 1 + r.N(5)
		for i := 0; i < n; i++ {
			c.Models = append(c.Models, g.bulkModel(db, coll))
		}
	// ---- index management (10 %)
	case k < 870:
		g.createIndex(c)
	case k < 900 && r.P(70) && g.retargetToIndexed(c):
		// (re-targeted to a namespace that has a secondary index)
		db, coll = c.DB, c.Coll
		if k < 887 {
			c.M = "dropIndex"
			sec := g.secondaryIndexNames(db, coll)
			c.Name = sec[r.N(len(sec))]
		} else {
			c.M = "dropIndexByKey"
			sec := g.secondaryIndexNames(db, coll)
			c.Keys = *g.env.engine.Catalog().Namespaces[lungo.Handle{db, coll}].Indexes[sec[r.N(len(sec))]].Config().Key
		}
	case k < 885:
		c.M = "dropIndex"
		names := append([]string{"_id_", "nope", "a_1"}, g.indexNames(db, coll)...)
		c.Name = names[r.N(len(names))]
		if sec := g.secondaryIndexNames(db, coll); len(sec) > 0 && r.P(65) {
			c.Name = sec[r.N(len(sec))]
		}
	case k < 890:
		c.M = "dropAllIndexes"
	case k < 900:
		c.M = "dropIndexByKey"
		c.Keys = g.indexKeys()
		if ns := g.env.engine.Catalog().Namespaces[lungo.Handle{db, coll}]; ns != nil && r.P(70) {
			names := g.indexNames(db, coll)
			if sec := g.secondaryIndexNames(db, coll); len(sec) > 0 && r.P(85) {
				names = sec
			}
			if len(names) > 0 {
				c.Keys = *ns.Indexes[names[r.N(len(names))]].Config().Key
			}
		}
		if r.P(12) {
			// key specifications of the _id index in other numeric types / directions: never drop it
			c.Keys = bson.D{{Key: "_id", Value: []interface{}{int32(1), float64(1), int64(1), int32(-1), float64(-1)}[r.N(5)]}}
		}
	// ---- drops (5 %)
	case k < 925:
		c.M = "dropCollection"
	case k < 940:
		c.M = "dropDatabase"
	case k < 950:
		c.M = "createCollection"
	// ---- expiry (5 %)
	default:
		c.M = "expire"
	}
	return c
}
