package streams

import (
	"encoding/json"
	"fmt"
	"strconv"
	"strings"
	"time"

	"go.mongodb.org/mongo-driver/bson"
	"go.mongodb.org/mongo-driver/bson/primitive"

	"verifharness/internal/gen"
	"verifharness/internal/model"
	"verifharness/internal/run"
	"verifharness/internal/vj"
)

// Stream "api": registration, history construction from a key, and replay.

const apiReset = `{"op":"api.reset"}`
const apiDumpReq = `{"op":"api.dump"}`

// runAPIHistory regenerates and executes the history of a key (all of it, or its first upto calls).
func runAPIHistory(key uint64, upto int) (steps []apiStep, final *run.Violation, malformed bool) {
	r := gen.New(key, 0x617069, 1)
	env, err := openAPIEnv(nil)
	if err != nil {
		panic(err)
	}
	defer env.engine.Close()
	clk := time.Now().UnixMilli()
	g := newAPIGen(r, env, clk)
	n := 1 + r.N(25)
	if g.profile != "" && n < 10 {
		n += 10
	}
	if upto >= 0 && upto < n {
		n = upto
	}
	m := newAPIRunner(env, `,"hk":"`+strconv.FormatUint(key, 10)+`","clk":`+strconv.FormatInt(clk, 10))
	m.snapAt = 1 + int((key>>7)%uint64(n+1))/2 // a step of the first half (from the key: no PRNG draw)
	for i := 0; i < n; i++ {
		steps = append(steps, m.step(g.next()))
	}
	if len(steps) > 0 {
		steps[len(steps)-1].viols = append(steps[len(steps)-1].viols, m.finish()...)
	}
	if len(steps) > 0 && g.profile != "" {
		tag := "profile:" + g.profile
		if g.idx != nil {
			tag += ":" + g.idx.kind
		}
		steps[0].tags = append(steps[0].tags, tag)
	}
	return steps, m.finalProbe(), g.malformed
}

func apiCases(key uint64) []run.Case {
	steps, final, malformed := runAPIHistory(key, -1)
	return casesOf(steps, final, malformed, `"hk":"`+strconv.FormatUint(key, 10)+`",`)
}

func casesOf(steps []apiStep, final *run.Violation, malformed bool, hk string) []run.Case {
	hs := &histState{errClassLoose: looseErrClass(steps)}
	cases := []run.Case{{Req: apiReset, Impl: `{"ok":null}`, Accept: func(m string) bool { return m == `{"ok":null}` }}}
	for i, st := range steps {
		kind := "call"
		if st.call.M == "distinct" {
			kind = "distinct"
		}
		tags := st.tags
		if malformed {
			tags = append(tags, "in-malformed-history")
		}
		if i == 0 {
			tags = append(tags, "histories", "len:"+strconv.Itoa((len(steps)+4)/5*5))
			if malformed {
				tags = append(tags, "malformed-histories")
			}
		}
		cases = append(cases, run.Case{Req: st.req, Impl: st.reply, Nontrivial: st.nontrivial, Tags: tags, Viols: st.viols, Accept: hs.accept(st.reply, kind)})
		// the request line carries the position so that a dump disagreement can be replayed
		dump := run.Case{Impl: st.dump, Accept: hs.accept(st.dump, "dump")}
		dump.Req = `{"op":"api.dump",` + hk + `"step":` + strconv.Itoa(i+1) + `}`
		cases = append(cases, dump)
	}
	if final != nil {
		cases = append(cases, run.Case{Viols: []run.Violation{*final}})
	}
	return cases
}

// ---- replay ----

func (r reqObj) i64(k string) (int64, bool) {
	n, ok := r[k].(json.Number)
	if !ok {
		return 0, false
	}
	v, err := strconv.ParseInt(n.String(), 10, 64)
	return v, err == nil
}

func (r reqObj) optDoc(k string) (bson.D, bool) {
	raw, ok := r[k]
	if !ok || raw == nil {
		return nil, false
	}
	d, ok := r.val(k).(bson.D)
	return d, ok
}

func (r reqObj) docList(k string) ([]bson.D, bool) {
	arr, ok := r[k].([]interface{})
	if !ok {
		return nil, false
	}
	out := []bson.D{}
	for _, x := range arr {
		v, err := vj.FromRaw(x)
		if err != nil {
			panic(err)
		}
		d, _ := v.(bson.D)
		out = append(out, d)
	}
	return out, true
}

// decodeAPICall rebuilds a call from its request object (inverse of apiCall.req).
func decodeAPICall(o reqObj) *apiCall {
	c := &apiCall{M: o.str("m")}
	if h, ok := o["h"].([]interface{}); ok && len(h) == 2 {
		c.DB, _ = h[0].(string)
		c.Coll, _ = h[1].(string)
	}
	if db, ok := o["db"].(string); ok {
		c.DB = db
	}
	c.Doc, _ = o.optDoc("doc")
	c.Docs, _ = o.docList("docs")
	c.Ordered = o.boolean("ordered")
	c.Q, _ = o.optDoc("q")
	c.U, _ = o.optDoc("u")
	c.Repl, _ = o.optDoc("repl")
	c.Sort, c.HasSort = o.optDoc("sort")
	c.Proj, c.HasProj = o.optDoc("proj")
	c.Skip, c.HasSkip = o.i64("skip")
	c.Limit, c.HasLimit = o.i64("limit")
	c.Upsert = o.boolean("upsert")
	c.After = o.boolean("after")
	c.Filters, c.HasFilters = o.docList("filters")
	c.Field = o.str("field")
	if ms, ok := o["models"].([]interface{}); ok {
		for _, x := range ms {
			mo := reqObj(x.(map[string]interface{}))
			b := apiBulk{T: mo.str("t"), Upsert: mo.boolean("upsert")}
			b.Doc, _ = mo.optDoc("doc")
			b.Q, _ = mo.optDoc("q")
			b.U, _ = mo.optDoc("u")
			b.Repl, _ = mo.optDoc("repl")
			b.Filters, b.HasFilters = mo.docList("filters")
			c.Models = append(c.Models, b)
		}
	}
	c.Keys, _ = o.optDoc("keys")
	if k, ok := o.optDoc("key"); ok {
		c.Keys = k
	}
	c.Name, c.HasName = o["name"].(string)
	c.Unique = o.boolean("unique")
	c.Partial, c.HasPartial = o.optDoc("partial")
	if t, ok := o.i64("ttl"); ok {
		c.TTL, c.HasTTL = int32(t), true
	}
	c.Now, _ = o.i64("now")
	return c
}

func shiftDateVal(v interface{}, clk, delta int64) interface{} {
	switch x := v.(type) {
	case primitive.DateTime:
		if d := int64(x) - clk; d > -48*3600e3 && d < 48*3600e3 {
			return primitive.DateTime(int64(x) + delta)
		}
		for _, ttl := range apiBigTTLs {
			// dates generated around clock − (a large lifetime)
			if d := int64(x) - (clk - int64(ttl)*1000); d > -48*3600e3 && d < 48*3600e3 {
				return primitive.DateTime(int64(x) + delta)
			}
		}
	case bson.D:
		for i := range x {
			x[i].Value = shiftDateVal(x[i].Value, clk, delta)
		}
	case bson.A:
		for i := range x {
			x[i] = shiftDateVal(x[i], clk, delta)
		}
	}
	return v
}

func shiftDates(c *apiCall, clk, delta int64) {
	for _, d := range []bson.D{c.Doc, c.Q, c.U, c.Repl, c.Partial} {
		shiftDateVal(d, clk, delta)
	}
	for _, d := range c.Docs {
		shiftDateVal(d, clk, delta)
	}
	for _, m := range c.Models {
		for _, d := range []bson.D{m.Doc, m.Q, m.U, m.Repl} {
			shiftDateVal(d, clk, delta)
		}
	}
}

// apiReplay re-executes a history on the implementation and (if available) the model and
// prints the canonical replies side by side. Accepted requests:
//
//	{"op":"api.history","calls":[…]}          the calls verbatim (Req of a violation)
//	{…,"hk":"<key>"[,"step":k]}               any request line of a generated history: it is
//	                                          regenerated from its key (up to call k)
func apiReplay(req string) string {
	o, err := parseReq(req)
	if err != nil {
		return ""
	}
	var steps []apiStep
	var final *run.Violation
	if calls, ok := o["calls"].([]interface{}); ok {
		env, err := openAPIEnv(nil)
		if err != nil {
			return ""
		}
		defer env.engine.Close()
		m := newAPIRunner(env, "")
		// ObjectIDs generated in the recorded run are renamed to the ones generated now
		// (position by position in the "oids" lists), so later calls still refer to them
		rename := map[string]string{}
		replayNow := time.Now().UnixMilli()
		var delta int64
		haveDelta := false
		genOids := func(line string) []string {
			var out []string
			if i := strings.Index(line, `"oids":[`); i >= 0 {
				for _, mm := range oidRe.FindAllStringSubmatch(line[i:], -1) {
					if mm[1] != dummyOid.Hex() {
						out = append(out, mm[1])
					}
				}
			}
			return out
		}
		for _, x := range calls {
			raw, _ := json.Marshal(x)
			line := oidRe.ReplaceAllStringFunc(string(raw), func(mm string) string {
				if to, ok := rename[mm[6:30]]; ok {
					return `{"o":"` + to + `"}`
				}
				return mm
			})
			o, err := parseReq(line)
			if err != nil {
				return ""
			}
			c := decodeAPICall(o)
			if clk, ok := o.i64("clk"); ok {
				// dates generated around the recorded clock move with the clock (TTL outcomes stay the same)
				if !haveDelta {
					delta, haveDelta = replayNow-clk, true
				}
				shiftDates(c, clk, delta)
			}
			st := m.step(c)
			steps = append(steps, st)
			was, now := genOids(string(raw)), genOids(st.req)
			for i := 0; i < len(was) && i < len(now); i++ {
				rename[was[i]] = now[i]
			}
		}
		if len(steps) > 0 {
			steps[len(steps)-1].viols = append(steps[len(steps)-1].viols, m.finish()...)
		}
		final = m.finalProbe()
	} else if hk, ok := o["hk"].(string); ok {
		key, err := strconv.ParseUint(hk, 10, 64)
		if err != nil {
			return ""
		}
		upto := -1
		if k, ok := o.i64("step"); ok {
			upto = int(k)
		}
		steps, final, _ = runAPIHistory(key, upto)
	} else {
		return ""
	}
	var p *model.Proc
	if !run.NoModel {
		if p, err = model.Start(); err == nil {
			_, _ = p.Ask(apiReset)
		} else {
			p = nil
		}
	}
	var sb strings.Builder
	for i, st := range steps {
		sb.WriteString(fmt.Sprintf("\n#%d req  : %s\n#%d impl : %s\n", i+1, st.req, i+1, st.reply))
		if p != nil {
			mr, _ := p.Ask(st.req)
			md, _ := p.Ask(apiDumpReq)
			hs := &histState{}
			kind := "call"
			if st.call.M == "distinct" {
				kind = "distinct"
			}
			sb.WriteString(fmt.Sprintf("#%d model: %s\n", i+1, mr))
			if !hs.accept(st.reply, kind)(mr) {
				sb.WriteString(fmt.Sprintf("#%d REPLY DISAGREES\n", i+1))
			}
			if !(&histState{}).accept(st.dump, "dump")(md) {
				sb.WriteString(fmt.Sprintf("#%d DUMP DISAGREES\n    %s\n(later calls are not compared)\n", i+1, dumpDiff(st.dump, md)))
				p.Close()
				p = nil
			}
		}
		for _, v := range st.viols {
			sb.WriteString(fmt.Sprintf("#%d VIOLATION %s %s: %s\n    %s\n", i+1, v.Property, v.Witness, v.What, v.Detail))
		}
	}
	if len(steps) > 0 {
		sb.WriteString("final dump: " + steps[len(steps)-1].dump + "\n")
	}
	if final != nil {
		sb.WriteString("VIOLATION " + final.Property + " " + final.Witness + "\n")
	}
	return sb.String()
}

// apiCorpus: fixed histories around defects that were found and fixed in /repo (§10 of DESIGN)
// and corner cases of the index rules; they run before the generated ones.
func apiCorpus() []run.Case {
	d := func(kv ...interface{}) bson.D {
		out := bson.D{}
		for i := 0; i+1 < len(kv); i += 2 {
			out = append(out, bson.E{Key: kv[i].(string), Value: kv[i+1]})
		}
		return out
	}
	one := int32(1)
	ins := func(doc bson.D) *apiCall { return &apiCall{M: "insertOne", DB: "d1", Coll: "c", Doc: doc} }
	idx := func(keys bson.D, f func(*apiCall)) *apiCall {
		c := &apiCall{M: "createIndex", DB: "d1", Coll: "c", Keys: keys}
		if f != nil {
			f(c)
		}
		return c
	}
	on := func(m string) *apiCall { return &apiCall{M: m, DB: "d1", Coll: "c"} }
	hists := [][]*apiCall{
		{ // the _id index is never dropped; duplicate _ids stay rejected
			ins(d("_id", one)),
			{M: "dropIndex", DB: "d1", Coll: "c", Name: "_id_"},
			{M: "dropIndexByKey", DB: "d1", Coll: "c", Keys: d("_id", one)},
			on("dropAllIndexes"),
			ins(d("_id", one)), ins(d("_id", 1.0)), on("listIndexes"),
		},
		{ // same name / same key rules
			idx(d("a", one), nil), idx(d("a", one), nil),
			idx(d("b", one), func(c *apiCall) { c.HasName, c.Name = true, "a_1" }),
			idx(d("a", one), func(c *apiCall) { c.HasName, c.Name = true, "other" }),
			idx(d("a", one), func(c *apiCall) { c.Unique = true }),
			idx(d("a", int32(-1)), func(c *apiCall) { c.Unique = true }),
			on("listIndexes"),
		},
		{ // unique index over existing duplicates, multikey and missing-vs-null collisions
			ins(d("_id", one, "a", bson.A{int32(1), int32(2)})), ins(d("_id", int32(2), "a", int32(2))),
			idx(d("a", one), func(c *apiCall) { c.Unique = true }),
			{M: "deleteOne", DB: "d1", Coll: "c", Q: d("_id", int32(2))},
			idx(d("a", one), func(c *apiCall) { c.Unique = true }),
			ins(d("_id", int32(3), "a", int32(2))), ins(d("_id", int32(4))), ins(d("_id", int32(5), "a", nil)),
			{M: "updateMany", DB: "d1", Coll: "c", Q: d(), U: d("$inc", d("b", one))},
		},
		{ // documents whose _id is a document / binary: update and replace compare ids by value
			ins(d("_id", d("k", one), "a", one)),
			{M: "updateOne", DB: "d1", Coll: "c", Q: d("a", one), U: d("$set", d("b", one))},
			{M: "replaceOne", DB: "d1", Coll: "c", Q: d("a", one), Repl: d("_id", d("k", one), "a", int32(2))},
			{M: "replaceOne", DB: "d1", Coll: "c", Q: d("a", int32(2)), Repl: d("_id", d("k", int64(1)), "a", int32(3))},
			ins(d("_id", primitive.Binary{Data: []byte{1}})),
			{M: "updateOne", DB: "d1", Coll: "c", Q: d("_id", primitive.Binary{Data: []byte{1}}), U: d("$set", d("_id", primitive.Binary{Subtype: 1, Data: []byte{1}}))},
		},
		{ // negative skip, failing projection after a find-and-modify, listing filters on numeric fields
			ins(d("_id", one, "a", bson.A{one})),
			{M: "find", DB: "d1", Coll: "c", Q: d(), HasSkip: true, Skip: -1},
			{M: "count", DB: "d1", Coll: "c", Q: d(), HasSkip: true, Skip: -1},
			{M: "findOneAndDelete", DB: "d1", Coll: "c", Q: d(), HasProj: true, Proj: d("a", int32(2))},
			{M: "findOneAndUpdate", DB: "d1", Coll: "c", Q: d(), U: d("$set", d("b", one)), HasProj: true, Proj: d("a", one, "b", int32(0))},
			{M: "findOneAndReplace", DB: "d1", Coll: "c", Q: d(), Repl: d("z", one), Upsert: true, HasProj: true, Proj: d("a", d("$slice", "x"))},
			{M: "listDatabases", Q: d("sizeOnDisk", d("$gte", int32(0)))},
			{M: "listCollections", DB: "d1", Q: d("idIndex.v", int32(2))},
			{M: "insertOne", DB: "a.b", Coll: "c", Doc: d("_id", one)},
		},
		{ // Collection("").Drop() is rejected before the transaction begins; it must not drop the database
			ins(d("_id", one)),
			{M: "insertOne", DB: "d1", Coll: "e", Doc: d("_id", one)},
			{M: "dropCollection", DB: "d1", Coll: ""},
			{M: "listCollections", DB: "d1", Q: d()},
			{M: "estCount", DB: "d1", Coll: "c"},
			{M: "dropCollection", DB: "", Coll: "c"},
			{M: "dropCollection", DB: "d1", Coll: "c"},
			{M: "listCollections", DB: "d1", Q: d()},
			{M: "dropDatabase", DB: "d1"},
			{M: "listCollections", DB: "d1", Q: d()},
		},
		{ // TTL: 0 seconds is 1 ns; numbers and strings never expire; arrays expire through any element
			idx(d("t", one), func(c *apiCall) { c.HasTTL, c.TTL = true, 0 }),
			idx(d("u", one), nil),
			ins(d("_id", one, "t", primitive.DateTime(time.Now().UnixMilli()-7200e3))),
			ins(d("_id", int32(2), "t", int64(5))),
			ins(d("_id", int32(3), "t", bson.A{"x", primitive.DateTime(time.Now().UnixMilli() - 7200e3)})),
			ins(d("_id", int32(4), "t", primitive.DateTime(time.Now().UnixMilli()+7200e3), "u", primitive.DateTime(0))),
			{M: "expire"}, on("listIndexes"), {M: "expire"},
		},
	}
	var cases []run.Case
	for i, h := range hists {
		env, err := openAPIEnv(nil)
		if err != nil {
			continue
		}
		m := newAPIRunner(env, `,"corpus":`+strconv.Itoa(i))
		var steps []apiStep
		for _, c := range h {
			steps = append(steps, m.step(c))
		}
		steps[len(steps)-1].viols = append(steps[len(steps)-1].viols, m.finish()...)
		final := m.finalProbe()
		env.engine.Close()
		cs := casesOf(steps, final, false, `"corpus":`+strconv.Itoa(i)+`,`)
		for j := range cs {
			cs[j].Tags = append(cs[j].Tags, "corpus")
		}
		cases = append(cases, cs...)
	}
	return cases
}

func init() {
	run.Register(&run.Stream{
		Name:   "api",
		Corpus: apiCorpus,
		Rule: "histories of 1–25 driver calls over 1–2 databases × 1–2 collections on lungo.Open(MemoryStore): 35% reads, 45% writes, 10% index management, 5% drops, 5% expiry; " +
			"arguments biased to stored _ids/field values/index names; ~10% malformed histories; every reply and the full catalog dump (documents in natural order, index definitions and members, oplog) " +
			"after every call are compared with the stateful Lean model; monitors C02 (error/batch), C07 (pairwise key scan after every call; every uniqueness rejection of a write, batch item or index build " +
			"is justified by a duplicate in the collection it would have produced), C08, C13 (find window), C15 (after every call, failed ones included: every index holds exactly the documents within its partial filter " +
			"under all their key tuples, in key order, like an index rebuilt from scratch; index names = those created by successful calls), " +
			"C03 (the catalog that was current before a call dumps identically after it; one held catalog, one decoded find result and one unread cursor are re-read at the end), " +
			"C13 also for the target of find-and-modify calls, C19, C20 run on the implementation alone; " +
			"key equality and order in the C07/C13/C15 oracles come from an own path walk and an exact big.Rat comparison of numbers; " +
			"~20% of the well-formed histories follow an index scenario (partial-filter moves, key shifts/swaps in one multi-update, unique build over duplicates, bulk with a failing model, multikey arity changes, 4–5 column compound multikey keys, numeric edge keys, index builds that fail late on a partial filter raising an error for some documents, drops aimed at the _id index), 7% use namespace names that are string prefixes of each other (c, c2, c_archive, c.x, c.x.y in d1 / d10) with drops of the shorter ones and listings, " +
			"6% update arrays of arrays through indexed paths, alone and followed by a failing operator " +
			"and a third of the sorts on indexed collections use an index key as the sort specification; " +
			"non-trivial = a successful call that changed the state or returned/matched something",
		Gen: func(r *gen.R, idx int) []run.Case {
			return apiCases(r.U64())
		},
		Replay: apiReplay,
	})
}
