package streams

import (
	"strconv"

	"go.mongodb.org/mongo-driver/bson"

	"verifharness/internal/run"
)

// Fixed histories of stream "sess" (run first): the textbook scenarios of C03.

func sessScript(nSess int, steps []*sessStep) []run.Case {
	m, err := newSessRunner(nSess)
	if err != nil {
		return nil
	}
	defer m.close()
	h := &sessHist{}
	cases := []run.Case{{Req: `{"op":"sess.reset"}`, Impl: `{"ok":null}`, Tags: []string{"corpus", "sessions:" + strconv.Itoa(nSess)}}}
	for _, st := range steps {
		if m.dead {
			break
		}
		cases = append(cases, m.step(st, h).cases...)
	}
	return append(cases, m.finish(h)...)
}

func sessCorpus() []run.Case {
	i32 := func(n int) int32 { return int32(n) }
	doc := func(id, a int) bson.D { return bson.D{{Key: "_id", Value: i32(id)}, {Key: "a", Value: i32(a)}} }
	ins := func(sid, id, a int) *sessStep {
		return &sessStep{K: "call", Sid: sid, C: &sessCall{M: "insertOne", Coll: "c", Doc: doc(id, a)}}
	}
	find := func(sid int) *sessStep {
		return &sessStep{K: "call", Sid: sid, C: &sessCall{M: "find", Coll: "c", Q: bson.D{}}}
	}
	ctl := func(k string, sid int) *sessStep { return &sessStep{K: k, Sid: sid} }
	snap := func(st *sessStep, s string) *sessStep { st.Snap = s; return st }
	set := func(sid int, many bool) *sessStep {
		m := "updateOne"
		if many {
			m = "updateMany"
		}
		return &sessStep{K: "call", Sid: sid, C: &sessCall{M: m, Coll: "c", Q: bson.D{}, U: bson.D{{Key: "$inc", Value: bson.D{{Key: "a", Value: i32(10)}}}}}}
	}
	var out []run.Case
	// 1. isolation, read-your-writes, blocked plain write, commit publishes
	out = append(out, sessScript(2, []*sessStep{
		ins(-1, 1, 1), ctl("start", 0), ins(0, 2, 2), find(-1), find(0), ins(-1, 3, 3), set(0, true), find(-1), find(0),
		{K: "call", Sid: 0, C: &sessCall{M: "createIndex", Coll: "c", Keys: bson.D{{Key: "a", Value: i32(1)}}}}, // nested
		{K: "call", Sid: -1, C: &sessCall{M: "dropCollection", Coll: "c"}},                                      // blocked
		ctl("start", 1),  // blocked (started with a deadline)
		ctl("start", 0),  // existing transaction
		ctl("commit", 1), // missing transaction
		ctl("commit", 0), find(-1), ctl("commit", 0), ins(-1, 3, 3), find(1),
	})...)
	// 2. abort / end discard; calls on ended sessions behave like plain calls; start on an ended session
	out = append(out, sessScript(2, []*sessStep{
		ins(-1, 1, 1), ctl("start", 0), ins(0, 2, 2), set(0, true), ctl("abort", 0), find(-1), find(0), ctl("abort", 0),
		ctl("start", 1), ins(1, 5, 5), ctl("end", 1), find(-1), ins(1, 6, 6), find(1), ctl("start", 1), ctl("commit", 1), ctl("abort", 1), ctl("end", 1),
		ctl("start", 0), ins(0, 7, 7), ctl("commit", 0), find(-1),
	})...)
	// 3. store failures: failing commit = abort; the next write works; failing plain write
	out = append(out, sessScript(2, []*sessStep{
		ins(-1, 1, 1), ctl("start", 0), ins(0, 2, 2), {K: "commit", Sid: 0, FailStore: true}, find(-1), ins(-1, 2, 20),
		{K: "call", Sid: -1, FailStore: true, C: &sessCall{M: "insertOne", Coll: "c", Doc: doc(3, 3)}}, find(-1), ins(-1, 3, 30),
		ctl("start", 1), {K: "commit", Sid: 1, FailStore: true}, // clean transaction: the store is not called
		ctl("start", 1), set(1, false), {K: "commit", Sid: 1, FailStore: true}, ctl("start", 1), set(1, false), ctl("commit", 1), find(-1),
	})...)
	// 4. snapshots of every kind, then in-place-looking writes of every kind
	out = append(out, sessScript(2, []*sessStep{
		snap(&sessStep{K: "call", Sid: -1, C: &sessCall{M: "insertMany", Coll: "c", Docs: []bson.D{doc(1, 1), doc(2, 2), doc(3, 3)}, Ordered: true}}, "catalog"),
		snap(&sessStep{K: "call", Sid: -1, C: &sessCall{M: "createIndex", Coll: "c", Keys: bson.D{{Key: "a", Value: i32(1)}}, Unique: true}}, "cursor:c"),
		snap(find(-1), "txn"), snap(set(-1, true), "catalog"), snap(ctl("start", 0), "sesscat"), snap(set(0, true), "sesscursor:c"),
		snap(ins(0, 4, 4), "sesscat"),
		snap(&sessStep{K: "call", Sid: 0, C: &sessCall{M: "deleteMany", Coll: "c", Q: bson.D{{Key: "a", Value: bson.D{{Key: "$gt", Value: i32(20)}}}}}}, "cursor:c"),
		snap(&sessStep{K: "call", Sid: 0, C: &sessCall{M: "replaceOne", Coll: "c", Q: bson.D{{Key: "_id", Value: i32(1)}}, Repl: bson.D{{Key: "b", Value: "x"}}}}, "sesscursor:c"),
		snap(&sessStep{K: "call", Sid: 0, C: &sessCall{M: "findOneAndUpdate", Coll: "c", Q: bson.D{{Key: "_id", Value: i32(9)}}, U: bson.D{{Key: "$set", Value: bson.D{{Key: "a", Value: i32(0)}}}}, Upsert: true, After: true}}, "txn"),
		ctl("commit", 0), set(-1, true),
		{K: "call", Sid: -1, C: &sessCall{M: "dropCollection", Coll: "c"}}, ins(-1, 1, 100), find(-1),
	})...)
	// 5. index operations directly on the open transaction, then abort: the committed catalog keeps
	// exactly its index names and contents (C15)
	out = append(out, sessScript(2, []*sessStep{
		{K: "call", Sid: -1, C: &sessCall{M: "insertMany", Coll: "c", Docs: []bson.D{doc(1, 1), doc(2, 2), doc(3, 2)}, Ordered: true}},
		{K: "call", Sid: -1, C: &sessCall{M: "createIndex", Coll: "c", Keys: bson.D{{Key: "b", Value: i32(1)}}}},
		ctl("start", 0), ins(0, 4, 4),
		{K: "idxabort", Sid: 0, C: &sessCall{M: "createIndex", Coll: "c", Keys: bson.D{{Key: "a", Value: i32(1)}}, Unique: true}}, // fails: duplicate
		{K: "call", Sid: -1, C: &sessCall{M: "listIndexes", Coll: "c"}},
		ctl("start", 0), set(0, false),
		{K: "idxabort", Sid: 0, C: &sessCall{M: "createIndex", Coll: "c", Keys: bson.D{{Key: "a", Value: i32(-1)}}}}, // succeeds in the view
		{K: "call", Sid: -1, C: &sessCall{M: "listIndexes", Coll: "c"}},
		ctl("start", 1), {K: "idxabort", Sid: 1, C: &sessCall{M: "dropIndex", Coll: "c", Name: "b_1"}},
		{K: "call", Sid: -1, C: &sessCall{M: "listIndexes", Coll: "c"}},
		ctl("start", 1), ins(1, 5, 5), {K: "idxabort", Sid: 1, C: &sessCall{M: "dropAllIndexes", Coll: "c"}},
		{K: "call", Sid: -1, C: &sessCall{M: "listIndexes", Coll: "c"}}, ins(-1, 6, 6), find(-1),
	})...)
	return out
}
