package streams

import (
	"strconv"
	"strings"

	"go.mongodb.org/mongo-driver/bson"

	"github.com/256dpi/lungo/bsonkit"
	"github.com/256dpi/lungo/mongokit"

	"verifharness/internal/gen"
	"verifharness/internal/run"
	"verifharness/internal/vj"
)

// Streams "sort" and "distinct" (C13): mongokit.Sort / mongokit.Distinct on generated lists.

func sortSpec(r *gen.R, malformed bool) bson.D {
	n := 1 + r.N(3)
	var s bson.D
	used := map[string]bool{}
	for i := 0; i < n; i++ {
		k := r.Path()
		if used[k] {
			continue
		}
		used[k] = true
		dirs := []interface{}{int32(1), int32(-1), int64(1), int64(-1), 1.0, -1.0}
		v := dirs[r.N(len(dirs))]
		if malformed && r.P(30) {
			v = []interface{}{int32(0), int32(2), "asc", nil, 1.5, -1.9}[r.N(6)]
		}
		s = append(s, bson.E{Key: k, Value: v})
	}
	return s
}

func docList(r *gen.R, n int) bsonkit.List {
	var l bsonkit.List
	for i := 0; i < n; i++ {
		d := r.Doc(2, r.P(20), false)
		// tag with insertion index so ties are observable
		d = append(bson.D{{Key: "_id", Value: int32(i)}}, d...)
		l = append(l, &d)
	}
	return l
}

// sortKeyOracle: independent implementation of the per-direction sort key.
func sortKeyOracle(v interface{}, reverse bool) interface{} {
	arr, ok := v.(bson.A)
	if !ok || len(arr) == 0 {
		return v
	}
	best := arr[0]
	for _, x := range arr[1:] {
		c := bsonkit.Compare(x, best)
		if (reverse && c > 0) || (!reverse && c < 0) {
			best = x
		}
	}
	return best
}

func init() {
	run.Register(&run.Stream{
		Name: "sort",
		Rule: "lists of 0–12 documents (depth ≤2, arrays, missing fields, colliding numbers) × sort specifications of 1–3 keys/directions (15% malformed); " +
			"monitors: result is a permutation, consecutive results never decrease under the specification (arrays by min ascending / max descending, missing as null), ties keep insertion order; non-trivial = sorted order differs from the input order",
		Gen: func(r *gen.R, idx int) []run.Case {
			malformed := r.P(15)
			n := r.N(13)
			if r.P(35) {
				n = 13 + r.N(40) // Go's sort.Slice is an insertion sort (stable) up to 12 elements
			}
			list := docList(r, n)
			spec := sortSpec(r, malformed)
			req := `{"op":"sort","docs":` + vj.EncDocs(list) + `,"spec":` + vj.Enc(spec) + `}`
			var sorted bsonkit.List
			impl := run.Safe(func() string {
				res, err := mongokit.Sort(list, &spec)
				if err != nil {
					return `{"err":"err"}`
				}
				sorted = res
				return `{"ok":` + vj.EncDocs(res) + `}`
			})
			c := run.Case{Req: req, Impl: impl, Nontrivial: sorted != nil && vj.EncDocs(sorted) != vj.EncDocs(list), Tags: []string{"keys:" + strconv.Itoa(len(spec))}}
			if malformed {
				c.Tags = append(c.Tags, "malformed")
			}
			var viols []run.Violation
			add := func(what, w string) {
				viols = append(viols, run.Violation{Property: "C13", What: what, Witness: w, Req: req})
			}
			if strings.HasPrefix(impl, `{"panic"`) {
				viols = append(viols, run.Violation{Property: "C20", What: "mongokit.Sort panics", Witness: "sort-panic", Req: req, Detail: impl})
			}
			if sorted != nil {
				cols, _ := mongokit.Columns(&spec)
				if len(sorted) != len(list) {
					add("sorted list has a different length", "sort:length")
				}
				seen := map[bsonkit.Doc]bool{}
				for _, d := range sorted {
					seen[d] = true
				}
				if len(seen) != len(list) {
					add("sorted list is not a permutation", "sort:permutation")
				}
				ord := func(a, b bsonkit.Doc) int {
					for _, c := range cols {
						x := sortKeyOracle(bsonkit.Get(a, c.Path), c.Reverse)
						y := sortKeyOracle(bsonkit.Get(b, c.Path), c.Reverse)
						res := bsonkit.Compare(x, y)
						if res != 0 {
							if c.Reverse {
								return -res
							}
							return res
						}
					}
					return 0
				}
				for i := 0; i+1 < len(sorted); i++ {
					o := ord(sorted[i], sorted[i+1])
					if o > 0 {
						add("consecutive results decrease under the specification", "sort:decreasing")
						break
					}
					if o == 0 {
						ia := bsonkit.Get(sorted[i], "_id").(int32)
						ib := bsonkit.Get(sorted[i+1], "_id").(int32)
						if ia > ib {
							add("ties are not kept in insertion order", "sort:unstable")
							break
						}
					}
				}
			}
			c.Viols = viols
			return []run.Case{c}
		},
	})

	run.Register(&run.Stream{
		Name: "distinct",
		Rule: "lists of 0–10 documents × a path; monitors: result strictly ascending under Compare, every value at the path (array elements individually) is represented and nothing else; compared with the model modulo Compare = 0 per position (the representative kept by the unstable sort is unspecified); non-trivial = ≥2 distinct values",
		Gen: func(r *gen.R, idx int) []run.Case {
			list := docList(r, r.N(11))
			p := r.Path()
			req := `{"op":"distinct","docs":` + vj.EncDocs(list) + `,"p":` + run.JS(p) + `}`
			var vals bson.A
			impl := run.Safe(func() string {
				vals = mongokit.Distinct(list, p)
				return `{"ok":` + vj.Enc(vals) + `}`
			})
			c := run.Case{Req: req, Impl: impl, Nontrivial: len(vals) >= 2, Tags: []string{"n:" + strconv.Itoa(len(vals))}}
			c.Accept = func(m string) bool {
				if m == impl {
					return true
				}
				// compare modulo Compare = 0 position by position
				if !strings.HasPrefix(m, `{"ok":`) || !strings.HasPrefix(impl, `{"ok":`) {
					return false
				}
				mv, err := vj.Dec(m[6 : len(m)-1])
				if err != nil {
					return false
				}
				ma, ok := mv.(bson.A)
				if !ok || len(ma) != len(vals) {
					return false
				}
				for i := range ma {
					if bsonkit.Compare(ma[i], vals[i]) != 0 {
						return false
					}
				}
				return true
			}
			var viols []run.Violation
			add := func(what, w string) {
				viols = append(viols, run.Violation{Property: "C13", What: what, Witness: w, Req: req})
			}
			if strings.HasPrefix(impl, `{"panic"`) {
				viols = append(viols, run.Violation{Property: "C20", What: "mongokit.Distinct panics", Witness: "distinct-panic", Req: req, Detail: impl})
			} else {
				for i := 0; i+1 < len(vals); i++ {
					if bsonkit.Compare(vals[i], vals[i+1]) >= 0 {
						add("distinct values are not strictly ascending", "distinct:order")
						break
					}
				}
				// oracle on simple (non fan-out) paths: values at the path, arrays element-wise
				var want bson.A
				simple := true
				for _, d := range list {
					v := bsonkit.Get(d, p)
					segs := strings.Split(p, ".")
					for i := 1; i <= len(segs); i++ {
						if i < len(segs) {
							if _, isArr := bsonkit.Get(d, strings.Join(segs[:i], ".")).(bson.A); isArr {
								simple = false
							}
						}
					}
					if v == bsonkit.Missing {
						continue
					}
					if a, ok := v.(bson.A); ok {
						want = append(want, a...)
					} else {
						want = append(want, v)
					}
				}
				if simple {
					for _, w := range want {
						found := false
						for _, x := range vals {
							if bsonkit.Compare(w, x) == 0 {
								found = true
							}
						}
						if !found {
							add("a value occurring at the path is missing from distinct", "distinct:missing")
							break
						}
					}
					for _, x := range vals {
						found := false
						for _, w := range want {
							if bsonkit.Compare(w, x) == 0 {
								found = true
							}
						}
						if !found {
							add("distinct returns a value that does not occur at the path", "distinct:extra")
							break
						}
					}
				}
			}
			c.Viols = viols
			return []run.Case{c}
		},
	})
}
