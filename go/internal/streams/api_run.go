package streams

import (
	"context"
	"fmt"
	"sort"
	"strconv"
	"strings"
	"time"

	"go.mongodb.org/mongo-driver/bson"
	"go.mongodb.org/mongo-driver/bson/primitive"
	"go.mongodb.org/mongo-driver/mongo"
	"go.mongodb.org/mongo-driver/mongo/options"

	"github.com/256dpi/lungo"
	"github.com/256dpi/lungo/bsonkit"
	"github.com/256dpi/lungo/mongokit"

	"verifharness/internal/run"
	"verifharness/internal/vj"
)

// The history runner of the "api" stream and its property monitors (independent oracles over
// engine.Catalog() before/after every call; none of them consults the model).

type apiStep struct {
	call       *apiCall
	req        string
	reply      string
	dump       string
	viols      []run.Violation
	tags       []string
	nontrivial bool
}

type apiRunner struct {
	env      *apiEnv
	extra    string // appended to every request (history key)
	hist     []string
	prevDump string
	seenOids map[primitive.ObjectID]bool
	book     ixBook          // secondary indexes created by the successful calls so far (C15)
	reported map[string]bool // C15 issues already reported in this history (an incoherent index stays incoherent)
	// C03: snapshots held until the end of the history
	snapAt     int // the catalog published by this step is held (0: by the second step)
	nstep      int
	heldCat    *lungo.Catalog
	heldDump   string
	heldStep   int
	findStep   int
	heldFind   []bson.D // the decoded result of one find
	heldFindJ  string
	heldCursor lungo.ICursor // a second, unread cursor of the same find
	heldReply  string
}

func newAPIRunner(env *apiEnv, extra string) *apiRunner {
	return &apiRunner{env: env, extra: extra, prevDump: apiDump(env.engine.Catalog()), seenOids: map[primitive.ObjectID]bool{}, book: ixBook{}, reported: map[string]bool{}}
}

// histReq is the replayable request of a violation: the calls so far, verbatim.
func (m *apiRunner) histReq() string {
	return `{"op":"api.history","calls":[` + strings.Join(m.hist, ",") + `]}`
}

func oplogOf(c *lungo.Catalog) bsonkit.List {
	if ns := c.Namespaces[lungo.Oplog]; ns != nil {
		return ns.Documents.List
	}
	return nil
}

func wholeError(reply string) bool {
	return strings.HasPrefix(reply, `{"err"`) || strings.HasPrefix(reply, `{"panic"`)
}

// step executes one call and runs every monitor on it.
func (m *apiRunner) step(c *apiCall) apiStep {
	env := m.env
	pre := env.engine.Catalog()
	preDump := m.prevDump
	if c.M == "expire" {
		c.Now = time.Now().UnixMilli()
	}
	reply, pan := env.exec(c)
	post := env.engine.Catalog()
	postDump := apiDump(post)
	m.prevDump = postDump
	m.nstep++

	// events appended by this call; generated ObjectIDs in order
	preLog, postLog := oplogOf(pre), oplogOf(post)
	var events bsonkit.List
	if len(postLog) >= len(preLog) {
		events = postLog[len(preLog):]
	}
	var oids []interface{}
	for _, ev := range events {
		if bsonkit.Get(ev, "operationType") != "insert" {
			continue
		}
		if o, ok := bsonkit.Get(ev, "documentKey._id").(primitive.ObjectID); ok && !isPoolOid(o) && !m.seenOids[o] {
			m.seenOids[o] = true
			oids = append(oids, o)
		}
	}
	oids = append(oids, dummyOid)
	st := apiStep{call: c, reply: reply, dump: postDump}
	st.req = c.req(oids, m.extra)
	m.hist = append(m.hist, st.req)

	viol := func(prop, what, witness, detail string) {
		st.viols = append(st.viols, run.Violation{Property: prop, What: what, Witness: witness, Req: m.histReq(), Detail: clip(detail, 1500)})
	}
	safely := func(name string, f func()) {
		defer func() {
			if p := recover(); p != nil {
				viol("C20", "monitor "+name+" panicked on the implementation's state", "monitor-panic:"+name, fmt.Sprint(p))
			}
		}()
		f()
	}

	// C20: panics; the engine must stay usable after a panic or an error
	if pan != "" {
		viol("C20", "driver call panicked", "api-panic:"+c.M, pan)
	}
	if wholeError(reply) {
		if !m.probe() {
			viol("C20", "a locked transaction cannot be started promptly after a failed call", "wedged-after:"+c.M, reply)
		}
	}

	// C03: the catalog object that was current before the call is a snapshot: whatever the call did
	// (also a failed one, an index call, an expiry pass), it still dumps to the same string
	safely("snapshot", func() {
		if now := apiDump(pre); now != preDump {
			viol("C03", "the catalog that was current before the call reads differently after it", "snapshot-mutated:"+c.M, "reply "+clip(reply, 80)+" before | after: "+dumpDiff(preDump, now))
		}
	})
	// hold the catalog of one step and one find (its decoded result and a second, unread cursor) until the end
	at := m.snapAt
	if at <= 0 {
		at = 2
	}
	if m.heldCat == nil && m.nstep >= at && postDump != preDump {
		m.heldCat, m.heldDump, m.heldStep = post, postDump, m.nstep
	}
	if c.M == "find" && m.heldFind == nil && len(env.lastFind) > 0 && strings.HasPrefix(reply, `{"ok"`) {
		m.heldFind, m.heldFindJ, m.heldReply, m.findStep = env.lastFind, encDocList(env.lastFind), reply, m.nstep
		safely("cursor", func() {
			if csr, err := env.client.Database(c.DB).Collection(c.Coll).Find(context.Background(), c.Q, findOpts(c)); err == nil {
				m.heldCursor = csr
			}
		})
	}

	// C02: a failed call leaves the dump (documents, indexes, oplog) byte-identical
	if wholeError(reply) && postDump != preDump {
		viol("C02", "a call that reported an error changed the database", "error-changed-state:"+c.M, "reply "+reply+" before | after: "+dumpDiff(preDump, postDump))
	}
	if (c.M == "insertMany" || c.M == "bulkWrite") && strings.HasPrefix(reply, `{"ok"`) {
		safely("batch", func() {
			if want, ok := batchOracle(pre, c); ok && canonGenOids(want) != canonGenOids(postDump) {
				viol("C02", "a batch did not apply exactly its individually valid items", "batch-partial:"+c.M, "itemwise | batch: "+dumpDiff(canonGenOids(want), canonGenOids(postDump)))
			}
		})
	}

	// C15: after every call — also a failed one, which may have written through to the live catalog
	// (the catalog pointer is unchanged then) — every index holds exactly the documents of its
	// collection that pass its partial filter, under every key tuple and in key order, lists them
	// like an index rebuilt from scratch, and the index names are those the successful calls created
	safely("index", func() {
		if strings.HasPrefix(reply, `{"ok"`) {
			for _, is := range m.book.record(c, reply) {
				viol("C15", "an index creation that conflicts with an existing index was accepted", "index-incoherent:"+is.reason, is.detail)
			}
		}
		for _, h := range sortedHandles(post) {
			for _, is := range indexIssues(post.Namespaces[h]) {
				if k := h.String() + "|" + is.reason + "|" + is.detail; m.reported[k] {
					continue
				} else {
					m.reported[k] = true
				}
				if is.reason == "set-index-stale" {
					viol("C15", "Set.Index does not map every listed document to its position", "set-index-stale", h.String()+" after "+c.M+" "+reply)
					continue
				}
				viol("C15", "an index does not hold exactly the documents of its collection (within its partial filter) in key order", "index-incoherent:"+is.reason,
					h.String()+" after "+c.M+" "+clip(reply, 60)+": "+is.detail)
			}
		}
		for _, is := range m.book.check(post) {
			if k := is.reason + "|" + is.detail; m.reported[k] {
				continue
			} else {
				m.reported[k] = true
			}
			viol("C15", "the indexes of a namespace are not the ones the successful calls created", "index-incoherent:"+is.reason, "after "+c.M+" "+clip(reply, 60)+": "+is.detail)
		}
	})

	// C07
	safely("unique", func() {
		for _, h := range sortedHandles(post) {
			if h == lungo.Oplog {
				continue
			}
			if name, a, b := uniqueViolation(post.Namespaces[h]); name != "" {
				viol("C07", "two documents under a unique index share a key tuple", "unique-violated:"+name, h.String()+" "+vj.Enc(*a)+" "+vj.Enc(*b))
			}
		}
	})
	// a uniqueness rejection is justified by a real duplicate in the collection the write would have produced
	preNs := pre.Namespaces[lungo.Handle{c.DB, c.Coll}]
	switch c.M {
	case "insertOne", "replaceOne", "updateOne", "updateMany", "findOneAndReplace", "findOneAndUpdate":
		if reply == `{"err":"dup"}` {
			safely("spurious", func() {
				if c.M == "insertOne" && !collides(preNs, c.Doc) {
					viol("C07", "an insert was rejected as duplicate although no unique index holds a colliding key", "spurious-dup", vj.Enc(c.Doc))
				} else if detail := spuriousDup(preNs, itemOfCall(c)); detail != "" {
					viol("C07", "a write was rejected as duplicate although the resulting collection would hold no two documents with equal keys under a unique index", "spurious-dup:"+c.M, detail)
				}
			})
		}
	case "createIndex":
		if reply == `{"err":"dup"}` {
			safely("spurious", func() {
				if detail := spuriousIndexDup(preNs, c); detail != "" {
					viol("C07", "a unique index build was rejected although no two documents share a key", "spurious-dup:createIndex", detail)
				}
			})
		}
	case "insertMany", "bulkWrite":
		if strings.Contains(reply, `"dup"`) && strings.HasPrefix(reply, `{"ok"`) {
			safely("spurious", func() {
				for _, detail := range batchSpurious(pre, c, reply) {
					viol("C07", "a batch item was rejected as duplicate although the collection at that point would hold no duplicate", "spurious-dup:"+c.M, detail)
				}
			})
		}
	}

	// C08
	safely("oplog", func() { m.oplogMonitors(c, reply, pre, post, preLog, postLog, events, viol) })

	// C13: find window
	if (c.M == "find" || c.M == "findOne" || c.M == "count") && strings.HasPrefix(reply, `{"ok"`) {
		safely("window", func() {
			if detail := m.findWindow(c, post); detail != "" {
				viol("C13", "Find returned a different window than filter → stable sort → skip → limit", "find-window", detail)
			}
		})
	}

	if (c.M == "findOneAndDelete" || c.M == "findOneAndReplace" || c.M == "findOneAndUpdate") && strings.HasPrefix(reply, `{"ok"`) {
		safely("target", func() {
			if detail := modifyTarget(c, pre, post); detail != "" {
				viol("C13", "a find-and-modify touched another document than the first match of filter → stable sort", "find-window:"+c.M, detail)
			}
		})
	}

	// C19: the listing reports exactly the seconds the index was created with
	if c.M == "listIndexes" && strings.HasPrefix(reply, `{"ok"`) {
		safely("ttl-listing", func() {
			if detail := ttlListing(reply, m.book[lungo.Handle{c.DB, c.Coll}]); detail != "" {
				viol("C19", "listIndexes does not report the expireAfterSeconds the index was created with", "ttl:listing-seconds", detail)
			}
		})
	}
	if c.M == "expire" && strings.HasPrefix(reply, `{"ok"`) {
		safely("ttl", func() {
			removedBad, keptBad := ttlOracle(pre, post, c.Now, m.book)
			if removedBad != "" {
				viol("C19", "Expire removed a document that is not expired", "ttl:wrong-removed", removedBad)
			}
			if keptBad != "" {
				viol("C19", "Expire kept an expired document", "ttl:wrong-kept", keptBad)
			}
		})
	}

	// tags
	st.tags = append(st.tags, "m:"+c.M)
	switch {
	case pan != "":
		st.tags = append(st.tags, "cls:panic")
	case reply == `{"err":"dup"}`:
		st.tags = append(st.tags, "cls:dup")
	case wholeError(reply):
		st.tags = append(st.tags, "cls:err")
	default:
		st.tags = append(st.tags, "cls:ok")
	}
	st.tags = append(st.tags, c.M+":"+strings.TrimPrefix(st.tags[len(st.tags)-1], "cls:"))
	changed := postDump != preDump
	if changed {
		st.tags = append(st.tags, "state-changed")
	}
	if strings.HasPrefix(reply, `{"ok"`) {
		switch c.M {
		case "updateOne", "updateMany", "replaceOne":
			if strings.Contains(reply, `"matched":0`) {
				st.tags = append(st.tags, "matched=0")
			} else {
				st.tags = append(st.tags, "matched>0")
			}
			if !strings.Contains(reply, `"modified":0`) {
				st.tags = append(st.tags, "modified>0")
			}
			if !strings.Contains(reply, `"upserted":null`) {
				st.tags = append(st.tags, "upserted")
			}
		case "find", "distinct", "listIndexes":
			if !strings.Contains(reply, `:[]}}`) {
				st.tags = append(st.tags, "result>0")
			}
		case "findOne", "findOneAndDelete", "findOneAndReplace", "findOneAndUpdate":
			if !strings.Contains(reply, `"doc":null`) {
				st.tags = append(st.tags, "result>0")
			}
		case "count", "estCount", "deleteOne", "deleteMany", "expire":
			if reply != `{"ok":{"n":0}}` {
				st.tags = append(st.tags, "result>0")
			}
		case "insertMany":
			if !strings.Contains(reply, `"err":null`) {
				st.tags = append(st.tags, "batch-errors")
			}
			if strings.Contains(reply, `"err":"dup"`) {
				st.tags = append(st.tags, "batch-dup")
			}
		case "bulkWrite":
			if !strings.Contains(reply, `"errors":[]`) {
				st.tags = append(st.tags, "batch-errors")
			}
			if strings.Contains(reply, `"dup"`) {
				st.tags = append(st.tags, "batch-dup")
			}
		case "createIndex":
			if changed {
				if c.Unique {
					st.tags = append(st.tags, "idx:unique")
				}
				if c.HasPartial {
					st.tags = append(st.tags, "idx:partial")
				}
				if c.HasTTL {
					st.tags = append(st.tags, "idx:ttl"+strconv.Itoa(int(c.TTL)))
				}
				if len(c.Keys) > 1 {
					st.tags = append(st.tags, "idx:compound")
				}
				if c.HasName {
					st.tags = append(st.tags, "idx:named")
				}
			} else {
				st.tags = append(st.tags, "idx:same-noop")
			}
		}
		st.nontrivial = changed || containsTag(st.tags, "result>0") || containsTag(st.tags, "matched>0")
	}
	return st
}

func containsTag(tags []string, t string) bool {
	for _, x := range tags {
		if x == t {
			return true
		}
	}
	return false
}

// probe: a locked transaction can be begun and aborted within two seconds.
func (m *apiRunner) probe() bool {
	ctx, cancel := context.WithTimeout(context.Background(), 2*time.Second)
	defer cancel()
	done := make(chan error, 1)
	go func() {
		txn, err := m.env.engine.Begin(ctx, true)
		if err == nil {
			m.env.engine.Abort(txn)
		}
		done <- err
	}()
	select {
	case err := <-done:
		return err == nil
	case <-time.After(3 * time.Second):
		return false
	}
}

// finish re-reads the snapshots held since earlier steps (before the final probe).
func (m *apiRunner) finish() (out []run.Violation) {
	viol := func(what, witness, detail string) {
		out = append(out, run.Violation{Property: "C03", What: what, Witness: witness, Req: m.histReq(), Detail: clip(detail, 1500)})
	}
	defer func() {
		if p := recover(); p != nil {
			out = append(out, run.Violation{Property: "C20", What: "monitor snapshot panicked", Witness: "monitor-panic:snapshot", Req: m.histReq(), Detail: fmt.Sprint(p)})
		}
	}()
	if m.heldCat != nil {
		if now := apiDump(m.heldCat); now != m.heldDump {
			viol(fmt.Sprintf("the catalog published by step %d reads differently at the end of the history", m.heldStep), "snapshot-mutated:held-catalog", dumpDiff(m.heldDump, now))
		}
	}
	if m.heldFind != nil {
		if now := encDocList(m.heldFind); now != m.heldFindJ {
			viol(fmt.Sprintf("the decoded result of the find of step %d changed", m.findStep), "snapshot-mutated:find-result", "was "+m.heldFindJ+" now "+now)
		}
	}
	if m.heldCursor != nil {
		var docs []bson.D
		now := ""
		if err := m.heldCursor.All(context.Background(), &docs); err != nil {
			now = errReply(err)
		} else {
			now = `{"ok":{"docs":` + encDocList(docs) + `}}`
		}
		if now != m.heldReply {
			viol(fmt.Sprintf("a cursor opened at step %d returns other documents at the end of the history", m.findStep), "snapshot-mutated:cursor", "was "+m.heldReply+" now "+now)
		}
	}
	return out
}

// finalProbe inserts into a scratch collection (after the last comparison of the history).
func (m *apiRunner) finalProbe() *run.Violation {
	done := make(chan string, 1)
	go func() {
		reply, _ := m.env.exec(&apiCall{M: "insertOne", DB: "zz", Coll: "probe", Doc: bson.D{{Key: "p", Value: int32(1)}}})
		done <- reply
	}()
	var reply string
	select {
	case reply = <-done:
	case <-time.After(5 * time.Second):
		reply = "timeout"
	}
	if strings.HasPrefix(reply, `{"ok"`) {
		return nil
	}
	return &run.Violation{Property: "C20", What: "probe insert into a scratch collection failed at the end of the history", Witness: "wedged-after:history", Req: m.histReq(), Detail: reply}
}

// ---- C02: batch oracle ----

type fixedStore struct{ cat *lungo.Catalog }

func (s *fixedStore) Load() (*lungo.Catalog, error) { return s.cat, nil }
func (s *fixedStore) Store(c *lungo.Catalog) error  { s.cat = c; return nil }

// rebuildCatalog builds an independent catalog with the same observable content.
func rebuildCatalog(c *lungo.Catalog) (*lungo.Catalog, bool) {
	out := &lungo.Catalog{Namespaces: map[lungo.Handle]*mongokit.Collection{}}
	for h, ns := range c.Namespaces {
		nc := mongokit.NewCollection(false)
		for name, ix := range ns.Indexes {
			nix, err := mongokit.CreateIndex(ix.Config())
			if err != nil {
				return nil, false
			}
			nc.Indexes[name] = nix
		}
		for _, d := range ns.Documents.List {
			if _, err := nc.Insert(bsonkit.Clone(d)); err != nil {
				return nil, false
			}
		}
		out.Namespaces[h] = nc
	}
	return out, true
}

// batchOracle replays the items of an InsertMany/BulkWrite one call at a time on a fresh
// engine holding the prior state and returns the resulting dump.
func batchOracle(pre *lungo.Catalog, c *apiCall) (string, bool) {
	cat, ok := rebuildCatalog(pre)
	if !ok {
		return "", false
	}
	env, err := openAPIEnv(&fixedStore{cat: cat})
	if err != nil {
		return "", false
	}
	defer env.engine.Close()
	var items []*apiCall
	if c.M == "insertMany" {
		for _, d := range c.Docs {
			items = append(items, &apiCall{M: "insertOne", DB: c.DB, Coll: c.Coll, Doc: d})
		}
	} else {
		for _, b := range c.Models {
			items = append(items, &apiCall{M: b.T, DB: c.DB, Coll: c.Coll, Doc: b.Doc, Q: b.Q, U: b.U, Repl: b.Repl, Upsert: b.Upsert, Filters: b.Filters, HasFilters: b.HasFilters})
		}
	}
	for _, it := range items {
		reply, _ := env.exec(it)
		if wholeError(reply) && c.Ordered {
			break
		}
	}
	return apiDump(env.engine.Catalog()), true
}

// ---- C07: unique indexes ----

// monTuples: own key-tuple extractor (Cartesian product of the expanded values per key field).
func monTuples(doc bsonkit.Doc, key bson.D) [][]interface{} {
	tuples := [][]interface{}{{}}
	for _, e := range key {
		v := ownValues(doc, e.Key)
		vals := []interface{}{v}
		if a, ok := v.(bson.A); ok && len(a) > 0 {
			vals = a
		}
		var next [][]interface{}
		for _, t := range tuples {
			for _, x := range vals {
				nt := append(append([]interface{}{}, t...), x)
				next = append(next, nt)
			}
		}
		tuples = next
	}
	return tuples
}

func tuplesShare(a, b [][]interface{}) bool {
	for _, x := range a {
		for _, y := range b {
			eq := len(x) == len(y)
			for i := 0; eq && i < len(x); i++ {
				eq = keyEq(x[i], y[i])
			}
			if eq {
				return true
			}
		}
	}
	return false
}

func under(cfg mongokit.IndexConfig, d bsonkit.Doc) bool {
	if cfg.Partial == nil {
		return true
	}
	ok, err := mongokit.Match(d, cfg.Partial)
	return err == nil && ok
}

func uniqueIndexNames(ns *mongokit.Collection) []string {
	var names []string
	for n, ix := range ns.Indexes {
		if ix.Config().Unique {
			names = append(names, n)
		}
	}
	sort.Strings(names)
	return names
}

func uniqueViolation(ns *mongokit.Collection) (string, bsonkit.Doc, bsonkit.Doc) {
	names := uniqueIndexNames(ns)
	if ns.Indexes["_id_"] == nil {
		names = append([]string{"_id_"}, names...) // `_id` is unique whatever happened to its index
	}
	for _, name := range names {
		cfg := mongokit.IndexConfig{Key: &bson.D{{Key: "_id", Value: int32(1)}}, Unique: true}
		if ix := ns.Indexes[name]; ix != nil {
			cfg = ix.Config()
		}
		var docs bsonkit.List
		var tps [][][]interface{}
		for _, d := range ns.Documents.List {
			if under(cfg, d) {
				docs = append(docs, d)
				tps = append(tps, monTuples(d, *cfg.Key))
			}
		}
		for i := range docs {
			for j := i + 1; j < len(docs); j++ {
				if tuplesShare(tps[i], tps[j]) {
					return name, docs[i], docs[j]
				}
			}
		}
	}
	return "", nil, nil
}

// collides: some unique index of the namespace holds a document sharing a key tuple with doc.
func collides(ns *mongokit.Collection, doc bson.D) bool {
	if ns == nil {
		return false
	}
	hasID := bsonkit.Get(&doc, "_id") != bsonkit.Missing
	for _, name := range uniqueIndexNames(ns) {
		if name == "_id_" && !hasID {
			continue // a fresh ObjectID is generated
		}
		cfg := ns.Indexes[name].Config()
		if !under(cfg, &doc) {
			continue
		}
		mine := monTuples(&doc, *cfg.Key)
		for _, d := range ns.Documents.List {
			if under(cfg, d) && tuplesShare(mine, monTuples(d, *cfg.Key)) {
				return true
			}
		}
	}
	return false
}

// ---- C08: oplog ----

func contentsOf(c *lungo.Catalog) map[lungo.Handle][]bson.D {
	out := map[lungo.Handle][]bson.D{}
	for h, ns := range c.Namespaces {
		if h == lungo.Oplog {
			continue
		}
		l := make([]bson.D, 0, len(ns.Documents.List))
		for _, d := range ns.Documents.List {
			l = append(l, *d)
		}
		out[h] = l
	}
	return out
}

// contentKey: namespaces with their documents as multisets (empty namespaces are ignored:
// creating a collection logs nothing).
func contentKey(m map[lungo.Handle][]bson.D) string {
	var parts []string
	for h, l := range m {
		if len(l) == 0 {
			continue
		}
		var ds []string
		for _, d := range l {
			ds = append(ds, vj.Enc(d))
		}
		sort.Strings(ds)
		parts = append(parts, h.String()+"\x00"+strings.Join(ds, "\x01"))
	}
	sort.Strings(parts)
	return strings.Join(parts, "\x02")
}

// sortedForm renders a value with document keys sorted recursively (equality up to field order).
func sortedForm(v interface{}) string {
	switch x := v.(type) {
	case bson.D:
		fs := make([]string, 0, len(x))
		for _, e := range x {
			fs = append(fs, run.JS(e.Key)+":"+sortedForm(e.Value))
		}
		sort.Strings(fs)
		return "{" + strings.Join(fs, ",") + "}"
	case bson.A:
		fs := make([]string, 0, len(x))
		for _, e := range x {
			fs = append(fs, sortedForm(e))
		}
		return "[" + strings.Join(fs, ",") + "]"
	default:
		return vj.Enc(v)
	}
}

func (m *apiRunner) oplogMonitors(c *apiCall, reply string, pre, post *lungo.Catalog, preLog, postLog, events bsonkit.List,
	viol func(prop, what, witness, detail string)) {
	// the old events are still there, untouched
	if len(postLog) < len(preLog) {
		viol("C08", "the oplog shrank during a short history", "oplog-shrank", fmt.Sprintf("%d -> %d", len(preLog), len(postLog)))
		return
	}
	for i := range preLog {
		if preLog[i] != postLog[i] {
			viol("C08", "an already logged event was replaced", "oplog-prefix-changed", strconv.Itoa(i))
			return
		}
	}
	// real timestamps strictly increase
	for i := len(preLog); i < len(postLog); i++ {
		if i == 0 {
			continue
		}
		a, _ := bsonkit.Get(postLog[i-1], "_id.ts").(primitive.Timestamp)
		b, _ := bsonkit.Get(postLog[i], "_id.ts").(primitive.Timestamp)
		if !(a.T < b.T || (a.T == b.T && a.I < b.I)) {
			viol("C08", "oplog timestamps are not strictly increasing", "oplog-ts-not-increasing", fmt.Sprintf("%v then %v", a, b))
		}
		if bsonkit.Compare(bsonkit.Get(postLog[i], "clusterTime"), b) != 0 {
			viol("C08", "clusterTime differs from _id.ts", "oplog-clustertime", vj.Enc(*postLog[i]))
		}
	}
	// failed calls log nothing
	if wholeError(reply) && len(events) > 0 {
		viol("C08", "a failed call appended oplog events", "event-on-noop", reply+" "+vj.Enc(*events[0]))
	}
	// replay
	state := contentsOf(pre)
	for h, l := range state {
		state[h] = append([]bson.D{}, l...)
	}
	before := contentKey(state)
	for _, evp := range events {
		ev := *evp
		op, _ := bsonkit.Get(evp, "operationType").(string)
		db, _ := bsonkit.Get(evp, "ns.db").(string)
		coll, _ := bsonkit.Get(evp, "ns.coll").(string)
		h := lungo.Handle{db, coll}
		idEnc := vj.Enc(bsonkit.Get(evp, "documentKey._id"))
		slot := -1
		for i, d := range state[h] {
			if vj.Enc(bsonkit.Get(&d, "_id")) == idEnc {
				slot = i
				break
			}
		}
		switch op {
		case "insert", "replace", "update":
			full, ok := bsonkit.Get(evp, "fullDocument").(bson.D)
			if !ok {
				viol("C08", "event without fullDocument", "oplog-replay:"+c.M, vj.Enc(ev))
				return
			}
			if vj.Enc(bsonkit.Get(&full, "_id")) != idEnc {
				viol("C08", "documentKey differs from the full document's _id", "oplog-replay:"+c.M, vj.Enc(ev))
			}
			if op == "insert" && slot >= 0 {
				viol("C08", "insert event for a present _id", "oplog-replay:"+c.M, vj.Enc(ev))
			}
			if op != "insert" && slot < 0 {
				viol("C08", op+" event for an absent _id", "oplog-replay:"+c.M, vj.Enc(ev))
			}
			if op == "update" && slot >= 0 {
				if detail := updateDescCheck(state[h][slot], evp, full); detail != "" {
					viol("C08", "updateDescription applied to the previous version does not give the new version", "update-description", detail)
				}
			}
			if slot >= 0 {
				state[h][slot] = full
			} else {
				state[h] = append(state[h], full)
			}
		case "delete":
			if slot < 0 {
				viol("C08", "delete event for an absent _id", "oplog-replay:"+c.M, vj.Enc(ev))
			} else {
				state[h] = append(append([]bson.D{}, state[h][:slot]...), state[h][slot+1:]...)
			}
		case "drop":
			delete(state, h)
		case "dropDatabase":
			for k := range state {
				if k[0] == db {
					delete(state, k)
				}
			}
		default:
			viol("C08", "unknown operationType", "oplog-replay:"+c.M, vj.Enc(ev))
		}
	}
	after := contentKey(contentsOf(post))
	if contentKey(state) != after {
		viol("C08", "replaying the appended events on the previous contents does not give the new contents", "oplog-replay:"+c.M,
			fmt.Sprintf("%d events; replayed %q actual %q", len(events), contentKey(state), after))
	}
	// C11: an update whose result is identical reports zero modified
	if (c.M == "updateOne" || c.M == "updateMany" || c.M == "replaceOne") && before == after &&
		strings.Contains(reply, `"modified":`) && !strings.Contains(reply, `"modified":0`) {
		viol("C11", "an update that left every document identical reports a non-zero modified count", "noop-reported-modified:"+c.M, reply)
	}
	if c.M != "bulkWrite" && len(events) > 0 && before == after {
		// drops of empty namespaces change the namespace set only
		onlyDrops := true
		for _, ev := range events {
			if op, _ := bsonkit.Get(ev, "operationType").(string); op != "drop" && op != "dropDatabase" {
				onlyDrops = false
			}
		}
		if !onlyDrops {
			viol("C08", "a call that changed nothing appended oplog events", "event-on-noop", vj.Enc(*events[0]))
		}
	}
}

func numericSeg(path string) bool {
	for _, s := range strings.Split(path, ".") {
		if s != "" && s[0] >= '0' && s[0] <= '9' {
			return true
		}
	}
	return false
}

// updateDescCheck applies updatedFields (ascending paths, Put) and removedFields (Unset) to
// the previous version and compares with the event's full document up to field order.
func updateDescCheck(prev bson.D, ev bsonkit.Doc, full bson.D) string {
	ud, ok := bsonkit.Get(ev, "updateDescription").(bson.D)
	if !ok {
		return "missing updateDescription: " + vj.Enc(*ev)
	}
	upd, _ := bsonkit.Get(&ud, "updatedFields").(bson.D)
	rem, _ := bsonkit.Get(&ud, "removedFields").(bson.A)
	doc := bsonkit.Clone(&prev)
	// truncatedArrays: [{field, newSize}] cut an array before the updated fields are applied
	if tr, ok := bsonkit.Get(&ud, "truncatedArrays").(bson.A); ok {
		for _, t := range tr {
			td, _ := t.(bson.D)
			field, _ := bsonkit.Get(&td, "field").(string)
			arr, isArr := bsonkit.Get(doc, field).(bson.A)
			size := int64(-1)
			switch n := bsonkit.Get(&td, "newSize").(type) {
			case int32:
				size = int64(n)
			case int64:
				size = n
			}
			if field == "" || !isArr || size < 0 || size > int64(len(arr)) {
				return "unusable truncatedArrays entry " + vj.Enc(t) + " for prev " + vj.Enc(prev)
			}
			if _, err := bsonkit.Put(doc, field, append(bson.A{}, arr[:size]...), false); err != nil {
				return "cannot truncate " + field
			}
		}
	}
	paths := make([]string, 0, len(upd))
	vals := map[string]interface{}{}
	for _, e := range upd {
		paths = append(paths, e.Key)
		vals[e.Key] = e.Value
	}
	sort.Strings(paths)
	for _, p := range paths {
		// a numeric segment addresses an array element only if the array existed; the
		// description of writes into arrays created by the same update is not replayable with Put
		if numericSeg(p) {
			parent := p[:strings.LastIndex(p, ".")]
			if _, isArr := bsonkit.Get(&prev, parent).(bson.A); !isArr {
				return ""
			}
		}
		cp := bsonkit.Clone(&bson.D{{Key: "v", Value: vals[p]}})
		if _, err := bsonkit.Put(doc, p, (*cp)[0].Value, false); err != nil {
			return "cannot put " + p + ": " + err.Error()
		}
	}
	for _, r := range rem {
		p, _ := r.(string)
		if numericSeg(p) {
			return ""
		}
		bsonkit.Unset(doc, p)
	}
	if sortedForm(*doc) != sortedForm(full) {
		return "prev " + vj.Enc(prev) + " desc " + vj.Enc(ud) + " gives " + vj.Enc(*doc) + " but full " + vj.Enc(full)
	}
	return ""
}

// ---- C13: find window oracle ----

func sortDirs(s bson.D) ([]bool, bool) {
	var rev []bool
	for _, e := range s {
		var d int
		switch x := e.Value.(type) {
		case int32:
			d = int(x)
		case int64:
			d = int(x)
		case float64:
			d = int(x)
		default:
			return nil, false
		}
		if d != 1 && d != -1 {
			return nil, false
		}
		rev = append(rev, d == -1)
	}
	return rev, true
}

// findWindow recomputes the ids of a Find / FindOne / CountDocuments window from
// Documents.List and compares them with an unprojected call through the driver.
func (m *apiRunner) findWindow(c *apiCall, cat *lungo.Catalog) string {
	ctx := context.Background()
	coll := m.env.client.Database(c.DB).Collection(c.Coll)
	limit := int64(0)
	if c.HasLimit {
		limit = c.Limit
	}
	hasSort := c.HasSort
	var got []bson.D
	gotN := int64(-1)
	switch c.M {
	case "find":
		o := options.Find()
		if c.HasSort {
			o.SetSort(c.Sort)
		}
		if c.HasSkip {
			o.SetSkip(c.Skip)
		}
		if c.HasLimit {
			o.SetLimit(c.Limit)
		}
		csr, err := coll.Find(ctx, c.Q, o)
		if err != nil {
			return ""
		}
		if err := csr.All(ctx, &got); err != nil {
			return ""
		}
	case "findOne":
		limit = 1
		o := options.FindOne()
		if c.HasSort {
			o.SetSort(c.Sort)
		}
		if c.HasSkip {
			o.SetSkip(c.Skip)
		}
		var d bson.D
		err := coll.FindOne(ctx, c.Q, o).Decode(&d)
		if err == nil {
			got = append(got, d)
		} else if err != mongo.ErrNoDocuments {
			return ""
		}
	default: // count
		hasSort = false
		o := options.Count()
		if c.HasSkip {
			o.SetSkip(c.Skip)
		}
		if c.HasLimit {
			o.SetLimit(c.Limit)
		}
		n, err := coll.CountDocuments(ctx, c.Q, o)
		if err != nil {
			return ""
		}
		gotN = n
	}
	ns := cat.Namespaces[lungo.Handle{c.DB, c.Coll}]
	if ns == nil {
		if len(got) > 0 || gotN > 0 {
			return "documents from a missing namespace"
		}
		return "" // Transaction.Find answers before looking at sort and skip
	}
	sel, verdict := sortedSelection(ns.Documents.List, c.Q, c.Sort, hasSort)
	if verdict != "" {
		if verdict == "no verdict" {
			return ""
		}
		return verdict
	}
	if c.HasSkip {
		if c.Skip < 0 {
			return "Find accepted a negative skip"
		}
		if int(c.Skip) >= len(sel) {
			sel = nil
		} else {
			sel = sel[c.Skip:]
		}
	}
	if limit > 0 && int(limit) < len(sel) {
		sel = sel[:limit]
	}
	if gotN >= 0 {
		if int64(len(sel)) != gotN {
			return fmt.Sprintf("count: want %d got %d", len(sel), gotN)
		}
		return ""
	}
	var want, have []string
	for _, d := range sel {
		want = append(want, vj.Enc(bsonkit.Get(d, "_id")))
	}
	for _, d := range got {
		have = append(have, vj.Enc(bsonkit.Get(&d, "_id")))
	}
	if strings.Join(want, ",") != strings.Join(have, ",") {
		return "want [" + strings.Join(want, ",") + "] got [" + strings.Join(have, ",") + "]"
	}
	return ""
}

// sortedSelection: the matching documents (real matcher) in stable sort order (own comparator: per
// key the minimum / maximum element of an array, exact numeric order). verdict "no verdict": the
// filter does not evaluate on some document.
func sortedSelection(list bsonkit.List, q bson.D, sortDoc bson.D, hasSort bool) (sel bsonkit.List, verdict string) {
	for _, d := range list {
		ok, err := mongokit.Match(d, &q)
		if err != nil {
			return nil, "no verdict" // the implementation may stop before the offending document
		}
		if ok {
			sel = append(sel, d)
		}
	}
	if hasSort && len(sortDoc) > 0 {
		rev, ok := sortDirs(sortDoc)
		if !ok {
			return nil, "a malformed sort was accepted: " + vj.Enc(sortDoc)
		}
		sort.SliceStable(sel, func(i, j int) bool {
			for k, e := range sortDoc {
				a := sortKeyOracle(bsonkit.Get(sel[i], e.Key), rev[k])
				b := sortKeyOracle(bsonkit.Get(sel[j], e.Key), rev[k])
				r := keyCmp(a, b)
				if rev[k] {
					r = -r
				}
				if r != 0 {
					return r < 0
				}
			}
			return false
		})
	}
	return sel, ""
}

// modifyTarget checks which document a findOneAndDelete / findOneAndReplace / findOneAndUpdate
// touched: the documents of the prior list that are gone from the new one (by identity) must be at
// most the FIRST matching document in stable sort order.
func modifyTarget(c *apiCall, pre, post *lungo.Catalog) string {
	h := lungo.Handle{c.DB, c.Coll}
	ns := pre.Namespaces[h]
	if ns == nil {
		return ""
	}
	sel, verdict := sortedSelection(ns.Documents.List, c.Q, c.Sort, c.HasSort)
	if verdict != "" {
		if verdict == "no verdict" {
			return ""
		}
		return verdict
	}
	still := map[bsonkit.Doc]bool{}
	if pn := post.Namespaces[h]; pn != nil {
		for _, d := range pn.Documents.List {
			still[d] = true
		}
	}
	var gone bsonkit.List
	for _, d := range ns.Documents.List {
		if !still[d] {
			gone = append(gone, d)
		}
	}
	idOf := func(d bsonkit.Doc) string { return vj.Enc(bsonkit.Get(d, "_id")) }
	switch {
	case len(gone) > 1:
		return fmt.Sprintf("%d documents were touched", len(gone))
	case len(gone) == 1 && len(sel) == 0:
		return "document " + idOf(gone[0]) + " was touched although nothing matches"
	case len(gone) == 1 && gone[0] != sel[0]:
		return "want " + idOf(sel[0]) + " (first of " + strconv.Itoa(len(sel)) + " in sort order) got " + idOf(gone[0])
	case len(gone) == 0 && len(sel) > 0 && c.M == "findOneAndDelete":
		return "the first matching document " + idOf(sel[0]) + " was not deleted"
	}
	return ""
}

// ---- C19: TTL oracle ----

// ttlListing checks the expireAfterSeconds fields of a listIndexes reply against the book.
func ttlListing(reply string, defs map[string]ixDef) string {
	v, ok := parseJSON(reply)
	if !ok {
		return ""
	}
	top, _ := v.(map[string]interface{})
	okv, _ := top["ok"].(map[string]interface{})
	raw, _ := okv["docs"].([]interface{})
	for _, x := range raw {
		dv, err := vj.FromRaw(x)
		if err != nil {
			return ""
		}
		d, _ := dv.(bson.D)
		name, _ := bsonkit.Get(&d, "name").(string)
		def, known := defs[name]
		if !known {
			continue
		}
		got := bsonkit.Get(&d, "expireAfterSeconds")
		switch {
		case def.hasTTL && got == bsonkit.Missing:
			return name + ": created with " + strconv.FormatInt(def.ttlSec, 10) + " s, listed without expireAfterSeconds"
		case def.hasTTL:
			if c, ok := exactCmp(got, def.ttlSec); !ok || c != 0 {
				return name + ": created with " + strconv.FormatInt(def.ttlSec, 10) + " s, listed with " + vj.Enc(got)
			}
		case got != bsonkit.Missing:
			return name + ": created without TTL, listed with " + vj.Enc(got)
		}
	}
	return ""
}

// ttlLeafs: the values a query on the path sees (array elements one level at the end,
// documents inside arrays along the way, numeric segments as array positions).
func ttlLeafs(v interface{}, segs []string, out *[]interface{}) {
	if len(segs) == 0 {
		if a, ok := v.(bson.A); ok {
			*out = append(*out, a...)
		}
		*out = append(*out, v)
		return
	}
	switch x := v.(type) {
	case bson.D:
		for _, e := range x {
			if e.Key == segs[0] {
				ttlLeafs(e.Value, segs[1:], out)
				return
			}
		}
	case bson.A:
		if i, err := strconv.Atoi(segs[0]); err == nil && i >= 0 && i < len(x) {
			ttlLeafs(x[i], segs[1:], out)
		}
		for _, el := range x {
			if d, ok := el.(bson.D); ok {
				ttlLeafs(d, segs, out)
			} else if _, nested := el.(bson.A); nested {
				// an array directly inside an array along the path: outside the core domain of
				// §8.2 (MongoDB does not descend, lungo's path walk does) — no verdict
				*out = append(*out, ttlOutOfDomain{})
			}
		}
	}
}

type ttlOutOfDomain struct{}

// ttlOracle: which documents an expiry pass at nowMs must remove. The TTL indexes and their
// lifetimes are the ones the successful createIndex calls of the history asked for (seconds, from the
// book — not the engine's stored duration); the cutoff is computed here in int64 milliseconds.
func ttlOracle(pre, post *lungo.Catalog, nowMs int64, book ixBook) (removedBad, keptBad string) {
	for _, h := range sortedHandles(pre) {
		if h == lungo.Oplog {
			continue
		}
		ns := pre.Namespaces[h]
		type ttl struct {
			field  string
			cutoff int64
		}
		var ttls []ttl
		booked := map[string]bool{}
		for name, def := range book[h] {
			booked[name] = true
			if def.hasTTL && len(def.keyDoc) > 0 {
				ttls = append(ttls, ttl{field: def.keyDoc[0].Key, cutoff: nowMs - def.ttlSec*1000})
			}
		}
		for name, ix := range ns.Indexes {
			// an index the book does not know (reported by C15): its own duration
			if cfg := ix.Config(); !booked[name] && cfg.Expiry > 0 {
				ttls = append(ttls, ttl{field: (*cfg.Key)[0].Key, cutoff: nowMs - int64(cfg.Expiry/time.Millisecond)})
			}
		}
		still := map[bsonkit.Doc]bool{}
		if pn := post.Namespaces[h]; pn != nil {
			for _, d := range pn.Documents.List {
				still[d] = true
			}
		}
		for _, d := range ns.Documents.List {
			expired, ood := false, false
			for _, t := range ttls {
				var leafs []interface{}
				ttlLeafs(*d, strings.Split(t.field, "."), &leafs)
				for _, l := range leafs {
					if dt, ok := l.(primitive.DateTime); ok && int64(dt) < t.cutoff {
						expired = true
					}
					if _, o := l.(ttlOutOfDomain); o {
						ood = true
					}
				}
			}
			if ood && !expired {
				continue
			}
			if expired && still[d] {
				keptBad = h.String() + " " + vj.Enc(*d)
			}
			if !expired && !still[d] {
				removedBad = h.String() + " " + vj.Enc(*d)
			}
		}
	}
	return
}
