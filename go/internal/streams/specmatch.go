package streams

import (
	"strconv"
	"strings"
	"sync"

	"go.mongodb.org/mongo-driver/bson"
	"go.mongodb.org/mongo-driver/bson/primitive"

	"verifharness/internal/gen"
	"verifharness/internal/model"
	"verifharness/internal/run"
	"verifharness/internal/vj"
)

// Stream "specmatch" (C10, agreement part): the REAL mongokit.Match against the reference
// semantics `Spec.matches` (DESIGN §8.3, lean/Lungo/Spec/Query.lean) on core-domain-biased
// (document, filter) pairs. Pairs the spec declares outside the core domain (§8.2) are accepted
// and tagged. A disagreement inside the domain is shrunk to one operator and reported as a
// violation "spec:<operator>:<reason>".

// specPool hands out model processes to the generator goroutines (the stream needs the spec's
// verdict to classify a case before the engine compares it).
var specPool = sync.Pool{}

func specAsk(req string) string {
	var p *model.Proc
	if x := specPool.Get(); x != nil {
		p = x.(*model.Proc)
	} else {
		var err error
		p, err = model.Start()
		if err != nil {
			return `{"bad":"cannot start model"}`
		}
	}
	reply, err := p.Ask(req)
	if err != nil {
		return `{"bad":"model process failed"}`
	}
	specPool.Put(p)
	return reply
}

func specReq(doc, q bson.D) string {
	return `{"op":"spec.match","d":` + vj.Enc(doc) + `,"q":` + vj.Enc(q) + `}`
}

// specDocPaths collects the paths of a document (with index and fan-out variants) and its scalar values.
func specDocPaths(v interface{}, prefix string, inArr bool, paths *[]string, vals *[]interface{}) {
	add := func(p string) {
		if p != "" {
			*paths = append(*paths, p)
		}
	}
	join := func(a, b string) string {
		if a == "" {
			return b
		}
		return a + "." + b
	}
	switch x := v.(type) {
	case bson.D:
		for _, e := range x {
			p := join(prefix, e.Key)
			add(p)
			specDocPaths(e.Value, p, false, paths, vals)
		}
	case bson.A:
		for i, e := range x {
			if d, ok := e.(bson.D); ok {
				// fan-out: same prefix; index: prefix.i
				specDocPaths(d, prefix, true, paths, vals)
				specDocPaths(d, join(prefix, strconv.Itoa(i)), false, paths, vals)
			} else {
				*vals = append(*vals, e)
				if i < 2 {
					add(join(prefix, strconv.Itoa(i)))
				}
			}
		}
	default:
		*vals = append(*vals, v)
	}
}

// fanDoc returns a document biased to arrays of sub-documents (fan-out paths), with array-valued,
// empty-array, null and absent sub-fields, and a second level of arrays of sub-documents.
func fanDoc(r *gen.R, depth int) bson.D {
	d := bson.D{}
	used := map[string]bool{}
	n := 1 + r.N(3)
	for i := 0; i < n; i++ {
		k := gen.Keys[r.N(len(gen.Keys))]
		if used[k] {
			continue
		}
		used[k] = true
		var v interface{}
		switch {
		case depth > 0 && r.P(55):
			m := r.N(4)
			a := bson.A{}
			for j := 0; j < m; j++ {
				switch {
				case r.P(70):
					a = append(a, fanDoc(r, depth-1))
				default:
					a = append(a, r.Scalar())
				}
			}
			v = a
		case r.P(25):
			m := r.N(4)
			a := bson.A{}
			for j := 0; j < m; j++ {
				a = append(a, r.Scalar())
			}
			v = a
		case depth > 0 && r.P(20):
			v = fanDoc(r, depth-1)
		default:
			v = r.Scalar()
		}
		d = append(d, bson.E{Key: k, Value: v})
	}
	return d
}

type biaser struct {
	r     *gen.R
	paths []string
	vals  []interface{}
	arrs  []bson.A // the array values of the document (members of $all: an array member equals a whole array value)
}

// existsDecs are Decimal128 arguments of $exists (in-domain since the repair of D6): zeros of either sign and
// any exponent and the "11" combination form (read as coefficient 0) are falsy; non-zero, NaN and the infinities truthy.
var existsDecs = func() []primitive.Decimal128 {
	out := []primitive.Decimal128{
		primitive.NewDecimal128(0x6000000000000000, 7), // "11" form: coefficient 0
		primitive.NewDecimal128(0x7c00000000000001, 5), // NaN with payload
		primitive.NewDecimal128(0xfc00000000000000, 0), // -NaN
	}
	for _, s := range []string{"0", "-0", "0E+3", "0E-5", "-0E+6111", "0.00", "1", "-1", "0.1", "1E-6176", "1E+3", "NaN", "Infinity", "-Infinity"} {
		d, err := primitive.ParseDecimal128(s)
		if err != nil {
			panic(err)
		}
		out = append(out, d)
	}
	return out
}()

// specDocArrays collects the array values of a document (at any depth).
func specDocArrays(v interface{}, out *[]bson.A) {
	switch x := v.(type) {
	case bson.D:
		for _, e := range x {
			specDocArrays(e.Value, out)
		}
	case bson.A:
		*out = append(*out, x)
		for _, e := range x {
			specDocArrays(e, out)
		}
	}
}

// arrMember returns an array-valued member for $all: mostly one of the document's own arrays (so that the
// member can equal a whole array value), a permutation/prefix of one, or a fresh array of document values.
func (b *biaser) arrMember() bson.A {
	if len(b.arrs) > 0 && b.r.P(75) {
		a := b.arrs[b.r.N(len(b.arrs))]
		switch {
		case len(a) > 1 && b.r.P(15):
			return append(bson.A{}, a[1:]...)
		case len(a) > 1 && b.r.P(15):
			c := append(bson.A{}, a...)
			c[0], c[len(c)-1] = c[len(c)-1], c[0]
			return c
		}
		return a
	}
	n := b.r.N(3)
	a := bson.A{}
	for i := 0; i < n; i++ {
		a = append(a, b.val(b.r.Scalar()))
	}
	return a
}

func (b *biaser) path(old string) string {
	if len(b.paths) > 0 && b.r.P(75) {
		return b.paths[b.r.N(len(b.paths))]
	}
	return old
}

func (b *biaser) val(old interface{}) interface{} {
	switch old.(type) {
	case bson.D, bson.A:
		if b.r.P(60) {
			return old
		}
	}
	if len(b.vals) > 0 && b.r.P(65) {
		return b.vals[b.r.N(len(b.vals))]
	}
	return old
}

// ops rewrites the comparison operands of an operator document towards the document's values.
func (b *biaser) ops(od bson.D) bson.D {
	out := make(bson.D, 0, len(od))
	for _, o := range od {
		switch o.Key {
		case "$eq", "$ne", "$gt", "$gte", "$lt", "$lte":
			o.Value = b.val(o.Value)
		case "$in", "$nin", "$all":
			if a, ok := o.Value.(bson.A); ok {
				na := make(bson.A, len(a))
				for i := range a {
					na[i] = b.val(a[i])
				}
				if len(na) == 0 && b.r.P(70) {
					na = append(na, b.val(nil))
				}
				// $all with array-valued members (in-domain without a fan-out since the repair of D7)
				if o.Key == "$all" && b.r.P(35) {
					if len(na) > 0 && b.r.P(50) {
						na[b.r.N(len(na))] = b.arrMember()
					} else {
						na = append(na, b.arrMember())
					}
				}
				o.Value = na
			}
		case "$exists":
			// Decimal128 arguments (in-domain since the repair of D6)
			if b.r.P(40) {
				o.Value = existsDecs[b.r.N(len(existsDecs))]
			}
		case "$not":
			if d, ok := o.Value.(bson.D); ok {
				o.Value = b.ops(d)
			}
		case "$elemMatch":
			if d, ok := o.Value.(bson.D); ok && len(d) > 0 {
				if strings.HasPrefix(d[0].Key, "$") {
					o.Value = b.ops(d)
				} else {
					nd := make(bson.D, len(d))
					for i, e := range d {
						if od2, ok := e.Value.(bson.D); ok && len(od2) > 0 && strings.HasPrefix(od2[0].Key, "$") {
							e.Value = b.ops(od2)
						} else {
							e.Value = b.val(e.Value)
						}
						// sub-paths of array elements: keep short keys
						if b.r.P(60) {
							e.Key = gen.Keys[b.r.N(len(gen.Keys))]
						}
						nd[i] = e
					}
					o.Value = nd
				}
			}
		case "$size":
			if b.r.P(50) {
				o.Value = int32(b.r.N(4))
			}
		}
		out = append(out, o)
	}
	return out
}

func (b *biaser) filter(q bson.D) bson.D {
	out := make(bson.D, 0, len(q))
	for _, e := range q {
		if strings.HasPrefix(e.Key, "$") {
			if a, ok := e.Value.(bson.A); ok {
				na := make(bson.A, len(a))
				for i := range a {
					if d, ok := a[i].(bson.D); ok {
						na[i] = b.filter(d)
					} else {
						na[i] = a[i]
					}
				}
				e.Value = na
			}
		} else {
			e.Key = b.path(e.Key)
			if od, ok := e.Value.(bson.D); ok && len(od) > 0 && strings.HasPrefix(od[0].Key, "$") {
				e.Value = b.ops(od)
			} else {
				e.Value = b.val(e.Value)
			}
		}
		out = append(out, e)
	}
	return out
}

// opNames lists the operators of a filter (recursively); literal conditions count as "literal".
func opNames(q bson.D, root bool, out *[]string) {
	for _, e := range q {
		if strings.HasPrefix(e.Key, "$") {
			*out = append(*out, e.Key)
			switch x := e.Value.(type) {
			case bson.A:
				if root {
					for _, m := range x {
						if d, ok := m.(bson.D); ok {
							opNames(d, true, out)
						}
					}
				}
			case bson.D:
				if e.Key == "$not" || e.Key == "$elemMatch" {
					opNames(x, false, out)
				}
			}
		} else if od, ok := e.Value.(bson.D); ok && len(od) > 0 && strings.HasPrefix(od[0].Key, "$") {
			opNames(od, false, out)
		} else {
			*out = append(*out, "literal")
		}
	}
}

// c10Feats reports whether a filter has a `$exists` with a Decimal128 argument / a `$all` with an array-valued member.
func c10Feats(q bson.D, decExists, arrAll *bool) {
	var walk func(v interface{})
	walk = func(v interface{}) {
		switch x := v.(type) {
		case bson.D:
			for _, e := range x {
				switch e.Key {
				case "$exists":
					if _, ok := e.Value.(primitive.Decimal128); ok {
						*decExists = true
					}
				case "$all":
					if a, ok := e.Value.(bson.A); ok {
						for _, m := range a {
							if _, ok := m.(bson.A); ok {
								*arrAll = true
							}
						}
					}
				}
				walk(e.Value)
			}
		case bson.A:
			for _, m := range x {
				walk(m)
			}
		}
	}
	walk(q)
}

// shrinkCands are the immediate sub-filters of q that could carry a disagreement on their own.
func shrinkCands(q bson.D) []bson.D {
	var out []bson.D
	if len(q) > 1 {
		for _, e := range q {
			out = append(out, bson.D{e})
		}
		return out
	}
	if len(q) == 0 {
		return nil
	}
	e := q[0]
	if strings.HasPrefix(e.Key, "$") {
		if a, ok := e.Value.(bson.A); ok {
			for _, m := range a {
				if d, ok := m.(bson.D); ok {
					out = append(out, d)
				}
			}
		}
		return out
	}
	od, ok := e.Value.(bson.D)
	if !ok || len(od) == 0 || !strings.HasPrefix(od[0].Key, "$") {
		return nil
	}
	if len(od) > 1 {
		for _, o := range od {
			out = append(out, bson.D{{Key: e.Key, Value: bson.D{o}}})
		}
		return out
	}
	if od[0].Key == "$not" {
		if d, ok := od[0].Value.(bson.D); ok {
			out = append(out, bson.D{{Key: e.Key, Value: d}})
		}
	}
	return out
}

func inDomainDisagreement(doc, q bson.D) bool {
	impl := matchReply(doc, q)
	spec := specAsk(specReq(doc, q))
	return !strings.HasPrefix(spec, `{"outside"`) && !strings.HasPrefix(spec, `{"unmodelled"`) && spec != impl
}

// shrink reduces an in-domain disagreement to a minimal sub-filter that still disagrees.
func shrink(doc, q bson.D) bson.D {
	for steps := 0; steps < 20; steps++ {
		progressed := false
		for _, c := range shrinkCands(q) {
			if inDomainDisagreement(doc, c) {
				q = c
				progressed = true
				break
			}
		}
		if !progressed {
			break
		}
	}
	return q
}

// classify names the operator and the reason class of a shrunk in-domain disagreement.
func classify(doc, q bson.D, impl string) string {
	if len(q) != 1 {
		return "spec:filter:unexplained"
	}
	e := q[0]
	if strings.HasPrefix(e.Key, "$") {
		return "spec:" + e.Key + ":unexplained"
	}
	od, ok := e.Value.(bson.D)
	if !ok || len(od) == 0 || !strings.HasPrefix(od[0].Key, "$") {
		return "spec:literal:unexplained"
	}
	op := od[0].Key
	dir := "impl-true"
	if impl != `{"ok":true}` {
		dir = "impl-false"
	}
	switch op {
	case "$size": // known finding D3
		return "spec:$size:" + dir
	}
	return "spec:" + op + ":unexplained"
}

// specCase executes one pair on the implementation and the spec and classifies it.
func specCase(doc, q bson.D) run.Case {
	impl := matchReply(doc, q)
	req := specReq(doc, q)
	tags := []string{}
	var names []string
	opNames(q, true, &names)
	seen := map[string]bool{}
	for _, n := range names {
		if !seen[n] {
			seen[n] = true
			tags = append(tags, "op:"+n)
		}
	}
	var decExists, arrAll bool
	c10Feats(q, &decExists, &arrAll)
	if decExists {
		tags = append(tags, "feat:$exists-decimal")
	}
	if arrAll {
		tags = append(tags, "feat:$all-array-member")
	}
	c := run.Case{Req: req, Impl: impl, Tags: tags}
	if run.NoModel {
		c.Req = ""
		return c
	}
	spec := specAsk(req)
	switch {
	case strings.HasPrefix(spec, `{"outside"`):
		c.Tags = append(c.Tags, "outside", "outside:"+strings.TrimSuffix(strings.TrimPrefix(spec, `{"outside":"`), `"}`))
		c.Accept = func(m string) bool { return m == spec }
	case strings.HasPrefix(spec, `{"unmodelled"`):
		c.Tags = append(c.Tags, "unmodelled")
		c.Accept = func(m string) bool { return m == spec }
	case spec == impl:
		c.Nontrivial = true
		c.Tags = append(c.Tags, "in-domain", "in-domain:"+strings.TrimSuffix(strings.TrimPrefix(impl, `{"ok":`), `}`))
		for _, n := range names {
			if !seen["in:"+n] {
				seen["in:"+n] = true
				c.Tags = append(c.Tags, "in-domain-op:"+n)
			}
		}
		res := strings.TrimSuffix(strings.TrimPrefix(impl, `{"ok":`), `}`)
		if decExists {
			c.Tags = append(c.Tags, "in-domain-feat:$exists-decimal", "in-domain-feat:$exists-decimal:"+res)
		}
		if arrAll {
			c.Tags = append(c.Tags, "in-domain-feat:$all-array-member", "in-domain-feat:$all-array-member:"+res)
		}
	default:
		// in-domain disagreement: shrink, classify, report as a violation (and accept the model
		// reply so that the same fact is not counted twice)
		small := shrink(doc, q)
		simpl := matchReply(doc, small)
		w := classify(doc, small, simpl)
		// every known deviation must lie outside the domain on which agreement is PROVED
		if px := specAsk(strings.Replace(specReq(doc, small), `{"op":"spec.match",`, `{"op":"spec.match","ex":true,`, 1)); !strings.HasPrefix(px, `{"outside"`) {
			w += ":INSIDE-PROVED-DOMAIN"
		}
		c.Tags = append(c.Tags, "in-domain", "deviation", "deviation:"+w)
		c.Viols = append(c.Viols, run.Violation{Property: "C10", What: "mongokit.Match differs from the reference semantics inside the core domain",
			Witness: w, Req: specReq(doc, small), Detail: "impl=" + simpl + " spec=" + specAsk(specReq(doc, small))})
		c.Accept = func(m string) bool { return m == spec }
	}
	return c
}

// specCorpus: directed pairs — the witnesses of the deviation classes found so far (D1 $type null, D2 $exists over
// empty-array candidates, D4 $elemMatch on non-documents, D5 $all over array-valued fan-out candidates, D6 decimal
// $exists argument, D7 $all with an array member: fixed in the code, in-domain, must agree now; D3 $size below two
// fan-outs: known finding) plus their agreeing neighbours.
func specCorpus() []run.Case {
	D := func(kv ...interface{}) bson.D {
		d := bson.D{}
		for i := 0; i+1 < len(kv); i += 2 {
			d = append(d, bson.E{Key: kv[i].(string), Value: kv[i+1]})
		}
		return d
	}
	one := int32(1)
	two := int32(2)
	dec := func(s string) primitive.Decimal128 {
		d, err := primitive.ParseDecimal128(s)
		if err != nil {
			panic(err)
		}
		return d
	}
	pairs := [][2]bson.D{
		// $type null vs absent / explicit null
		{D("b", one), D("a", D("$type", "null"))},
		{D("a", nil), D("a", D("$type", "null"))},
		{D("a", nil), D("a", D("$type", int32(10)))},
		// $exists over a fan-out whose only candidates are empty arrays
		{D("a", bson.A{D("b", bson.A{})}), D("a.b", D("$exists", true))},
		{D("a", bson.A{D("b", bson.A{})}), D("a.b", D("$exists", false))},
		{D("a", bson.A{D("b", bson.A{one})}), D("a.b", D("$exists", true))},
		{D("a", bson.A{D("c", one)}), D("a.b", D("$exists", true))},
		// $exists with a decimal argument (D6): 0, 1, then -0, 0E+3, "11" form, NaN, ±Infinity; present and absent field
		{D("a", one), D("a", D("$exists", gen.Decs[0]))},
		{D("a", one), D("a", D("$exists", gen.Decs[2]))},
		{D("a", one), D("a", D("$exists", dec("-0")))},
		{D("a", one), D("a", D("$exists", dec("0E+3")))},
		{D("a", one), D("a", D("$exists", dec("0E-5")))},
		{D("a", one), D("a", D("$exists", primitive.NewDecimal128(0x6000000000000000, 7)))},
		{D("a", one), D("a", D("$exists", dec("NaN")))},
		{D("a", one), D("a", D("$exists", dec("Infinity")))},
		{D("a", one), D("a", D("$exists", dec("-Infinity")))},
		{D("b", one), D("a", D("$exists", dec("0E+3")))},
		{D("b", one), D("a", D("$exists", dec("0.1")))},
		{D("a", bson.A{D("b", bson.A{})}), D("a.b", D("$exists", dec("-0")))},
		// $size below two fan-outs
		{D("a", bson.A{D("b", bson.A{D("c", one), D("c", two)})}), D("a.b.c", D("$size", two))},
		{D("a", bson.A{D("b", bson.A{D("c", bson.A{}), D("c", two)})}), D("a.b.c", D("$size", int32(0)))},
		{D("a", bson.A{D("b", bson.A{one, two})}), D("a.b", D("$size", two))},
		// $all over a fan-out with array-valued candidates (D5: the members are found in different candidates)
		{D("a", bson.A{D("b", bson.A{one}), D("b", two)}), D("a.b", D("$all", bson.A{one, two}))},
		{D("a", bson.A{D("b", bson.A{one}), D("b", bson.A{two})}), D("a.b", D("$all", bson.A{one, two}))},
		{D("a", bson.A{D("b", one), D("b", two)}), D("a.b", D("$all", bson.A{one, two}))},
		{D("a", bson.A{D("b", bson.A{one, two})}), D("a.b", D("$all", bson.A{one, two}))},
		{D("a", bson.A{D("b", bson.A{one}), D("b", two)}), D("a.b", D("$all", bson.A{one, int32(3)}))},
		{D("a", bson.A{D("b", bson.A{one}), D("c", two)}), D("a.b", D("$all", bson.A{one, two}))},
		// $all with an array member next to other members (D7; no fan-out)
		{D("a", bson.A{one, two}), D("a", D("$all", bson.A{bson.A{one, two}, one}))},
		{D("a", bson.A{one, two}), D("a", D("$all", bson.A{bson.A{one, two}}))},
		{D("a", bson.A{one, two}), D("a", D("$all", bson.A{bson.A{two, one}, one}))},
		{D("a", bson.A{one, two}), D("a", D("$all", bson.A{bson.A{one, two}, int32(3)}))},
		{D("a", bson.A{}), D("a", D("$all", bson.A{bson.A{}}))},
		{D("a", one), D("a", D("$all", bson.A{bson.A{one}}))},
		{D("b", one), D("a", D("$all", bson.A{nil}))},
		{D("a", bson.A{one, two}), D("a", D("$all", bson.A{}))},
		// $elemMatch, field form, on elements that are not documents
		{D("a", bson.A{one}), D("a", D("$elemMatch", D("b", nil)))},
		{D("a", bson.A{one}), D("a", D("$elemMatch", D("b", D("$exists", false))))},
		{D("a", bson.A{D("c", one)}), D("a", D("$elemMatch", D("b", nil)))},
		{D("a", bson.A{one, D("b", two)}), D("a", D("$elemMatch", D("b", two)))},
		// neighbours: null vs missing, fan-out comparisons
		{D("b", one), D("a", nil)},
		{D("a", bson.A{D("b", one), D("c", two)}), D("a.b", D("$ne", one))},
		{D("a", bson.A{D("b", bson.A{one, two}), D("b", int32(3))}), D("a.b", D("$gt", two))},
		{D("a", bson.A{D("b", bson.A{one, two}), D("b", int32(3))}), D("a.1.b", int32(3))},
		{D("a", bson.A{one, two}), D("a", bson.A{one, two})},
		{D("a", bson.A{one, two}), D("a.0", one)},
	}
	var out []run.Case
	for _, p := range pairs {
		out = append(out, specCase(p[0], p[1]))
	}
	return out
}

func init() {
	run.Register(&run.Stream{
		Name: "specmatch",
		Rule: "documents nested ≤3 without arrays in arrays × well-formed filters (operator grammar of stream match, nesting ≤2) rewritten towards the document's own paths and values; " +
			"the real mongokit.Match is compared with Spec.matches (DESIGN §8.3); pairs outside the core domain (§8.2) are accepted and tagged; " +
			"non-trivial = distinct in-domain case",
		Corpus: specCorpus,
		Gen: func(r *gen.R, idx int) []run.Case {
			var doc bson.D
			if r.P(50) {
				doc = fanDoc(r, 2)
			} else {
				doc = r.Doc(3, false, r.P(30))
			}
			q := Filter(r, 2, false)
			b := &biaser{r: r}
			specDocPaths(doc, "", false, &b.paths, &b.vals)
			specDocArrays(doc, &b.arrs)
			q = b.filter(q)
			return []run.Case{specCase(doc, q)}
		},
	})
}
