package streams

import (
	"math"
	"strconv"
	"strings"

	"go.mongodb.org/mongo-driver/bson"
	"go.mongodb.org/mongo-driver/bson/primitive"

	"github.com/256dpi/lungo"
	"github.com/256dpi/lungo/bsonkit"
	"github.com/256dpi/lungo/mongokit"

	"verifharness/internal/gen"
)

// Generator profile "idx" of the "api" stream (C07 / C15): histories on ONE collection that are
// built around an index scenario, chosen once per history:
//
//	partial   a partial index (unique or not; {f: {$gt: 0}}, {f: {$exists: true}}, {b: "s"}) is created
//	          first; inserts, replacements, updates and upserts then move documents into and out of the
//	          filter, and later writes collide with (or reuse) the key of a moved document
//	shift     a unique index over n = 1, 2, 3 … (both insertion orders, scalar or one-element arrays);
//	          multi-updates shift ($inc, $mul) or swap ($set with arrayFilters, $bit xor) the keys among
//	          the matched documents, single updates run into a neighbour
//	dupbuild  documents with duplicate keys (1 = 1.0, [1, 2] ∩ 2, null = missing) first, then a unique
//	          index build that must fail and leave nothing behind, removal of the duplicate, retry,
//	          colliding inserts
//	bulk      ordered / unordered BulkWrite with a successful modifying model BEFORE an update or
//	          replacement that fails for uniqueness, then models and single writes that reuse the keys involved
//	multikey  an index over an array field ("a" or "a.b"); documents whose fan-out yields no value
//	          ([], [1], [{}]), $push / $pop / $pull / $addToSet / $set of single elements change the arity
//
// A fifth to a third of the steps come from the general generator (noise on the same collection).
// All randomness is the history's own *gen.R.

type idxScen struct {
	kind    string
	key     string // the indexed field
	key2    string // second field of a compound key ("" = single)
	dir     int32
	unique  bool
	pkind   string // partial filter family: "", "gt", "exists", "eq"
	pfield  string // the field the partial filter looks at
	arr     bool   // shift: keys are one-element arrays
	sub     bool   // shift: keys are the field k of the documents of a one-element array (key "x.k"), marked by a field m
	desc    bool   // shift: documents inserted in descending key order
	named   bool
	phase   int
	marks   int
	cols    []string // wide: the 4–5 key columns
	dirs    []int32
	arrCol  int         // wide: the column that holds the array (the last or a middle one)
	cluster [2]int      // numkeys: the clusters of neighbouring numbers most keys come from
	lastKey interface{} // a key value that a recent write freed or tried to take
}

var idxScenKinds = []string{"partial", "partial", "shift", "shift", "dupbuild", "bulk", "bulk", "multikey", "multikey", "wide", "wide", "numkeys", "numkeys", "badfilter", "badfilter", "iddrop"}

func (g *apiGen) initIdx() {
	r := g.r
	s := &idxScen{kind: idxScenKinds[r.N(len(idxScenKinds))], dir: int32(1 - 2*r.N(2)), unique: true}
	switch s.kind {
	case "partial":
		s.unique = r.P(65)
		s.pkind = []string{"gt", "gt", "exists", "exists", "eq"}[r.N(5)]
		switch s.pkind {
		case "gt":
			s.key = []string{"a", "b"}[r.N(2)]
			s.pfield = []string{"x", "x", "x", s.key}[r.N(4)]
		case "exists":
			s.key = []string{"a", "b", "x"}[r.N(3)]
			s.pfield = []string{"a", "b", "x"}[r.N(3)]
		default:
			s.key = []string{"a", "x"}[r.N(2)]
			s.pfield = "b"
		}
		if r.P(25) {
			for _, k := range []string{"c", "x", "a"} {
				if k != s.key && k != s.pfield {
					s.key2 = k
					break
				}
			}
		}
	case "shift":
		s.key = []string{"x", "a"}[r.N(2)]
		switch k := r.N(100); {
		case k < 20:
			s.arr = true
		case k < 45:
			s.sub = true
			s.key += ".k"
		}
		s.desc = r.P(50)
		if r.P(20) {
			s.key2 = "b"
		}
		if r.P(20) && !s.sub {
			s.pkind, s.pfield = "gt", s.key
		}
	case "dupbuild":
		s.key = []string{"a", "b", "x"}[r.N(3)]
		if r.P(30) {
			s.pkind = []string{"gt", "exists"}[r.N(2)]
			s.pfield = []string{"x", "c"}[r.N(2)]
			if s.pfield == s.key {
				s.pfield = "c"
			}
		}
		s.named = r.P(30)
	case "bulk":
		s.key = []string{"a", "b", "x"}[r.N(3)]
		if r.P(20) {
			s.pkind, s.pfield = "exists", s.key
		}
	case "multikey":
		s.key = []string{"a", "a", "a.b"}[r.N(3)]
		s.unique = r.P(60)
		if r.P(20) {
			s.key2 = "x"
		}
	case "wide":
		all := []string{"a", "b", "c", "x", "y"}
		for i := len(all) - 1; i > 0; i-- {
			j := r.N(i + 1)
			all[i], all[j] = all[j], all[i]
		}
		n := 4 + r.N(2)
		s.cols = all[:n]
		for i := 0; i < n; i++ {
			s.dirs = append(s.dirs, int32(1-2*r.N(2)))
		}
		s.arrCol = n - 1
		if r.P(50) {
			s.arrCol = 1 + r.N(n-2) // a middle column
		}
		s.key = s.cols[0]
		if r.P(15) {
			s.pkind, s.pfield = "exists", s.cols[s.arrCol]
		}
	case "badfilter":
		s.key = []string{"a", "b"}[r.N(2)]
		s.unique = r.P(25)
		s.pfield = "x" // the condition that is evaluated first
		s.pkind = []string{"and-fields", "and-fields", "and-op", "same-field", "or"}[r.N(5)]
		s.named = r.P(25)
	case "iddrop":
		s.key = []string{"a", "b"}[r.N(2)]
	case "numkeys":
		s.cluster = [2]int{r.N(len(idxNumClusters)), r.N(len(idxNumClusters))}
		s.key = []string{"a", "b", "x"}[r.N(3)]
		if r.P(25) {
			s.key2 = "c"
		}
	}
	g.idx = s
}

// ---- values ----

// idxNum: the number n in one of the four numeric types (mostly int32).
func (g *apiGen) idxNum(n int) interface{} {
	switch k := g.r.N(100); {
	case k < 62:
		return int32(n)
	case k < 75:
		return int64(n)
	case k < 90:
		return float64(n)
	default:
		if n < -2 || n > 8 {
			return int32(n)
		}
		d, _ := primitive.ParseDecimal128([]string{"-2", "-1", "0", "1", "2", "3", "4", "5", "6", "7", "8"}[n+2])
		return d
	}
}

func (g *apiGen) idxPartial() (bson.D, bool) {
	s := g.idx
	bad := []string{"$exits", "$foo", "$regexx", "$gtt"}[g.idx.phase%4]
	switch s.pkind {
	// badfilter: the unknown operator is evaluated only for documents that pass x > 0 (or fail x ≤ 0)
	case "and-fields":
		return bson.D{{Key: "x", Value: bson.D{{Key: "$gt", Value: int32(0)}}}, {Key: "c", Value: bson.D{{Key: bad, Value: true}}}}, true
	case "and-op":
		return bson.D{{Key: "$and", Value: bson.A{bson.D{{Key: "x", Value: bson.D{{Key: "$gt", Value: int32(0)}}}}, bson.D{{Key: "c", Value: bson.D{{Key: bad, Value: int32(1)}}}}}}}, true
	case "same-field":
		return bson.D{{Key: "x", Value: bson.D{{Key: "$gt", Value: int32(0)}, {Key: bad, Value: int32(1)}}}}, true
	case "or":
		return bson.D{{Key: "$or", Value: bson.A{bson.D{{Key: "x", Value: bson.D{{Key: "$lte", Value: int32(0)}}}}, bson.D{{Key: "c", Value: bson.D{{Key: bad, Value: int32(1)}}}}}}}, true
	case "gt":
		return bson.D{{Key: s.pfield, Value: bson.D{{Key: "$gt", Value: g.idxNum(0)}}}}, true
	case "exists":
		return bson.D{{Key: s.pfield, Value: bson.D{{Key: "$exists", Value: true}}}}, true
	case "eq":
		return bson.D{{Key: s.pfield, Value: "s"}}, true
	}
	return nil, false
}

// idxInside / idxOutside: a value of the partial filter's field that passes / fails the filter
// (bsonkit.Missing = the field is absent).
func (g *apiGen) idxInside() interface{} {
	r := g.r
	switch g.idx.pkind {
	case "gt":
		if r.P(15) {
			return bson.A{g.idxNum(0), g.idxNum(1 + r.N(2))} // an array passes through any element
		}
		return g.idxNum(1 + r.N(3))
	case "exists":
		return []interface{}{g.idxNum(r.N(3)), nil, "s", bson.A{}}[r.N(4)]
	case "eq":
		if r.P(20) {
			return bson.A{"t", "s"}
		}
		return "s"
	}
	return g.idxNum(r.N(3))
}

func (g *apiGen) idxOutside() interface{} {
	r := g.r
	switch g.idx.pkind {
	case "gt":
		return []interface{}{g.idxNum(0), g.idxNum(-1), bsonkit.Missing, "s", nil, bson.A{g.idxNum(0)}}[r.N(6)]
	case "exists":
		return bsonkit.Missing
	case "eq":
		return []interface{}{"t", bsonkit.Missing, int32(1), bson.A{"t"}, nil}[r.N(5)]
	}
	return bsonkit.Missing
}

func (g *apiGen) idxUnder(d bsonkit.Doc) bool {
	s := g.idx
	if s.pkind == "" {
		return true
	}
	var f bson.D
	switch s.pkind {
	case "gt":
		f = bson.D{{Key: s.pfield, Value: bson.D{{Key: "$gt", Value: int32(0)}}}}
	case "exists":
		f = bson.D{{Key: s.pfield, Value: bson.D{{Key: "$exists", Value: true}}}}
	default:
		f = bson.D{{Key: s.pfield, Value: "s"}}
	}
	ok, err := mongokit.Match(d, &f)
	return err == nil && ok
}

// idxFreshID: a small integer `_id` that no stored document has (sometimes one that is taken).
func (g *apiGen) idxFreshID(docs bsonkit.List) interface{} {
	r := g.r
	// (not in kind badfilter: a document that is a duplicate under _id_ AND raises an error under the
	// bad filter fails with whichever index Go's map iteration visits first)
	if len(docs) > 0 && g.idx.kind != "badfilter" && r.P(6) {
		return idxCopy(bsonkit.Get(docs[r.N(len(docs))], "_id"))
	}
	for n := 1; n < 40; n++ {
		taken := false
		for _, d := range docs {
			if bsonkit.Compare(bsonkit.Get(d, "_id"), int32(n)) == 0 {
				taken = true
			}
		}
		if !taken {
			if r.P(10) {
				return float64(n)
			}
			return int32(n)
		}
	}
	return r.ID()
}

func idxCopy(v interface{}) interface{} {
	d := bsonkit.Clone(&bson.D{{Key: "v", Value: v}})
	return (*d)[0].Value
}

// idxKeyOf: the value of the indexed field of a stored document (a copy), and whether it has one.
func (g *apiGen) idxKeyOf(d bsonkit.Doc) (interface{}, bool) {
	v := bsonkit.Get(d, g.idxTopField())
	if v == bsonkit.Missing {
		return nil, false
	}
	return idxCopy(v), true
}

func (g *apiGen) idxTopField() string {
	if i := strings.IndexByte(g.idx.key, '.'); i >= 0 {
		return g.idx.key[:i]
	}
	return g.idx.key
}

// idxDoc builds a document with the given key value; inside decides on which side of the
// partial filter it lies (as far as the filter's field is not the key itself).
func (g *apiGen) idxDoc(id, key interface{}, inside bool) bson.D {
	s := g.idx
	d := bson.D{}
	if id != nil {
		d = append(d, bson.E{Key: "_id", Value: id})
	}
	top := g.idxTopField()
	if key != bsonkit.Missing {
		d = append(d, bson.E{Key: top, Value: key})
	}
	if s.pkind != "" && s.pfield != top {
		var v interface{}
		if inside {
			v = g.idxInside()
		} else {
			v = g.idxOutside()
		}
		if v != bsonkit.Missing {
			d = append(d, bson.E{Key: s.pfield, Value: v})
		}
	}
	if s.key2 != "" && g.r.P(85) {
		d = append(d, bson.E{Key: s.key2, Value: g.idxNum(g.r.N(2))})
	}
	if g.r.P(15) {
		d = append(d, bson.E{Key: "c", Value: g.idxNum(g.r.N(3))})
		if s.key2 == "c" || top == "c" || s.pfield == "c" {
			d = d[:len(d)-1]
		}
	}
	return d
}

func idByID(d bsonkit.Doc) bson.D {
	return bson.D{{Key: "_id", Value: idxCopy(bsonkit.Get(d, "_id"))}}
}

func (g *apiGen) idxCreate(c *apiCall) {
	s := g.idx
	c.M = "createIndex"
	c.Keys = bson.D{{Key: s.key, Value: s.dir}}
	if s.key2 != "" {
		c.Keys = append(c.Keys, bson.E{Key: s.key2, Value: int32(1 - 2*g.r.N(2))})
	}
	if len(s.cols) > 0 {
		c.Keys = bson.D{}
		for i, f := range s.cols {
			c.Keys = append(c.Keys, bson.E{Key: f, Value: s.dirs[i]})
		}
	}
	c.Unique = s.unique
	c.Partial, c.HasPartial = g.idxPartial()
	if s.named {
		c.HasName, c.Name = true, "custom"
	}
}

func (g *apiGen) idxHasSecondary(db, coll string) bool {
	return len(g.secondaryIndexNames(db, coll)) > 0
}

// idxWriteOne turns (target document, new content) into one of the single-document write calls.
// set / unset describe the change as an update; repl is the whole new document.
func (g *apiGen) idxWriteOne(c *apiCall, target bsonkit.Doc, set bson.D, unset []string, repl bson.D) {
	r := g.r
	upd := bson.D{}
	if len(set) > 0 {
		upd = append(upd, bson.E{Key: "$set", Value: set})
	}
	if len(unset) > 0 {
		u := bson.D{}
		for _, f := range unset {
			u = append(u, bson.E{Key: f, Value: ""})
		}
		upd = append(upd, bson.E{Key: "$unset", Value: u})
	}
	c.Q = idByID(target)
	switch k := r.N(100); {
	case k < 30:
		c.M, c.U, c.Upsert = "updateOne", upd, r.P(30)
	case k < 40:
		c.M, c.U = "updateMany", upd
	case k < 52:
		c.M, c.U, c.Upsert, c.After = "findOneAndUpdate", upd, r.P(30), r.P(50)
	case k < 75:
		c.M, c.Repl, c.Upsert = "replaceOne", repl, r.P(30)
	case k < 88:
		c.M, c.Repl, c.Upsert, c.After = "findOneAndReplace", repl, r.P(30), r.P(50)
		c.Sort, c.HasSort = g.sortSpec()
	default:
		c.M, c.Ordered = "bulkWrite", r.P(50)
		if r.P(50) {
			c.Models = []apiBulk{{T: "updateOne", Q: c.Q, U: upd, Upsert: r.P(30)}}
		} else {
			c.Models = []apiBulk{{T: "replaceOne", Q: c.Q, Repl: repl, Upsert: r.P(30)}}
		}
		c.Q = nil
	}
	if len(upd) == 0 && (c.M == "updateOne" || c.M == "updateMany" || c.M == "findOneAndUpdate") {
		c.M, c.Repl, c.U = "replaceOne", repl, nil
	}
}

// idxRewrite: the stored document with some fields set / removed (the replacement form of an update).
func idxRewrite(d bsonkit.Doc, set bson.D, unset []string, keepID bool) bson.D {
	out := bson.D{}
	drop := map[string]bool{}
	for _, f := range unset {
		drop[f] = true
	}
	done := map[string]bool{}
	for _, e := range *bsonkit.Clone(d) {
		if e.Key == "_id" && !keepID {
			continue
		}
		if drop[e.Key] {
			continue
		}
		for _, s := range set {
			if s.Key == e.Key {
				e.Value = idxCopy(s.Value)
				done[s.Key] = true
			}
		}
		out = append(out, e)
	}
	for _, s := range set {
		if !done[s.Key] {
			out = append(out, bson.E{Key: s.Key, Value: idxCopy(s.Value)})
		}
	}
	return out
}

// idxNext returns the next scenario call, or nil for a call of the general generator.
func (g *apiGen) idxNext(c *apiCall) *apiCall {
	s := g.idx
	db, coll := g.dbs[0], g.colls[0]
	c.DB, c.Coll = db, coll
	docs := g.docs(db, coll)
	s.phase++
	if s.phase > 3 && len(docs) > 1 && g.r.P(9) {
		if rc := g.idxRead(c, docs); rc != nil {
			return rc
		}
	}
	switch s.kind {
	case "partial":
		return g.idxPartialNext(c, docs)
	case "shift":
		return g.idxShiftNext(c, docs)
	case "dupbuild":
		return g.idxDupBuildNext(c, docs)
	case "bulk":
		return g.idxBulkNext(c, docs)
	case "multikey":
		return g.idxMultikeyNext(c, docs)
	case "wide":
		return g.idxWideNext(c, docs)
	case "numkeys":
		return g.idxNumKeysNext(c, docs)
	case "badfilter":
		return g.idxBadFilterNext(c, docs)
	case "iddrop":
		return g.idxIDDropNext(c, docs)
	}
	return nil
}

// idxRead: a read (or find-and-modify) whose sort specification is the key of an existing index of
// the collection — the order must still be "filter, stable sort, skip, limit" over ALL documents
// (also those outside a partial filter; ties in natural order).
func (g *apiGen) idxRead(c *apiCall, docs bsonkit.List) *apiCall {
	r := g.r
	ns := g.env.engine.Catalog().Namespaces[lungo.Handle{c.DB, c.Coll}]
	if ns == nil {
		return nil
	}
	names := g.indexNames(c.DB, c.Coll)
	if sec := g.secondaryIndexNames(c.DB, c.Coll); len(sec) > 0 && r.P(85) {
		names = sec
	}
	if len(names) == 0 {
		return nil
	}
	cfg := ns.Indexes[names[r.N(len(names))]].Config()
	c.Sort, c.HasSort = *cfg.Key, true
	if r.P(20) {
		// the reversed key is served by the same index read backwards
		rev := bson.D{}
		for _, e := range c.Sort {
			d, _ := e.Value.(int32)
			rev = append(rev, bson.E{Key: e.Key, Value: -d})
		}
		c.Sort = rev
	}
	switch k := r.N(100); {
	case k < 40:
		c.Q = bson.D{}
	case k < 55 && cfg.Partial != nil:
		c.Q = *cfg.Partial
	case k < 75 && len(docs) > 0:
		d := *docs[r.N(len(docs))]
		e := d[r.N(len(d))]
		if _, isRe := e.Value.(primitive.Regex); isRe {
			c.Q = bson.D{}
		} else {
			c.Q = bson.D{{Key: e.Key, Value: bson.D{{Key: []string{"$gte", "$lte", "$ne"}[r.N(3)], Value: idxCopy(e.Value)}}}}
		}
	default:
		c.Q = bson.D{{Key: c.Sort[0].Key, Value: bson.D{{Key: "$exists", Value: r.P(70)}}}}
	}
	switch k := r.N(100); {
	case k < 50:
		c.M = "find"
		if r.P(50) {
			c.HasSkip, c.Skip = true, int64(r.N(3))
		}
		if r.P(50) {
			c.HasLimit, c.Limit = true, int64(1+r.N(3))
		}
	case k < 70:
		c.M = "findOne"
		if r.P(40) {
			c.HasSkip, c.Skip = true, int64(r.N(3))
		}
	case k < 80:
		c.M = "findOneAndDelete"
	case k < 90:
		c.M, c.After = "findOneAndUpdate", r.P(50)
		c.U = bson.D{{Key: "$inc", Value: bson.D{{Key: "n", Value: int32(1)}}}}
	default:
		c.M, c.After = "findOneAndReplace", r.P(50)
		c.Repl = bson.D{{Key: "n", Value: int32(r.N(3))}}
		if len(docs) > 0 {
			c.Repl = idxRewrite(docs[r.N(len(docs))], bson.D{{Key: "n", Value: int32(r.N(3))}}, nil, false)
		}
	}
	return c
}

// ---- scenario: partial ----

func (g *apiGen) idxPartialNext(c *apiCall, docs bsonkit.List) *apiCall {
	r := g.r
	s := g.idx
	top := g.idxTopField()
	if s.phase == 1 {
		g.idxCreate(c)
		return c
	}
	if s.phase == 2 && r.P(40) {
		// a second index next to the partial one
		c.M = "createIndex"
		f := s.pfield
		if f == s.key || r.P(40) {
			f = []string{"c", "x", "b"}[r.N(3)]
		}
		c.Keys = bson.D{{Key: f, Value: int32(1 - 2*r.N(2))}}
		switch {
		case r.P(25) && f != s.pfield:
			// unique over the documents that have the field (the others would all share the key "missing")
			c.Unique = true
			c.HasPartial, c.Partial = true, bson.D{{Key: f, Value: bson.D{{Key: "$exists", Value: true}}}}
		case r.P(30):
			c.HasPartial, c.Partial = true, bson.D{{Key: top, Value: bson.D{{Key: "$exists", Value: true}}}}
		}
		return c
	}
	var in, out bsonkit.List
	for _, d := range docs {
		if g.idxUnder(d) {
			in = append(in, d)
		} else {
			out = append(out, d)
		}
	}
	k := r.N(100)
	if len(docs) < 2 {
		k = r.N(25)
	}
	keyVal := func() interface{} {
		if s.pkind == "gt" && s.pfield == top {
			return g.idxNum(r.N(4) - 1) // the key decides membership itself
		}
		if r.P(8) {
			return bson.A{g.idxNum(r.N(3)), g.idxNum(r.N(3))}
		}
		if r.P(6) {
			return nil
		}
		if r.P(6) {
			return bsonkit.Missing
		}
		return g.idxNum(r.N(3))
	}
	switch {
	case k < 25:
		// insert: key from the small pool, either side of the filter
		c.M = "insertOne"
		c.Doc = g.idxDoc(g.idxFreshID(docs), keyVal(), r.P(55))
		if r.P(15) {
			c.M, c.Ordered = "insertMany", r.P(50)
			c.Docs = []bson.D{c.Doc, g.idxDoc(g.idxFreshID(append(append(bsonkit.List{}, docs...), &c.Doc)), keyVal(), r.P(55))}
			c.Doc = nil
		}
		return c
	case k < 50 && len(docs) > 0:
		// move a document across the filter boundary; its key is (often) the key of a document on the other side
		var d bsonkit.Doc
		toInside := r.P(50)
		if toInside && len(out) > 0 {
			d = out[r.N(len(out))]
		} else if len(in) > 0 {
			d, toInside = in[r.N(len(in))], false
		} else {
			d, toInside = docs[r.N(len(docs))], true
		}
		set := bson.D{}
		var unset []string
		if s.pfield != top {
			var v interface{}
			if toInside {
				v = g.idxInside()
			} else {
				v = g.idxOutside()
			}
			if v == bsonkit.Missing {
				unset = append(unset, s.pfield)
			} else {
				set = append(set, bson.E{Key: s.pfield, Value: v})
			}
			// take over the key of a document on the side it moves to (collision) or keep its own
			other := in
			if !toInside {
				other = out
			}
			if len(other) > 0 && r.P(35) {
				if kv, ok := g.idxKeyOf(other[r.N(len(other))]); ok {
					set = append(set, bson.E{Key: top, Value: kv})
				}
			}
		} else {
			// the filter looks at the key: the move is a key change
			if toInside {
				set = append(set, bson.E{Key: top, Value: g.idxInside()})
			} else if v := g.idxOutside(); v == bsonkit.Missing {
				unset = append(unset, top)
			} else {
				set = append(set, bson.E{Key: top, Value: v})
			}
		}
		if kv, ok := g.idxKeyOf(d); ok {
			s.lastKey = kv
		}
		if s.pkind == "gt" && s.pfield != top && r.P(30) {
			// arithmetic moves: $inc / $mul on the filter's field
			c.Q = idByID(d)
			c.M = []string{"updateOne", "updateMany", "findOneAndUpdate"}[r.N(3)]
			if r.P(50) {
				c.U = bson.D{{Key: "$inc", Value: bson.D{{Key: s.pfield, Value: int32(1 - 2*r.N(2))}}}}
			} else {
				c.U = bson.D{{Key: "$mul", Value: bson.D{{Key: s.pfield, Value: int32(r.N(3) - 1)}}}}
			}
			if r.P(30) {
				c.Q = bson.D{{Key: s.pfield, Value: bson.D{{Key: []string{"$gt", "$lte"}[r.N(2)], Value: int32(0)}}}}
			}
			return c
		}
		g.idxWriteOne(c, d, set, unset, idxRewrite(d, set, unset, r.P(40)))
		return c
	case k < 68 && len(docs) > 0:
		// collide with (or reuse) a key: of a stored document, or the one a move has just freed
		d := docs[r.N(len(docs))]
		kv, ok := g.idxKeyOf(d)
		if s.lastKey != nil && r.P(40) {
			kv, ok = idxCopy(s.lastKey), true
		}
		if !ok {
			kv = bsonkit.Missing
		}
		inside := r.P(75)
		switch r.N(5) {
		case 0, 1:
			c.M = "insertOne"
			c.Doc = g.idxDoc(g.idxFreshID(docs), kv, inside)
		case 2:
			// upsert: the key comes from the filter or from the update, the filter's field from $set or $setOnInsert
			c.M = []string{"updateOne", "findOneAndUpdate", "updateMany"}[r.N(3)]
			c.Upsert = true
			c.Q = bson.D{{Key: "_id", Value: g.idxFreshID(docs)}}
			nd := g.idxDoc(nil, kv, inside)
			if kv != bsonkit.Missing && r.P(50) {
				c.Q = append(c.Q, bson.E{Key: top, Value: kv})
				nd = idxRewrite(&nd, nil, []string{top}, true)
			}
			var set, soi bson.D
			for _, e := range nd {
				if e.Key == s.pfield && r.P(60) {
					soi = append(soi, e)
				} else {
					set = append(set, e)
				}
			}
			if len(set) > 0 {
				c.U = append(c.U, bson.E{Key: "$set", Value: set})
			}
			if len(soi) > 0 {
				c.U = append(c.U, bson.E{Key: "$setOnInsert", Value: soi})
			}
			if len(c.U) == 0 {
				c.U = bson.D{{Key: "$set", Value: bson.D{{Key: "c", Value: int32(1)}}}}
			}
		case 3:
			c.M = []string{"replaceOne", "findOneAndReplace"}[r.N(2)]
			c.Upsert = true
			c.Q = bson.D{{Key: "_id", Value: g.idxFreshID(docs)}}
			c.Repl = g.idxDoc(nil, kv, inside)
		default:
			// another stored document takes the key
			o := docs[r.N(len(docs))]
			set := bson.D{}
			var unset []string
			if kv == bsonkit.Missing {
				unset = append(unset, top)
			} else {
				set = append(set, bson.E{Key: top, Value: kv})
			}
			g.idxWriteOne(c, o, set, unset, idxRewrite(o, set, unset, r.P(40)))
		}
		return c
	case k < 76 && len(docs) > 0:
		// plain key change
		d := docs[r.N(len(docs))]
		if kv, ok := g.idxKeyOf(d); ok {
			s.lastKey = kv
		}
		c.Q = idByID(d)
		c.M = []string{"updateOne", "findOneAndUpdate"}[r.N(2)]
		if r.P(50) {
			c.U = bson.D{{Key: "$inc", Value: bson.D{{Key: top, Value: int32(1 - 2*r.N(2))}}}}
		} else {
			c.U = bson.D{{Key: "$set", Value: bson.D{{Key: top, Value: g.idxNum(r.N(4))}}}}
		}
		return c
	case k < 83 && len(docs) > 0:
		d := docs[r.N(len(docs))]
		if kv, ok := g.idxKeyOf(d); ok {
			s.lastKey = kv
		}
		c.M = []string{"deleteOne", "findOneAndDelete", "deleteMany"}[r.N(3)]
		c.Q = idByID(d)
		return c
	case k < 88:
		// index management over existing data: drop and re-create the partial index, or a sibling
		if sec := g.secondaryIndexNames(c.DB, c.Coll); len(sec) > 0 && r.P(40) {
			c.M, c.Name = "dropIndex", sec[r.N(len(sec))]
			return c
		}
		g.idxCreate(c)
		if r.P(25) {
			c.Unique = !c.Unique
		}
		return c
	case k < 92:
		c.M = []string{"listIndexes", "find", "count"}[r.N(3)]
		if c.M != "listIndexes" {
			c.Q, _ = g.idxPartial()
		}
		return c
	}
	return nil
}

// ---- scenario: shift ----

func (g *apiGen) idxShiftVal(n int) interface{} {
	if g.idx.arr {
		return bson.A{g.idxNum(n)}
	}
	if g.idx.sub {
		g.idx.marks++
		return bson.A{bson.D{{Key: "k", Value: g.idxNum(n)}, {Key: "m", Value: "m" + strconv.Itoa(g.idx.marks)}}}
	}
	return g.idxNum(n)
}

func (g *apiGen) idxShiftNext(c *apiCall, docs bsonkit.List) *apiCall {
	r := g.r
	s := g.idx
	top := g.idxTopField()
	path := top
	if s.arr {
		path = top + ".$[]"
	} else if s.sub {
		path = top + ".$[].k"
	}
	if s.phase == 1 {
		g.idxCreate(c)
		return c
	}
	if s.phase == 2 || (len(docs) < 2 && r.P(60)) {
		n := 2 + r.N(3)
		c.M, c.Ordered = "insertMany", r.P(60)
		for i := 1; i <= n; i++ {
			v := i
			if s.desc {
				v = n + 1 - i
			}
			d := bson.D{{Key: "_id", Value: g.idxFreshID(docs)}, {Key: top, Value: g.idxShiftVal(v)}}
			if len(c.Docs) > 0 {
				d[0].Value = int32(20*s.phase + i)
			}
			if s.key2 != "" {
				d = append(d, bson.E{Key: s.key2, Value: int32(0)})
				if r.P(30) {
					d[len(d)-1].Value = int32(r.N(2))
				}
			}
			c.Docs = append(c.Docs, d)
		}
		return c
	}
	typed := func(n int) interface{} {
		switch r.N(6) {
		case 0:
			return int64(n)
		case 1:
			return float64(n)
		}
		return int32(n)
	}
	rangeQ := func() bson.D {
		switch r.N(5) {
		case 0:
			return bson.D{{Key: s.key, Value: bson.D{{Key: "$gte", Value: int32(1 + r.N(3))}}}}
		case 1:
			return bson.D{{Key: s.key, Value: bson.D{{Key: "$lte", Value: int32(1 + r.N(3))}}}}
		}
		return bson.D{}
	}
	switch k := r.N(100); {
	case k < 30:
		c.M, c.Q = "updateMany", rangeQ()
		c.U = bson.D{{Key: "$inc", Value: bson.D{{Key: path, Value: typed([]int{1, -1, 1, -1, 2, -2, 10}[r.N(7)])}}}}
		return c
	case k < 42:
		c.M, c.Q = "updateMany", rangeQ()
		c.U = bson.D{{Key: "$mul", Value: bson.D{{Key: path, Value: typed([]int{2, -1, 0, 1, 3}[r.N(5)])}}}}
		return c
	case k < 57:
		// swap two keys in ONE multi-update
		lo, hi := 1+r.N(3), 1+r.N(3)
		if lo == hi {
			hi = lo + 1
		}
		c.M, c.Q = "updateMany", bson.D{}
		if s.sub {
			// the array filters look at the marks, the update exchanges the keys of two marked elements
			type el struct {
				m string
				k interface{}
			}
			var els []el
			for _, d := range docs {
				if a, ok := bsonkit.Get(d, top).(bson.A); ok {
					for _, x := range a {
						if xd, ok := x.(bson.D); ok {
							m, _ := bsonkit.Get(&xd, "m").(string)
							if kv := bsonkit.Get(&xd, "k"); m != "" && kv != bsonkit.Missing {
								els = append(els, el{m, idxCopy(kv)})
							}
						}
					}
				}
			}
			if len(els) < 2 {
				return nil
			}
			i := r.N(len(els))
			j := (i + 1 + r.N(len(els)-1)) % len(els)
			c.U = bson.D{{Key: "$set", Value: bson.D{{Key: top + ".$[p].k", Value: els[j].k}, {Key: top + ".$[q].k", Value: els[i].k}}}}
			c.Filters, c.HasFilters = []bson.D{{{Key: "p.m", Value: els[i].m}}, {{Key: "q.m", Value: els[j].m}}}, true
			if r.P(20) {
				// one-way: p takes q's key, q keeps it
				c.U = bson.D{{Key: "$set", Value: bson.D{{Key: top + ".$[p].k", Value: els[j].k}}}}
				c.Filters = c.Filters[:1]
			}
		} else if s.arr {
			c.U = bson.D{{Key: "$set", Value: bson.D{{Key: top + ".$[lo]", Value: g.idxNum(hi)}, {Key: top + ".$[hi]", Value: g.idxNum(lo)}}}}
			c.Filters, c.HasFilters = []bson.D{{{Key: "lo", Value: int32(lo)}}, {{Key: "hi", Value: int32(hi)}}}, true
			if r.P(25) {
				// one-way: only lo → hi (collides unless hi is free)
				c.U = bson.D{{Key: "$set", Value: bson.D{{Key: top + ".$[lo]", Value: g.idxNum(hi)}}}}
				c.Filters = c.Filters[:1]
			}
		} else {
			// xor with lo^hi exchanges lo and hi (and moves the other keys elsewhere)
			c.U = bson.D{{Key: "$bit", Value: bson.D{{Key: top, Value: bson.D{{Key: "xor", Value: int32(lo ^ hi)}}}}}}
			if r.P(60) {
				c.Q = bson.D{{Key: top, Value: bson.D{{Key: "$in", Value: bson.A{int32(lo), int32(hi)}}}}}
			}
			if r.P(30) {
				// key ↦ 4 − key through two operators is not expressible; $mul −1 then a later $inc does it in two calls
				c.U = bson.D{{Key: "$mul", Value: bson.D{{Key: top, Value: int32(-1)}}}}
			}
		}
		return c
	case k < 68 && len(docs) > 0:
		// a single document steps onto (or away from) its neighbour
		d := docs[r.N(len(docs))]
		c.M = []string{"updateOne", "findOneAndUpdate", "updateOne"}[r.N(3)]
		c.Q = idByID(d)
		c.U = bson.D{{Key: "$inc", Value: bson.D{{Key: path, Value: typed(1 - 2*r.N(2))}}}}
		if c.M == "findOneAndUpdate" && r.P(60) {
			c.Q = bson.D{}
			c.Sort, c.HasSort = bson.D{{Key: s.key, Value: int32(1 - 2*r.N(2))}}, true
			c.After = r.P(50)
		}
		return c
	case k < 80:
		c.M = "insertOne"
		c.Doc = bson.D{{Key: "_id", Value: g.idxFreshID(docs)}, {Key: top, Value: g.idxShiftVal(r.N(6))}}
		if s.key2 != "" {
			c.Doc = append(c.Doc, bson.E{Key: s.key2, Value: int32(0)})
		}
		return c
	case k < 86 && len(docs) > 0:
		c.M, c.Q = "deleteOne", idByID(docs[r.N(len(docs))])
		return c
	case k < 90:
		c.M = "bulkWrite"
		c.Ordered = r.P(50)
		c.Models = []apiBulk{
			{T: "updateMany", Q: bson.D{}, U: bson.D{{Key: "$inc", Value: bson.D{{Key: path, Value: int32(1)}}}}},
			{T: "insertOne", Doc: bson.D{{Key: "_id", Value: g.idxFreshID(docs)}, {Key: top, Value: g.idxShiftVal(1)}}},
			{T: "updateMany", Q: bson.D{}, U: bson.D{{Key: "$inc", Value: bson.D{{Key: path, Value: int32(-1)}}}}},
		}
		return c
	}
	return nil
}

// ---- scenario: dupbuild ----

func (g *apiGen) idxDupBuildNext(c *apiCall, docs bsonkit.List) *apiCall {
	r := g.r
	s := g.idx
	top := s.key
	has := g.idxHasSecondary(c.DB, c.Coll)
	dupVal := func() interface{} {
		switch r.N(10) {
		case 0:
			return nil
		case 1:
			return bsonkit.Missing
		case 2:
			return bson.A{g.idxNum(1), g.idxNum(2)}
		case 3:
			return bson.A{}
		}
		return g.idxNum(1 + r.N(2))
	}
	// the documents that share a key with another one (within the filter), by an own pairwise scan
	var dups bsonkit.List
	key := bson.D{{Key: top, Value: int32(1)}}
	for i, d := range docs {
		for j, e := range docs {
			if i != j && g.idxUnder(d) && g.idxUnder(e) && tuplesShare(monTuples(d, key), monTuples(e, key)) {
				dups = append(dups, d)
				break
			}
		}
	}
	k := r.N(100)
	switch {
	case !has && (s.phase <= 2 || (len(dups) == 0 && k < 50)):
		// documents with duplicate keys (no index yet: all accepted)
		c.M = "insertOne"
		c.Doc = g.idxDoc(g.idxFreshID(docs), dupVal(), r.P(80))
		if s.phase == 1 && r.P(50) {
			c.M, c.Ordered = "insertMany", r.P(50)
			c.Docs = []bson.D{c.Doc, g.idxDoc(int32(31), dupVal(), r.P(80)), g.idxDoc(int32(32), dupVal(), r.P(80))}
			c.Doc = nil
		}
		return c
	case !has && k < 30:
		g.idxCreate(c) // fails while duplicates exist; must leave no trace
		return c
	case !has && k < 60 && len(dups) > 0:
		// remove one duplicate: delete it, change its key, or move it out of the filter
		d := dups[r.N(len(dups))]
		switch {
		case r.P(50):
			c.M, c.Q = []string{"deleteOne", "findOneAndDelete"}[r.N(2)], idByID(d)
		case s.pkind != "" && r.P(50):
			set := bson.D{}
			var unset []string
			if v := g.idxOutside(); v == bsonkit.Missing {
				unset = []string{s.pfield}
			} else {
				set = bson.D{{Key: s.pfield, Value: v}}
			}
			g.idxWriteOne(c, d, set, unset, idxRewrite(d, set, unset, true))
		default:
			set := bson.D{{Key: top, Value: g.idxNum(3 + r.N(4))}}
			g.idxWriteOne(c, d, set, nil, idxRewrite(d, set, nil, true))
		}
		return c
	case !has && k < 75:
		g.idxCreate(c)
		return c
	case !has && k < 80:
		c.M = "listIndexes"
		return c
	case has && k < 45 && len(docs) > 0:
		// the index exists: colliding and free keys
		d := docs[r.N(len(docs))]
		kv, ok := g.idxKeyOf(d)
		if !ok || r.P(30) {
			kv = dupVal()
		}
		c.M = "insertOne"
		c.Doc = g.idxDoc(g.idxFreshID(docs), kv, r.P(80))
		return c
	case has && k < 60 && len(docs) > 1:
		d, o := docs[r.N(len(docs))], docs[r.N(len(docs))]
		kv, ok := g.idxKeyOf(o)
		if !ok {
			kv = g.idxNum(1)
		}
		set := bson.D{{Key: top, Value: kv}}
		g.idxWriteOne(c, d, set, nil, idxRewrite(d, set, nil, true))
		return c
	case has && k < 68:
		sec := g.secondaryIndexNames(c.DB, c.Coll)
		c.M, c.Name = "dropIndex", sec[r.N(len(sec))]
		return c
	case has && k < 76:
		g.idxCreate(c) // same definition: no-op
		if r.P(40) {
			c.Unique = false // conflicting definition
		}
		return c
	}
	return nil
}

// ---- scenario: bulk ----

func (g *apiGen) idxBulkNext(c *apiCall, docs bsonkit.List) *apiCall {
	r := g.r
	s := g.idx
	top := s.key
	if s.phase == 1 {
		g.idxCreate(c)
		return c
	}
	if s.phase == 2 || len(docs) < 3 {
		c.M, c.Ordered = "insertMany", true
		n := 3 + r.N(2)
		base := 10 * s.phase
		for i := 1; i <= n; i++ {
			c.Docs = append(c.Docs, bson.D{{Key: "_id", Value: int32(base + i)}, {Key: top, Value: g.idxNum(base + i)}})
		}
		if s.phase == 2 {
			for i := range c.Docs {
				c.Docs[i][0].Value = int32(i + 1)
				c.Docs[i][1].Value = g.idxNum(i + 1)
			}
		}
		return c
	}
	keyOf := func(d bsonkit.Doc) interface{} {
		if v, ok := g.idxKeyOf(d); ok {
			return v
		}
		return bsonkit.Missing
	}
	fresh := func() interface{} { return g.idxNum(5 + r.N(4)) }
	setKey := func(v interface{}) bson.D {
		if v == bsonkit.Missing {
			return bson.D{{Key: "$unset", Value: bson.D{{Key: top, Value: ""}}}}
		}
		return bson.D{{Key: "$set", Value: bson.D{{Key: top, Value: v}}}}
	}
	withKey := func(v interface{}) bson.D {
		if v == bsonkit.Missing {
			return bson.D{{Key: "c", Value: int32(1)}}
		}
		return bson.D{{Key: top, Value: v}}
	}
	switch k := r.N(100); {
	case k < 50:
		// [successful modifying model, model that fails for uniqueness, models that reuse the keys]
		perm := []int{0, 1, 2}
		for i := 2; i > 0; i-- {
			j := r.N(i + 1)
			perm[i], perm[j] = perm[j], perm[i]
		}
		a, b, cc := docs[perm[0]%len(docs)], docs[perm[1]%len(docs)], docs[perm[2]%len(docs)]
		ka, kb, kc := keyOf(a), keyOf(b), keyOf(cc)
		c.M, c.Ordered = "bulkWrite", r.P(50)
		newKey := fresh()
		freed := ka
		switch r.N(5) {
		case 0:
			c.Models = append(c.Models, apiBulk{T: "insertOne", Doc: append(bson.D{{Key: "_id", Value: g.idxFreshID(docs)}}, withKey(newKey)...)})
			freed = nil
		case 1:
			c.Models = append(c.Models, apiBulk{T: "updateOne", Q: idByID(a), U: setKey(newKey)})
		case 2:
			c.Models = append(c.Models, apiBulk{T: "deleteOne", Q: idByID(a)})
		case 3:
			c.Models = append(c.Models, apiBulk{T: "replaceOne", Q: idByID(a), Repl: withKey(newKey)})
		default:
			c.Models = append(c.Models, apiBulk{T: "updateMany", Q: idByID(a), U: bson.D{{Key: "$inc", Value: bson.D{{Key: top, Value: int32(100)}}}}})
		}
		switch r.N(5) {
		case 0:
			c.Models = append(c.Models, apiBulk{T: "updateOne", Q: idByID(b), U: setKey(kc)})
		case 1:
			c.Models = append(c.Models, apiBulk{T: "replaceOne", Q: idByID(b), Repl: withKey(kc)})
		case 2:
			c.Models = append(c.Models, apiBulk{T: "updateMany", Q: bson.D{{Key: "_id", Value: bson.D{{Key: "$in", Value: bson.A{idxCopy(bsonkit.Get(b, "_id")), idxCopy(bsonkit.Get(cc, "_id"))}}}}}, U: setKey(g.idxNum(77))})
		case 3:
			c.Models = append(c.Models, apiBulk{T: "updateOne", Q: append(bson.D{{Key: "_id", Value: g.idxFreshID(docs)}}, withKey(kc)...), U: bson.D{{Key: "$set", Value: bson.D{{Key: "c", Value: int32(1)}}}}, Upsert: true})
		default:
			c.Models = append(c.Models, apiBulk{T: "replaceOne", Q: bson.D{{Key: "_id", Value: g.idxFreshID(docs)}}, Repl: withKey(kb), Upsert: true})
		}
		for n := r.N(3); n > 0; n-- {
			var v interface{}
			switch r.N(4) {
			case 0:
				v = kc
			case 1:
				v = kb
			case 2:
				v = newKey
			default:
				v = freed
				if v == nil {
					v = fresh()
				}
			}
			if r.P(60) {
				c.Models = append(c.Models, apiBulk{T: "insertOne", Doc: append(bson.D{{Key: "_id", Value: int32(40 + s.phase*3 + n)}}, withKey(v)...)})
			} else {
				c.Models = append(c.Models, apiBulk{T: "updateOne", Q: idByID(cc), U: setKey(v)})
			}
		}
		if ka != bsonkit.Missing {
			s.lastKey = ka
		}
		return c
	case k < 75:
		// single writes that reuse the keys involved
		var v interface{} = fresh()
		switch r.N(3) {
		case 0:
			if s.lastKey != nil {
				v = idxCopy(s.lastKey)
			}
		case 1:
			v = keyOf(docs[r.N(len(docs))])
		}
		if r.P(55) {
			c.M = "insertOne"
			c.Doc = append(bson.D{{Key: "_id", Value: g.idxFreshID(docs)}}, withKey(v)...)
		} else {
			d := docs[r.N(len(docs))]
			c.M = []string{"updateOne", "findOneAndUpdate", "updateMany"}[r.N(3)]
			c.Q, c.U = idByID(d), setKey(v)
		}
		return c
	case k < 82:
		c.M, c.Q = "deleteOne", idByID(docs[r.N(len(docs))])
		return c
	case k < 86:
		c.M = "insertMany"
		c.Ordered = r.P(50)
		for i := 0; i < 3; i++ {
			var v interface{} = fresh()
			if r.P(40) {
				v = keyOf(docs[r.N(len(docs))])
			}
			c.Docs = append(c.Docs, append(bson.D{{Key: "_id", Value: int32(60 + s.phase*3 + i)}}, withKey(v)...))
		}
		return c
	}
	return nil
}

// ---- scenario: multikey ----

func (g *apiGen) idxMultikeyNext(c *apiCall, docs bsonkit.List) *apiCall {
	r := g.r
	s := g.idx
	if s.phase == 1 {
		g.idxCreate(c)
		return c
	}
	sub := s.key == "a.b"
	elem := func() interface{} {
		n := g.idxNum(1 + r.N(3))
		if !sub {
			return n
		}
		switch r.N(8) {
		case 0:
			return bson.D{}
		case 1:
			return bson.D{{Key: "b", Value: bson.A{n, g.idxNum(1 + r.N(3))}}}
		case 2:
			return n // a scalar element: yields no value under a.b
		}
		return bson.D{{Key: "b", Value: n}}
	}
	arrVal := func() interface{} {
		switch k := r.N(100); {
		case k < 12:
			return bson.A{}
		case k < 20:
			return bson.A{int32(1)}
		case k < 28:
			return bson.A{bson.D{}}
		case k < 34:
			return bsonkit.Missing
		case k < 38:
			return nil
		case k < 48:
			return elem() // not an array
		case k < 52 && !sub:
			return bson.A{bson.A{g.idxNum(1)}}
		}
		a := bson.A{}
		for i := 1 + r.N(3); i > 0; i-- {
			a = append(a, elem())
		}
		return a
	}
	mk := func(id interface{}) bson.D {
		d := bson.D{{Key: "_id", Value: id}}
		if v := arrVal(); v != bsonkit.Missing {
			d = append(d, bson.E{Key: "a", Value: v})
		}
		if s.key2 != "" && r.P(85) {
			d = append(d, bson.E{Key: s.key2, Value: g.idxNum(r.N(2))})
		}
		return d
	}
	k := r.N(100)
	if len(docs) < 2 {
		k = r.N(30)
	}
	target := func() bson.D {
		if len(docs) > 0 && r.P(85) {
			return idByID(docs[r.N(len(docs))])
		}
		return bson.D{}
	}
	switch {
	case k < 25:
		c.M, c.Doc = "insertOne", mk(g.idxFreshID(docs))
		return c
	case k < 30:
		c.M, c.Ordered = "insertMany", r.P(50)
		c.Docs = []bson.D{mk(g.idxFreshID(docs)), mk(int32(30 + s.phase)), mk(int32(60 + s.phase))}
		return c
	case k < 78:
		c.M = []string{"updateOne", "updateOne", "updateMany", "findOneAndUpdate"}[r.N(4)]
		c.Q = target()
		c.Upsert = r.P(10)
		switch r.N(11) {
		case 0, 1:
			c.U = bson.D{{Key: "$push", Value: bson.D{{Key: "a", Value: elem()}}}}
		case 2:
			c.U = bson.D{{Key: "$push", Value: bson.D{{Key: "a", Value: bson.D{{Key: "$each", Value: bson.A{elem(), elem()}}, {Key: "$position", Value: int32(0)}}}}}}
		case 3, 4:
			c.U = bson.D{{Key: "$pop", Value: bson.D{{Key: "a", Value: int32(1 - 2*r.N(2))}}}}
		case 5:
			if sub {
				c.U = bson.D{{Key: "$pull", Value: bson.D{{Key: "a", Value: bson.D{{Key: "b", Value: g.idxNum(1 + r.N(3))}}}}}}
			} else {
				c.U = bson.D{{Key: "$pull", Value: bson.D{{Key: "a", Value: g.idxNum(1 + r.N(3))}}}}
			}
		case 6:
			if sub {
				c.U = bson.D{{Key: "$pull", Value: bson.D{{Key: "a", Value: bson.D{{Key: "b", Value: bson.D{{Key: "$gte", Value: int32(2)}}}}}}}}
			} else {
				c.U = bson.D{{Key: "$pull", Value: bson.D{{Key: "a", Value: bson.D{{Key: "$gte", Value: int32(2)}}}}}}
			}
		case 7:
			c.U = bson.D{{Key: "$addToSet", Value: bson.D{{Key: "a", Value: elem()}}}}
		case 8:
			if sub {
				c.U = bson.D{{Key: "$set", Value: bson.D{{Key: "a." + []string{"0", "1", "2"}[r.N(3)] + ".b", Value: g.idxNum(1 + r.N(3))}}}}
			} else {
				c.U = bson.D{{Key: "$set", Value: bson.D{{Key: "a." + []string{"0", "1", "2"}[r.N(3)], Value: g.idxNum(1 + r.N(3))}}}}
			}
		case 9:
			if v := arrVal(); v == bsonkit.Missing {
				c.U = bson.D{{Key: "$unset", Value: bson.D{{Key: "a", Value: ""}}}}
			} else {
				c.U = bson.D{{Key: "$set", Value: bson.D{{Key: "a", Value: v}}}}
			}
		default:
			if sub {
				c.U = bson.D{{Key: "$inc", Value: bson.D{{Key: "a.$[].b", Value: int32(1)}}}}
			} else {
				c.U = bson.D{{Key: "$pullAll", Value: bson.D{{Key: "a", Value: bson.A{g.idxNum(1), g.idxNum(2)}}}}}
			}
		}
		return c
	case k < 84 && len(docs) > 0:
		d := docs[r.N(len(docs))]
		c.M = []string{"replaceOne", "findOneAndReplace"}[r.N(2)]
		c.Q, c.Upsert = idByID(d), r.P(20)
		c.Repl = mk(nil)[1:]
		return c
	case k < 89 && len(docs) > 0:
		c.M, c.Q = []string{"deleteOne", "findOneAndDelete"}[r.N(2)], idByID(docs[r.N(len(docs))])
		return c
	case k < 92:
		if sec := g.secondaryIndexNames(c.DB, c.Coll); len(sec) > 0 && r.P(50) {
			c.M, c.Name = "dropIndex", sec[r.N(len(sec))]
		} else {
			g.idxCreate(c)
		}
		return c
	}
	return nil
}

// ---- scenario: wide (unique compound multikey index over 4–5 columns) ----

// idxWideDoc: the scalar columns mostly share one prefix (0, 0, …); the array column holds 2–3
// small numbers, so two documents typically meet in a NON-LAST element.
func (g *apiGen) idxWideDoc(id interface{}) bson.D {
	r := g.r
	s := g.idx
	d := bson.D{}
	if id != nil {
		d = append(d, bson.E{Key: "_id", Value: id})
	}
	arrCol := s.arrCol
	if r.P(12) {
		arrCol = r.N(len(s.cols)) // the array sits in another column of this document (still only one)
	}
	if r.P(8) {
		arrCol = -1 // no array at all
	}
	order := r.N(len(s.cols)) // fields are not stored in key order
	for k := range s.cols {
		i := (k + order) % len(s.cols)
		f := s.cols[i]
		switch {
		case i == arrCol:
			d = append(d, bson.E{Key: f, Value: g.idxWideArr()})
		case r.P(5):
			// missing column
		case r.P(82):
			d = append(d, bson.E{Key: f, Value: g.idxNum(0)})
		default:
			d = append(d, bson.E{Key: f, Value: g.idxNum(1)})
		}
	}
	return d
}

func (g *apiGen) idxWideArr() bson.A {
	r := g.r
	a := bson.A{}
	for n := 2 + r.N(2); n > 0; n-- {
		a = append(a, g.idxNum(1+r.N(6)))
	}
	if r.P(6) {
		return bson.A{}
	}
	return a
}

func (g *apiGen) idxWideNext(c *apiCall, docs bsonkit.List) *apiCall {
	r := g.r
	s := g.idx
	has := g.idxHasSecondary(c.DB, c.Coll)
	buildLate := s.dirs[0] > 0 && s.dirs[1] > 0 // a quarter of the histories build the index over existing data
	if (s.phase == 1 && !buildLate) || (s.phase == 4 && buildLate) {
		g.idxCreate(c)
		return c
	}
	arrF := s.cols[s.arrCol]
	k := r.N(100)
	if len(docs) < 2 {
		k = r.N(30)
	}
	switch {
	case k < 30:
		c.M, c.Doc = "insertOne", g.idxWideDoc(g.idxFreshID(docs))
		if r.P(20) {
			c.M, c.Ordered = "insertMany", r.P(50)
			c.Docs = []bson.D{c.Doc, g.idxWideDoc(int32(30 + s.phase)), g.idxWideDoc(int32(60 + s.phase))}
			c.Doc = nil
		}
		return c
	case k < 62 && len(docs) > 0:
		d := docs[r.N(len(docs))]
		c.M = []string{"updateOne", "updateOne", "updateMany", "findOneAndUpdate"}[r.N(4)]
		c.Q = idByID(d)
		if c.M == "updateMany" && r.P(50) {
			c.Q = bson.D{}
		}
		switch r.N(8) {
		case 0, 1:
			c.U = bson.D{{Key: "$push", Value: bson.D{{Key: arrF, Value: g.idxNum(1 + r.N(6))}}}}
		case 2:
			c.U = bson.D{{Key: "$push", Value: bson.D{{Key: arrF, Value: bson.D{{Key: "$each", Value: bson.A{g.idxNum(1 + r.N(6))}}, {Key: "$position", Value: int32(r.N(2))}}}}}}
		case 3:
			c.U = bson.D{{Key: "$set", Value: bson.D{{Key: arrF + "." + strconv.Itoa(r.N(3)), Value: g.idxNum(1 + r.N(6))}}}}
		case 4:
			c.U = bson.D{{Key: "$set", Value: bson.D{{Key: arrF, Value: g.idxWideArr()}}}}
		case 5:
			c.U = bson.D{{Key: "$pop", Value: bson.D{{Key: arrF, Value: int32(1 - 2*r.N(2))}}}}
		case 6:
			// change a scalar prefix column: leaves / joins the group of documents that share the prefix
			f := s.cols[r.N(len(s.cols))]
			if f == arrF {
				f = s.cols[0]
			}
			c.U = bson.D{{Key: "$set", Value: bson.D{{Key: f, Value: g.idxNum(r.N(2))}}}}
		default:
			c.U = bson.D{{Key: "$pull", Value: bson.D{{Key: arrF, Value: g.idxNum(1 + r.N(6))}}}}
		}
		return c
	case k < 74 && len(docs) > 0:
		d := docs[r.N(len(docs))]
		c.M = []string{"replaceOne", "findOneAndReplace"}[r.N(2)]
		c.Q, c.Upsert = idByID(d), r.P(25)
		c.Repl = g.idxWideDoc(nil)
		return c
	case k < 82:
		// upserts: the document comes from the filter's equalities and the update
		c.M = []string{"updateOne", "replaceOne", "findOneAndUpdate"}[r.N(3)]
		c.Upsert = true
		c.Q = bson.D{{Key: "_id", Value: g.idxFreshID(docs)}}
		nd := g.idxWideDoc(nil)
		if c.M == "replaceOne" {
			c.Repl = nd
		} else {
			if len(nd) > 1 && r.P(50) {
				c.Q = append(c.Q, nd[0])
				nd = nd[1:]
			}
			if len(nd) == 0 {
				nd = bson.D{{Key: "n", Value: int32(1)}}
			}
			c.U = bson.D{{Key: "$set", Value: nd}}
		}
		return c
	case k < 87 && len(docs) > 0:
		c.M, c.Q = []string{"deleteOne", "findOneAndDelete"}[r.N(2)], idByID(docs[r.N(len(docs))])
		return c
	case k < 93:
		// build over existing data: drop and create again (fails while two documents meet)
		if has && r.P(45) {
			sec := g.secondaryIndexNames(c.DB, c.Coll)
			c.M, c.Name = "dropIndex", sec[r.N(len(sec))]
			return c
		}
		g.idxCreate(c)
		return c
	}
	return nil
}

// ---- scenario: numkeys (unique index over numeric edge values) ----

var idxNumEdges = func() []interface{} {
	var out []interface{}
	for _, n := range gen.Ints {
		out = append(out, n)
		if n >= -(1<<31) && n < 1<<31 {
			out = append(out, int32(n))
		}
	}
	for _, f := range gen.Floats {
		out = append(out, f)
	}
	for _, d := range gen.Decs {
		if _, exp, err := d.BigInt(); err == nil && (exp > 400 || exp < -400) {
			continue // 1E6111, 1E-6176: exact arithmetic on them dominates the model's run time; stream cmp covers them
		}
		out = append(out, d)
	}
	// the same number in every representation, and close neighbours
	for _, s := range []string{"9007199254740992", "9007199254740993", "9007199254740991", "-9223372036854775808", "9223372036854775807",
		"4611686018427387904", "4611686018427387905", "0", "-0", "0E+3", "0E-10", "1.00", "1E+0", "10E-1", "2147483648", "0.5", "0.50"} {
		if d, err := primitive.ParseDecimal128(s); err == nil {
			out = append(out, d)
		}
	}
	out = append(out, float64(1<<53), float64(1<<53)+2, float64(-(1 << 63)), float64(1<<62), float64(1<<62)+1024, int64(1<<53), int64(1<<53+1), int64(1<<53-1),
		int64(-(1 << 63)), int64(1<<62), int64(1<<62+1), int64(1<<63-1), float64(1<<63), int64(0), float64(0), int32(0), int32(1), float64(1), int64(1),
		primitive.Timestamp{T: 0, I: 1}, primitive.Timestamp{T: 1 << 31, I: 0}, primitive.Timestamp{T: 1<<32 - 1, I: 1<<32 - 1}, primitive.Timestamp{T: 1, I: 0},
		primitive.DateTime(-1<<62), primitive.DateTime(1<<62), primitive.DateTime(0))
	return out
}()

func decs(ss ...string) []interface{} {
	var out []interface{}
	for _, s := range ss {
		if d, err := primitive.ParseDecimal128(s); err == nil {
			out = append(out, d)
		}
	}
	return out
}

// idxNumClusters: groups of values that are equal or next to each other across representations; a
// history draws most of its keys from one or two of them.
var idxNumClusters = [][]interface{}{
	append([]interface{}{int32(0), int64(0), float64(0), math.Copysign(0, -1)}, decs("0", "-0", "0E+3", "0E-10", "0.00")...),
	append([]interface{}{int32(1), int64(1), float64(1), math.Nextafter(1, 2)}, decs("1", "1.0", "1.00", "1E+0", "10E-1", "1.000000000000000000000000000000001")...),
	append([]interface{}{int64(1 << 53), int64(1<<53 + 1), int64(1<<53 - 1), float64(1 << 53), float64(1<<53) + 2, float64(1<<53) - 1}, decs("9007199254740992", "9007199254740993", "9007199254740991", "9007199254740992.0", "9007199254740992.5")...),
	append([]interface{}{int64(1 << 62), int64(1<<62 + 1), float64(1 << 62), float64(1<<62) + 1024, int64(1<<62 + 1024)}, decs("4611686018427387904", "4611686018427387905", "4611686018427388928")...),
	append([]interface{}{int64(-(1 << 63)), float64(-(1 << 63)), int64(-(1 << 63) + 1), math.Nextafter(-(1 << 63), 0)}, decs("-9223372036854775808", "-9223372036854775807", "-9223372036854775809")...),
	append([]interface{}{int64(1<<63 - 1), float64(1 << 63), int64(1<<63 - 2), math.Nextafter(1<<63, 0)}, decs("9223372036854775807", "9223372036854775808", "9223372036854775807.5")...),
	append([]interface{}{int32(1<<31 - 1), int64(1<<31 - 1), int64(1 << 31), float64(1 << 31), float64(1<<31 - 1), int32(-(1 << 31)), int64(-(1 << 31)), float64(-(1 << 31))}, decs("2147483647", "2147483648", "-2147483648")...),
	append([]interface{}{float64(0.1), float64(0.5), float64(1e23), float64(1e22), math.NaN(), math.Inf(1)}, decs("0.1", "0.5", "0.50", "1E+23", "1E+22", "0.1000000000000000055511151231257827", "NaN", "Infinity")...),
	{primitive.Timestamp{T: 0, I: 0}, primitive.Timestamp{T: 0, I: 1}, primitive.Timestamp{T: 1 << 31, I: 0}, primitive.Timestamp{T: 1 << 31, I: 1}, primitive.Timestamp{T: 1<<31 - 1, I: 0},
		primitive.Timestamp{T: 1<<32 - 1, I: 1<<32 - 1}, primitive.Timestamp{T: 1<<32 - 1, I: 0}, primitive.Timestamp{T: 1, I: 1 << 31}, primitive.Timestamp{T: 1, I: 0}, primitive.Timestamp{T: 0, I: 1 << 31}},
	{primitive.DateTime(0), primitive.DateTime(1), primitive.DateTime(-1), primitive.DateTime(math.MinInt64), primitive.DateTime(math.MaxInt64), primitive.DateTime(1 << 62), primitive.DateTime(-(1 << 62)),
		primitive.DateTime(1 << 32), primitive.DateTime(1 << 31)},
}

func (g *apiGen) idxNumKeysNext(c *apiCall, docs bsonkit.List) *apiCall {
	r := g.r
	s := g.idx
	top := s.key
	buildLate := s.dir > 0 // half of the histories build the index over existing data
	if (s.phase == 1 && !buildLate) || (s.phase == 5 && buildLate) {
		g.idxCreate(c)
		return c
	}
	val := func() interface{} {
		if len(docs) > 0 && r.P(12) {
			if v, ok := g.idxKeyOf(docs[r.N(len(docs))]); ok {
				return v
			}
		}
		if r.P(80) {
			cl := idxNumClusters[s.cluster[r.N(2)]]
			return idxCopy(cl[r.N(len(cl))])
		}
		return idxCopy(idxNumEdges[r.N(len(idxNumEdges))])
	}
	mk := func(id interface{}) bson.D {
		d := bson.D{}
		if id != nil {
			d = append(d, bson.E{Key: "_id", Value: id})
		}
		d = append(d, bson.E{Key: top, Value: val()})
		if s.key2 != "" {
			d = append(d, bson.E{Key: s.key2, Value: int32(0)})
		}
		return d
	}
	k := r.N(100)
	if len(docs) < 2 {
		k = r.N(40)
	}
	switch {
	case k < 30:
		c.M, c.Doc = "insertOne", mk(g.idxFreshID(docs))
		return c
	case k < 40:
		c.M, c.Ordered = "insertMany", r.P(50)
		c.Docs = []bson.D{mk(g.idxFreshID(docs)), mk(int32(40 + s.phase)), mk(int32(70 + s.phase)), mk(int32(100 + s.phase))}
		return c
	case k < 58 && len(docs) > 0:
		c.M = []string{"updateOne", "updateMany", "findOneAndUpdate"}[r.N(3)]
		c.Q = idByID(docs[r.N(len(docs))])
		c.U = bson.D{{Key: "$set", Value: bson.D{{Key: top, Value: val()}}}}
		return c
	case k < 68 && len(docs) > 0:
		c.M = []string{"replaceOne", "findOneAndReplace"}[r.N(2)]
		c.Q, c.Upsert = idByID(docs[r.N(len(docs))]), r.P(25)
		c.Repl = mk(nil)
		return c
	case k < 76:
		c.M = []string{"updateOne", "replaceOne", "findOneAndUpdate"}[r.N(3)]
		c.Upsert = true
		c.Q = bson.D{{Key: "_id", Value: g.idxFreshID(docs)}}
		if c.M == "replaceOne" {
			c.Repl = mk(nil)
		} else if r.P(50) {
			c.Q = append(c.Q, bson.E{Key: top, Value: val()})
			c.U = bson.D{{Key: "$set", Value: bson.D{{Key: "n", Value: int32(1)}}}}
		} else {
			c.U = bson.D{{Key: "$set", Value: mk(nil)}}
		}
		return c
	case k < 82 && len(docs) > 0:
		c.M, c.Q = "deleteOne", idByID(docs[r.N(len(docs))])
		return c
	case k < 92:
		if g.idxHasSecondary(c.DB, c.Coll) && r.P(40) {
			sec := g.secondaryIndexNames(c.DB, c.Coll)
			c.M, c.Name = "dropIndex", sec[r.N(len(sec))]
			return c
		}
		g.idxCreate(c)
		return c
	}
	return nil
}

// ---- scenario: badfilter (an index build that fails late for another reason than uniqueness) ----

// The partial filter raises an error only for documents with x > 0 (the first condition decides the
// others): over a collection whose FIRST documents have x ≤ 0 the build adds some documents and then
// fails; it must leave no trace. Once no stored document has x > 0 the same index can be created,
// and from then on every write that produces a document with x > 0 fails without a trace.
func (g *apiGen) idxBadFilterNext(c *apiCall, docs bsonkit.List) *apiCall {
	r := g.r
	s := g.idx
	top := s.key
	var pos bsonkit.List // the documents the filter errs on
	for _, d := range docs {
		if ok, _ := mongokit.Match(d, &bson.D{{Key: "x", Value: bson.D{{Key: "$gt", Value: int32(0)}}}}); ok {
			pos = append(pos, d)
		}
	}
	has := g.idxHasSecondary(c.DB, c.Coll)
	mk := func(id interface{}, x int) bson.D {
		d := bson.D{}
		if id != nil {
			d = append(d, bson.E{Key: "_id", Value: id})
		}
		d = append(d, bson.E{Key: top, Value: g.idxNum(r.N(4))})
		if x != -9 {
			d = append(d, bson.E{Key: "x", Value: g.idxNum(x)})
		}
		if r.P(40) {
			d = append(d, bson.E{Key: "c", Value: g.idxNum(r.N(3))})
		}
		return d
	}
	switch {
	case s.phase == 1 && r.P(50):
		// a healthy index next to the one that will fail
		c.M = "createIndex"
		c.Keys = bson.D{{Key: []string{"c", "x"}[r.N(2)], Value: int32(1 - 2*r.N(2))}}
		return c
	case s.phase <= 3:
		// the first documents lie outside (x ≤ 0 or missing), a later one inside
		c.M, c.Ordered = "insertMany", true
		c.Docs = []bson.D{mk(g.idxFreshID(docs), -r.N(2)), mk(int32(20+s.phase), []int{-9, 0, -1}[r.N(3)])}
		if s.phase == 3 || r.P(40) {
			c.Docs = append(c.Docs, mk(int32(40+s.phase), 1+r.N(2)))
		}
		if r.P(30) {
			c.Docs = append(c.Docs, mk(int32(60+s.phase), -r.N(2)))
		}
		return c
	}
	k := r.N(100)
	switch {
	case k < 25:
		g.idxCreate(c) // fails late while a document has x > 0; otherwise succeeds
		if r.P(15) {
			c.Unique = !c.Unique
		}
		return c
	case k < 32:
		c.M = "listIndexes"
		return c
	case k < 45 && len(pos) > 0:
		// take a document out of the failing region: delete it, or move x to ≤ 0
		d := pos[r.N(len(pos))]
		if r.P(50) {
			c.M, c.Q = []string{"deleteOne", "findOneAndDelete"}[r.N(2)], idByID(d)
		} else {
			set := bson.D{{Key: "x", Value: g.idxNum(-r.N(2))}}
			g.idxWriteOne(c, d, set, nil, idxRewrite(d, set, nil, true))
		}
		return c
	case k < 62:
		// inserts on both sides (with the index in place the x > 0 ones fail)
		c.M, c.Doc = "insertOne", mk(g.idxFreshID(docs), []int{-1, 0, 0, 1, 2, -9}[r.N(6)])
		if r.P(25) {
			c.M, c.Ordered = "insertMany", r.P(50)
			c.Docs = []bson.D{c.Doc, mk(int32(80+s.phase), 1), mk(int32(110+s.phase), 0)}
			c.Doc = nil
		}
		return c
	case k < 80 && len(docs) > 0:
		// updates / replacements / upserts that move a document into or within the failing region
		d := docs[r.N(len(docs))]
		set := bson.D{{Key: "x", Value: g.idxNum([]int{1, 2, 0, -1}[r.N(4)])}}
		if r.P(30) {
			set = append(set, bson.E{Key: top, Value: g.idxNum(r.N(4))})
		}
		g.idxWriteOne(c, d, set, nil, idxRewrite(d, set, nil, r.P(50)))
		if r.P(20) && (c.M == "updateOne" || c.M == "findOneAndUpdate") {
			c.Q, c.Upsert = bson.D{{Key: "_id", Value: g.idxFreshID(docs)}}, true
		}
		return c
	case k < 86 && len(docs) > 0:
		c.M, c.Q = "updateMany", bson.D{}
		c.U = bson.D{{Key: "$inc", Value: bson.D{{Key: "x", Value: int32(1 - 2*r.N(2))}}}}
		return c
	case k < 90 && has:
		sec := g.secondaryIndexNames(c.DB, c.Coll)
		c.M, c.Name = "dropIndex", sec[r.N(len(sec))]
		return c
	}
	return nil
}

// ---- scenario: iddrop (the _id index survives every kind of drop) ----

func (g *apiGen) idxIDDropNext(c *apiCall, docs bsonkit.List) *apiCall {
	r := g.r
	s := g.idx
	top := s.key
	switch {
	case s.phase == 1:
		c.M, c.Ordered = "insertMany", true
		for i := 1; i <= 3; i++ {
			c.Docs = append(c.Docs, bson.D{{Key: "_id", Value: g.idxNum(i)}, {Key: top, Value: g.idxNum(i)}})
		}
		return c
	case s.phase == 2 || (s.phase%7 == 0):
		// secondary indexes whose key starts with _id, or is _id in the other direction
		c.M = "createIndex"
		c.Keys = []bson.D{
			{{Key: "_id", Value: int32(1)}, {Key: top, Value: int32(1)}},
			{{Key: "_id", Value: int32(-1)}},
			{{Key: "_id", Value: int32(1)}, {Key: top, Value: int32(-1)}, {Key: "c", Value: int32(1)}},
			{{Key: top, Value: int32(1)}},
			{{Key: "_id", Value: int32(-1)}, {Key: top, Value: int32(1)}},
		}[r.N(5)]
		c.Unique = r.P(40)
		return c
	}
	k := r.N(100)
	switch {
	case k < 30:
		c.M = "dropIndexByKey"
		c.Keys = []bson.D{
			{{Key: "_id", Value: int32(1)}}, {{Key: "_id", Value: float64(1)}}, {{Key: "_id", Value: int64(1)}}, {{Key: "_id", Value: int32(-1)}}, {{Key: "_id", Value: float64(-1)}},
			{{Key: "_id", Value: int32(1)}, {Key: top, Value: int32(1)}}, {{Key: "_id", Value: int32(1)}, {Key: top, Value: int32(-1)}, {Key: "c", Value: int32(1)}},
			{{Key: "_id", Value: int32(-1)}, {Key: top, Value: int32(1)}}, {{Key: "_id", Value: mustDecimal("1")}}, {{Key: "_id", Value: int32(1)}, {Key: "nope", Value: int32(1)}},
		}[r.N(10)]
		return c
	case k < 42:
		c.M = "dropIndex"
		c.Name = []string{"_id_", "_id_", "_id_1", "_id_-1", "_id"}[r.N(5)]
		if sec := g.secondaryIndexNames(c.DB, c.Coll); len(sec) > 0 && r.P(40) {
			c.Name = sec[r.N(len(sec))]
		}
		return c
	case k < 50:
		c.M = "dropAllIndexes"
		return c
	case k < 56:
		c.M = "listIndexes"
		return c
	case k < 80:
		// duplicates of a stored _id (other numeric type) must stay rejected; fresh ones accepted
		c.M = "insertOne"
		id := g.idxFreshID(docs)
		if len(docs) > 0 && r.P(65) {
			id = idxCopy(bsonkit.Get(docs[r.N(len(docs))], "_id"))
			if n, ok := id.(int32); ok && r.P(50) {
				id = []interface{}{float64(n), int64(n)}[r.N(2)]
			}
		}
		c.Doc = bson.D{{Key: "_id", Value: id}, {Key: top, Value: g.idxNum(10 + r.N(20))}}
		if r.P(20) {
			c.M, c.Ordered = "insertMany", r.P(50)
			c.Docs = []bson.D{{{Key: "_id", Value: g.idxFreshID(docs)}, {Key: top, Value: g.idxNum(40 + r.N(20))}}, c.Doc}
			c.Doc = nil
		}
		return c
	case k < 88 && len(docs) > 0:
		// upsert / replace onto a stored _id given in another type
		d := docs[r.N(len(docs))]
		id := idxCopy(bsonkit.Get(d, "_id"))
		if n, ok := id.(int32); ok {
			id = float64(n)
		}
		c.M, c.Upsert = []string{"updateOne", "replaceOne"}[r.N(2)], true
		c.Q = bson.D{{Key: "_id", Value: id}}
		if c.M == "replaceOne" {
			c.Repl = bson.D{{Key: top, Value: g.idxNum(60 + r.N(20))}}
		} else {
			c.U = bson.D{{Key: "$set", Value: bson.D{{Key: top, Value: g.idxNum(60 + r.N(20))}}}}
		}
		return c
	}
	return nil
}

func mustDecimal(s string) primitive.Decimal128 {
	d, err := primitive.ParseDecimal128(s)
	if err != nil {
		panic(err)
	}
	return d
}
