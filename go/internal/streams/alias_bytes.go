package streams

import (
	"bytes"
	"context"
	"fmt"
	"strings"

	"go.mongodb.org/mongo-driver/bson"
	"go.mongodb.org/mongo-driver/bson/primitive"
	"go.mongodb.org/mongo-driver/mongo"
	"go.mongodb.org/mongo-driver/mongo/options"

	"github.com/256dpi/lungo"

	"verifharness/internal/gen"
	"verifharness/internal/run"
)

// Stream "alias", second family of cases (C17): results that hand out BYTES or nested containers
// MORE THAN ONCE. One case = a small generated database and a fixed sequence of probes; after every
// probe the exact catalog dump must be what it was (or what the probe's own write made it):
//
//	single results   FindOne / FindOneAndUpdate / FindOneAndReplace / FindOneAndDelete: Raw() and
//	                 DecodeBytes() → every byte of the returned slice is overwritten → Raw / Decode on
//	                 the SAME result give the original again; a decoded bson.M / bson.D is overwritten
//	                 → Decode again gives the original                result-bytes-shared:<m>
//	cursors          Decode into bson.Raw / bson.M at one position, overwrite, Decode again at the
//	                 same position; bytes taken at an earlier position survive Next
//	                                                                  result-bytes-shared:Cursor
//	distinct         over arrays of arrays, binaries, arrays of binaries, nested documents: inner
//	                 arrays / Binary.Data of the returned values are overwritten → the stored
//	                 documents and a second Distinct are unchanged       distinct-shares-memory
//	listings         ListIndexes / ListCollections specification documents overwritten by the caller
//	                 → listing again and the index definitions are unchanged
//	                                                                  listing-shares-memory:<m>
//	change streams   an event decoded from one stream (and its resume token) is overwritten → Decode
//	                 again, a second stream opened before the write and a third one resumed from a
//	                 copy of the token deliver the original event         stream-event-shared
//
// (lungo's Cursor and Stream have no Current field; Decode into bson.Raw is the byte-level access.)

type aliasBytesRun struct {
	s     *aliasSide
	g     *aliasGen
	req   string
	base  string
	viols []run.Violation
	notes []string
	// prevTok: a copy of the resume token of the previous change stream event
	prevTok []byte
}

func (x *aliasBytesRun) bad(witness, detail string) {
	x.viols = append(x.viols, run.Violation{Property: "C17", What: "a value handed out by a result is shared with the database or with another result", Witness: witness, Req: x.req, Detail: clip(detail, 900)})
}

func (x *aliasBytesRun) rebase() { x.base = aliasDump(x.s.engine, false) }

// checkDB: the catalog dump is still the baseline.
func (x *aliasBytesRun) checkDB(witness, where string) {
	if now := aliasDump(x.s.engine, false); now != x.base {
		x.bad(witness, "the catalog changed after "+where+"\nwas "+clip(x.base, 300)+"\nnow "+clip(now, 300))
		x.base = now
	}
}

func (x *aliasBytesRun) safely(name string, f func()) {
	defer func() {
		if p := recover(); p != nil {
			x.notes = append(x.notes, name+":panic:"+clip(fmt.Sprint(p), 60))
		}
	}()
	f()
}

func aliasScribble(vals ...interface{}) int {
	return aliasMutate(aliasNewWalker(false).roots(vals...))
}

func canonOf(v interface{}) string { return aliasCanon(v, aliasNorm{}) }

// single probes one single result.
func (x *aliasBytesRun) single(m string, sr lungo.ISingleResult) {
	raw1, err := sr.Raw()
	if err != nil {
		x.notes = append(x.notes, m+":"+aliasErrClass(err))
		return
	}
	snap := append([]byte{}, raw1...)
	var want bson.D
	if err := bson.Unmarshal(snap, &want); err != nil {
		return
	}
	wantC := canonOf(want)
	rawB, _ := sr.DecodeBytes()
	if len(raw1) > 0 && len(rawB) > 0 && &raw1[0] == &rawB[0] {
		x.bad("result-bytes-shared:"+m, "Raw and DecodeBytes of one result return the same backing array")
	}
	full := raw1[:cap(raw1)]
	for i := range full {
		full[i] ^= 0xff
	}
	if raw2, err := sr.Raw(); err != nil || !bytes.Equal(raw2, snap) {
		x.bad("result-bytes-shared:"+m, fmt.Sprintf("after overwriting the bytes Raw returned, Raw returns other bytes (err %v)", err))
	}
	if rawB != nil && !bytes.Equal(rawB, snap) {
		x.bad("result-bytes-shared:"+m, "overwriting the bytes of Raw changed the bytes DecodeBytes had returned")
	}
	var d1 bson.D
	if err := sr.Decode(&d1); err != nil || canonOf(d1) != wantC {
		x.bad("result-bytes-shared:"+m, fmt.Sprintf("after overwriting the bytes Raw returned, Decode gives %s (err %v), want %s", canonOf(d1), err, wantC))
	}
	m1 := bson.M{}
	_ = sr.Decode(&m1)
	aliasScribble(&d1, &m1)
	var d2 bson.D
	if err := sr.Decode(&d2); err != nil || canonOf(d2) != wantC {
		x.bad("result-bytes-shared:"+m, fmt.Sprintf("after overwriting a decoded document, Decode gives %s (err %v), want %s", canonOf(d2), err, wantC))
	}
	x.checkDB("mutation-reaches-db:"+m+":result", m+" (bytes and decoded documents overwritten)")
}

func aliasBytesCase(seed uint64) run.Case {
	r := gen.New(seed, 0xb17e5, 1)
	s := aliasNewSide()
	defer s.engine.Close()
	g := &aliasGen{r: r, feat: map[string]bool{}}
	x := &aliasBytesRun{s: s, g: g, req: fmt.Sprintf(`{"op":"alias","bytes":"%016x"}`, seed)}
	ctx := context.Background()
	coll := s.coll(0)

	impl := run.Safe(func() string {
		// ---- a small database: arrays of arrays, binaries, arrays of binaries, nested documents
		n := 3 + r.N(3)
		var docs []interface{}
		for i := 0; i < n; i++ {
			d := g.storedDoc(false)
			d = append(bson.D{{Key: "_id", Value: int32(i + 1)}}, d...)
			aa := bson.A{}
			for k := 1 + r.N(3); k > 0; k-- {
				aa = append(aa, bson.A{int32(r.N(3)), bson.A{int32(r.N(2)), "s"}, g.bin()})
			}
			d = append(d, bson.E{Key: "aa", Value: aa}, bson.E{Key: "bb", Value: g.bin()}, bson.E{Key: "ab", Value: bson.A{g.bin(), g.bin()}},
				bson.E{Key: "u", Value: int32(i)})
			docs = append(docs, d)
		}
		if _, err := coll.InsertMany(ctx, docs); err != nil {
			return `{"bytes":"setup failed"}`
		}
		_, _ = coll.Indexes().CreateOne(ctx, mongo.IndexModel{Keys: bson.D{{Key: "u", Value: int32(1)}}, Options: options.Index().SetUnique(true)})
		_, _ = coll.Indexes().CreateOne(ctx, mongo.IndexModel{Keys: bson.D{{Key: "a", Value: int32(-1)}, {Key: "b", Value: int32(1)}},
			Options: options.Index().SetName("part").SetPartialFilterExpression(bson.D{{Key: "n.d.k", Value: bson.D{{Key: "$gte", Value: int32(1)}}}, {Key: "bb", Value: bson.D{{Key: "$exists", Value: true}}}})})
		_, _ = coll.Indexes().CreateOne(ctx, mongo.IndexModel{Keys: bson.D{{Key: "t", Value: int32(1)}}, Options: options.Index().SetExpireAfterSeconds(3600)})
		x.rebase()
		before, _ := aliasReadAll(s)

		// ---- change streams opened before the writes below
		var cs1, cs2 lungo.IChangeStream
		x.safely("watch", func() {
			cs1, _ = coll.Watch(ctx, mongo.Pipeline{})
			cs2, _ = coll.Watch(ctx, mongo.Pipeline{})
		})

		// ---- single results
		byID := func(i int) bson.D { return bson.D{{Key: "_id", Value: int32(i)}} }
		x.safely("FindOne", func() { x.single("FindOne", coll.FindOne(ctx, byID(1+r.N(n)))) })
		x.safely("FindOne", func() {
			x.single("FindOne", coll.FindOne(ctx, bson.D{}, options.FindOne().SetProjection(bson.D{{Key: "aa", Value: int32(1)}, {Key: "n", Value: int32(1)}}).SetSort(bson.D{{Key: "u", Value: int32(-1)}})))
		})
		x.safely("FindOneAndUpdate", func() {
			sr := coll.FindOneAndUpdate(ctx, byID(1), bson.D{{Key: "$push", Value: bson.D{{Key: "aa", Value: bson.A{int32(9), g.bin()}}}}, {Key: "$set", Value: bson.D{{Key: "n.w", Value: g.nested()}}}},
				options.FindOneAndUpdate().SetReturnDocument(options.ReturnDocument([]options.ReturnDocument{options.Before, options.After}[r.N(2)])))
			x.rebase() // the probe's own write
			x.single("FindOneAndUpdate", sr)
		})
		x.safely("FindOneAndReplace", func() {
			repl := append(g.storedDoc(false), bson.E{Key: "u", Value: int32(1)}, bson.E{Key: "bb", Value: g.bin()}, bson.E{Key: "aa", Value: bson.A{bson.A{int32(1), g.bin()}}})
			sr := coll.FindOneAndReplace(ctx, byID(2), repl, options.FindOneAndReplace().SetReturnDocument(options.ReturnDocument([]options.ReturnDocument{options.Before, options.After}[r.N(2)])))
			x.rebase()
			x.single("FindOneAndReplace", sr)
		})
		x.safely("FindOneAndDelete", func() {
			sr := coll.FindOneAndDelete(ctx, byID(n))
			x.rebase()
			x.single("FindOneAndDelete", sr)
		})
		_ = before

		// ---- cursors: byte-level access through Decode(&bson.Raw)
		x.safely("Cursor", func() {
			csr, err := coll.Find(ctx, bson.D{}, options.Find().SetSort(bson.D{{Key: "_id", Value: int32(1)}}))
			if err != nil {
				return
			}
			var held, heldSnap []byte
			var seen []string
			for csr.Next(ctx) {
				if held != nil && !bytes.Equal(held, heldSnap) {
					x.bad("result-bytes-shared:Cursor", "bytes decoded at the previous position changed during Next")
				}
				var raw bson.Raw
				if err := csr.Decode(&raw); err != nil {
					break
				}
				snap := append([]byte{}, raw...)
				var keep bson.Raw
				_ = csr.Decode(&keep)
				if len(raw) > 0 && len(keep) > 0 && &raw[0] == &keep[0] {
					x.bad("result-bytes-shared:Cursor", "two Decode calls at one position return the same backing array")
				}
				full := raw[:cap(raw)]
				for i := range full {
					full[i] ^= 0xff
				}
				m1 := bson.M{}
				_ = csr.Decode(&m1)
				aliasScribble(&m1)
				var again bson.Raw
				if err := csr.Decode(&again); err != nil || !bytes.Equal(again, snap) {
					x.bad("result-bytes-shared:Cursor", fmt.Sprintf("after overwriting what Decode returned, Decode at the same position gives other bytes (err %v)", err))
				}
				if !bytes.Equal(keep, snap) {
					x.bad("result-bytes-shared:Cursor", "overwriting the bytes of one Decode changed the bytes of another")
				}
				held, heldSnap = keep, snap
				var d bson.D
				_ = bson.Unmarshal(snap, &d)
				seen = append(seen, canonOf(d))
			}
			_ = csr.Close(ctx)
			var fresh []bson.D
			if c2, err := coll.Find(ctx, bson.D{}, options.Find().SetSort(bson.D{{Key: "_id", Value: int32(1)}})); err == nil {
				_ = c2.All(ctx, &fresh)
			}
			var want []string
			for _, d := range fresh {
				want = append(want, canonOf(d))
			}
			if strings.Join(seen, "|") != strings.Join(want, "|") {
				x.bad("result-bytes-shared:Cursor", "a second Find returns other documents than the cursor whose results were overwritten")
			}
			x.checkDB("mutation-reaches-db:Find:result", "Find (decoded bytes and documents overwritten)")
		})

		// ---- distinct
		for _, f := range []string{"aa", "bb", "ab", "n.d.b", "arr", "n.e", "aa.1", "arr.v.d"} {
			f := f
			x.safely("Distinct", func() {
				vals, err := coll.Distinct(ctx, f, bson.D{})
				if err != nil {
					return
				}
				c1 := canonOf(vals)
				stored, _ := aliasReadAll(s)
				writes := aliasScribble(&vals)
				// binaries by hand as well (Binary.Data of values inside interfaces is not addressable through the walker)
				for _, v := range vals {
					if b, ok := v.(primitive.Binary); ok {
						for i := range b.Data {
							b.Data[i] ^= 0xff
							writes++
						}
					}
					if a, ok := v.(bson.A); ok {
						for i := range a {
							a[i] = aliasSentinel
							writes++
						}
					}
				}
				vals2, err := coll.Distinct(ctx, f, bson.D{})
				if err != nil || canonOf(vals2) != c1 {
					x.bad("distinct-shares-memory", fmt.Sprintf("Distinct(%q) after overwriting the values it returned (%d writes): %s, was %s (err %v)", f, writes, clip(canonOf(vals2), 200), clip(c1, 200), err))
				}
				if now, _ := aliasReadAll(s); now != stored {
					x.bad("distinct-shares-memory", fmt.Sprintf("the stored documents read differently after overwriting the values of Distinct(%q)", f))
				}
				x.checkDB("distinct-shares-memory", fmt.Sprintf("Distinct(%q) values overwritten", f))
			})
		}

		// ---- listings
		x.safely("ListIndexes", func() {
			list := func() (string, []bson.D, []bson.M) {
				var ds []bson.D
				var ms []bson.M
				if csr, err := coll.Indexes().List(ctx); err == nil {
					_ = csr.All(ctx, &ds)
				}
				if csr, err := coll.Indexes().List(ctx); err == nil {
					_ = csr.All(ctx, &ms)
				}
				return canonOf(ds), ds, ms
			}
			c1, ds, ms := list()
			aliasScribble(&ds, &ms)
			if c2, _, _ := list(); c2 != c1 {
				x.bad("listing-shares-memory:ListIndexes", "ListIndexes after overwriting the specifications it returned: "+clip(c2, 300)+" was "+clip(c1, 300))
			}
			x.checkDB("listing-shares-memory:ListIndexes", "ListIndexes specifications overwritten")
			// the definitions still act: a duplicate under the unique index is rejected
			if _, err := coll.InsertOne(ctx, bson.D{{Key: "_id", Value: int32(99)}, {Key: "u", Value: int32(0)}}); err == nil {
				x.bad("listing-shares-memory:ListIndexes", "a duplicate under the unique index u_1 was accepted after the listing was overwritten")
				x.rebase()
			}
		})
		x.safely("ListCollections", func() {
			db := s.client.Database(aliasNS[0][0])
			list := func() (string, []bson.D, []bson.M) {
				var ds []bson.D
				var ms []bson.M
				if csr, err := db.ListCollections(ctx, bson.D{}); err == nil {
					_ = csr.All(ctx, &ds)
				}
				if csr, err := db.ListCollections(ctx, bson.D{}); err == nil {
					_ = csr.All(ctx, &ms)
				}
				return canonOf(ds), ds, ms
			}
			c1, ds, ms := list()
			aliasScribble(&ds, &ms)
			if c2, _, _ := list(); c2 != c1 {
				x.bad("listing-shares-memory:ListCollections", "ListCollections after overwriting the specifications it returned: "+clip(c2, 300)+" was "+clip(c1, 300))
			}
			x.checkDB("listing-shares-memory:ListCollections", "ListCollections specifications overwritten")
		})
		x.safely("ListCollectionSpecifications", func() {
			db := s.client.Database(aliasNS[0][0])
			specs, err := db.ListCollectionSpecifications(ctx, bson.D{})
			if err != nil {
				return
			}
			c1 := canonOf(specs)
			aliasScribble(&specs)
			specs2, _ := db.ListCollectionSpecifications(ctx, bson.D{})
			if canonOf(specs2) != c1 {
				x.bad("listing-shares-memory:ListCollectionSpecifications", "specifications differ after the first ones were overwritten")
			}
			x.checkDB("listing-shares-memory:ListCollectionSpecifications", "collection specifications overwritten")
		})

		// ---- change streams: the events of the writes above
		x.safely("Watch", func() {
			if cs1 == nil || cs2 == nil {
				return
			}
			defer cs1.Close(ctx)
			defer cs2.Close(ctx)
			for k := 0; k < 4; k++ {
				if !cs1.TryNext(ctx) {
					break
				}
				var raw bson.Raw
				if err := cs1.Decode(&raw); err != nil {
					break
				}
				snap := append([]byte{}, raw...)
				var want bson.D
				_ = bson.Unmarshal(snap, &want)
				wantC := canonOf(want)
				tok := cs1.ResumeToken()
				tokSnap := append([]byte{}, tok...)
				ev := bson.M{}
				_ = cs1.Decode(&ev)
				var evD bson.D
				_ = cs1.Decode(&evD)
				// overwrite everything the first stream handed out
				for _, b := range [][]byte{raw[:cap(raw)], tok[:cap(tok)]} {
					for i := range b {
						b[i] ^= 0xff
					}
				}
				aliasScribble(&ev, &evD)
				var again bson.D
				if err := cs1.Decode(&again); err != nil || canonOf(again) != wantC {
					x.bad("stream-event-shared", fmt.Sprintf("event %d: Decode on the same stream after its results were overwritten gives %s (err %v), want %s", k, clip(canonOf(again), 250), err, clip(wantC, 250)))
				}
				if tok2 := cs1.ResumeToken(); !bytes.Equal(tok2, tokSnap) {
					x.bad("result-bytes-shared:ResumeToken", fmt.Sprintf("event %d: the resume token reads differently after the bytes of the first one were overwritten", k))
				}
				if !cs2.TryNext(ctx) {
					x.bad("stream-event-shared", fmt.Sprintf("event %d: the second stream has no event", k))
					break
				}
				var other bson.D
				if err := cs2.Decode(&other); err != nil || canonOf(other) != wantC {
					x.bad("stream-event-shared", fmt.Sprintf("event %d: a second stream delivers %s (err %v), the first one delivered %s before it was overwritten", k, clip(canonOf(other), 250), err, clip(wantC, 250)))
				}
				// a third stream resumed AFTER the previous event delivers this one as well
				if k > 0 && x.prevTok != nil {
					if cs3, err := coll.Watch(ctx, mongo.Pipeline{}, options.ChangeStream().SetResumeAfter(bson.Raw(x.prevTok))); err == nil {
						if cs3.TryNext(ctx) {
							var third bson.D
							if err := cs3.Decode(&third); err != nil || canonOf(third) != wantC {
								x.bad("stream-event-shared", fmt.Sprintf("event %d: a stream resumed after the previous event delivers %s (err %v), want %s", k, clip(canonOf(third), 250), err, clip(wantC, 250)))
							}
						} else {
							x.bad("stream-event-shared", fmt.Sprintf("event %d: a stream resumed after the previous event delivers nothing", k))
						}
						_ = cs3.Close(ctx)
					}
				}
				x.prevTok = tokSnap
				x.checkDB("mutation-reaches-db:Watch:result", fmt.Sprintf("change stream event %d overwritten", k))
			}
		})
		// ---- repeated hand-outs of one object; the engine-level API (alias_repeat.go)
		x.repeated()
		x.engineAPI()
		x.engineListings()
		return fmt.Sprintf(`{"bytes":"%016x","docs":%d,"viol":%d,"notes":%q}`, seed, n, len(x.viols), strings.Join(x.notes, ","))
	})
	tags := []string{"bytes-probe"}
	seenW := map[string]bool{}
	for _, v := range x.viols {
		if !seenW[v.Witness] {
			seenW[v.Witness] = true
			tags = append(tags, "w:"+v.Witness) // run.go keeps the first 50 violations only: the classes as tags
		}
	}
	return run.Case{Req: "", Impl: impl, Nontrivial: true, Tags: tags, Viols: x.viols}
}
