package streams

import (
	"go.mongodb.org/mongo-driver/bson"

	"github.com/256dpi/lungo/bsonkit"

	"verifharness/internal/gen"
	"verifharness/internal/run"
	"verifharness/internal/vj"
)

// Stream "clone" (C03, C17): bsonkit.Clone / CloneList must return a value that shares no
// bson.D / bson.A backing array with the original (Binary.Data is shared by design): every
// container position of the clone is overwritten in place, depth first, and the original must
// still encode identically. The write paths of the engine (Collection.Update → CloneList → Apply
// in place) rely on exactly this for snapshot immutability.

func scribble(v interface{}) {
	switch x := v.(type) {
	case bson.D:
		for i := range x {
			scribble(x[i].Value)
			x[i].Value = "scribbled"
		}
	case bson.A:
		for i := range x {
			scribble(x[i])
			x[i] = int32(-7)
		}
	}
}

func hasNestedArr(v interface{}, inArr bool) bool {
	switch x := v.(type) {
	case bson.D:
		for _, e := range x {
			if hasNestedArr(e.Value, false) {
				return true
			}
		}
	case bson.A:
		if inArr {
			return true
		}
		for _, e := range x {
			if hasNestedArr(e, true) {
				return true
			}
		}
	}
	return false
}

func init() {
	run.Register(&run.Stream{
		Name: "clone",
		Rule: "documents of depth ≤4 with arrays nested directly in arrays; Clone/CloneList, then every container position of the clone is overwritten in place; non-trivial = the document holds an array inside an array or a document inside an array",
		Gen: func(r *gen.R, idx int) []run.Case {
			doc := r.Doc(4, true, r.P(50))
			if r.P(40) {
				doc = append(doc, bson.E{Key: "grid", Value: bson.A{bson.A{int32(1), int32(2)}, bson.A{r.Scalar(), bson.A{r.Scalar()}}, bson.D{{Key: "k", Value: bson.A{bson.A{}}}}}})
			}
			orig := vj.Enc(doc)
			var viols []run.Violation
			impl := run.Safe(func() string {
				c := bsonkit.Clone(&doc)
				if vj.Enc(*c) != orig {
					return `{"ok":"clone-differs"}`
				}
				scribble(*c)
				l := bsonkit.CloneList(bsonkit.List{&doc})
				scribble(*l[0])
				return `{"ok":"cloned"}`
			})
			if impl != `{"ok":"cloned"}` {
				viols = append(viols, run.Violation{Property: "C03", What: "Clone does not reproduce the document or panics", Witness: "clone-broken", Req: orig, Detail: impl})
			} else if after := vj.Enc(doc); after != orig {
				for _, p := range []string{"C02", "C03", "C17"} {
					viols = append(viols, run.Violation{Property: p, What: "writing into a clone changes the original (shared backing array)", Witness: "clone-shares-memory", Req: orig, Detail: after})
				}
			}
			return []run.Case{{Impl: impl + orig, Nontrivial: hasNestedArr(doc, false), Tags: []string{"clone"}, Viols: viols}}
		},
	})
}
