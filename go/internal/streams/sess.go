package streams

import (
	"context"
	"errors"
	"fmt"
	"os"
	"sort"
	"strconv"
	"strings"
	"time"

	"go.mongodb.org/mongo-driver/bson"
	"go.mongodb.org/mongo-driver/bson/primitive"
	"go.mongodb.org/mongo-driver/mongo"
	"go.mongodb.org/mongo-driver/mongo/options"

	"github.com/256dpi/lungo"
	"github.com/256dpi/lungo/bsonkit"
	"github.com/256dpi/lungo/mongokit"

	"verifharness/internal/run"
	"verifharness/internal/vj"
)

// Stream "sess" (C03): several clients/sessions drive the REAL lungo engine ONE CALL AT A TIME
// (start / commit / abort / end / driver calls with or without the session context, store
// failures); every reply and the visible database are compared with the session-level model
// (lean/Lungo/Model/Session.lean via Driver.OpsApi `sess.*`), and model-independent monitors
// check snapshot immutability, visibility and atomicity on the implementation's own state.
//
// This file: call/step representation and request encoding, execution on the real driver,
// the history runner with its monitors. Generators and registration: sess_gen.go.

const sessDB = "d"

// SESS_TRACE=<history key> prints the replayable `sess.history` line of that history.
var sessTrace = os.Getenv("SESS_TRACE")

var sessColls = []string{"c", "e"}

// sessWait is the context timeout of every call that may have to wait for the writer slot.
const sessWait = 150 * time.Millisecond

// sessRetryWait is the deadline of the retry after a deadline that fired with a free slot.
const sessRetryWait = 3 * time.Second

// ---- calls ----

type sessCall struct {
	M       string
	Coll    string
	Doc     bson.D
	Docs    []bson.D
	Ordered bool
	Q       bson.D
	U       bson.D
	Repl    bson.D
	Sort    bson.D
	HasSort bool
	Skip    int64
	Limit   int64
	Upsert  bool
	After   bool
	Keys    bson.D
	Unique  bool
	Name    string
	Models  []apiBulk // bulkWrite
	Partial bson.D    // createIndex inside idxabort only (the model never sees it)
	Proj    bson.D    // findOneAnd*: projection of the returned document
	HasProj bool
}

func (c *sessCall) isWrite() bool {
	switch c.M {
	case "find", "findOne", "count", "listIndexes", "estCount":
		return false
	}
	return true
}

func (c *sessCall) directBegin() bool {
	switch c.M {
	case "createIndex", "dropCollection", "createCollection", "dropIndex", "dropAllIndexes":
		return true
	}
	return false
}

func (c *sessCall) handle() lungo.Handle { return lungo.Handle{sessDB, c.Coll} }

// fields renders the call fields of the request (names of Driver.OpsApi.callOf).
func (c *sessCall) fields() string {
	var sb strings.Builder
	sb.WriteString(`,"m":` + run.JS(c.M) + `,"h":[` + run.JS(sessDB) + `,` + run.JS(c.Coll) + `]`)
	sortOpt := func() {
		if c.HasSort {
			sb.WriteString(`,"sort":` + vj.Enc(c.Sort))
		}
	}
	projOpt := func() {
		if c.HasProj {
			sb.WriteString(`,"proj":` + vj.Enc(c.Proj))
		}
	}
	switch c.M {
	case "insertOne":
		sb.WriteString(`,"doc":` + vj.Enc(c.Doc))
	case "insertMany":
		sb.WriteString(`,"docs":` + sessEncDocs(c.Docs) + `,"ordered":` + strconv.FormatBool(c.Ordered))
	case "find":
		sb.WriteString(`,"q":` + vj.Enc(c.Q))
		sortOpt()
		if c.Skip != 0 {
			sb.WriteString(`,"skip":` + strconv.FormatInt(c.Skip, 10))
		}
		if c.Limit != 0 {
			sb.WriteString(`,"limit":` + strconv.FormatInt(c.Limit, 10))
		}
	case "findOne":
		sb.WriteString(`,"q":` + vj.Enc(c.Q))
		sortOpt()
	case "count", "deleteOne", "deleteMany":
		sb.WriteString(`,"q":` + vj.Enc(c.Q))
	case "updateOne", "updateMany":
		sb.WriteString(`,"q":` + vj.Enc(c.Q) + `,"u":` + vj.Enc(c.U) + `,"upsert":` + strconv.FormatBool(c.Upsert))
	case "replaceOne":
		sb.WriteString(`,"q":` + vj.Enc(c.Q) + `,"repl":` + vj.Enc(c.Repl) + `,"upsert":` + strconv.FormatBool(c.Upsert))
	case "findOneAndUpdate":
		sb.WriteString(`,"q":` + vj.Enc(c.Q) + `,"u":` + vj.Enc(c.U) + `,"upsert":` + strconv.FormatBool(c.Upsert) + `,"after":` + strconv.FormatBool(c.After))
		sortOpt()
		projOpt()
	case "findOneAndReplace":
		sb.WriteString(`,"q":` + vj.Enc(c.Q) + `,"repl":` + vj.Enc(c.Repl) + `,"upsert":` + strconv.FormatBool(c.Upsert) + `,"after":` + strconv.FormatBool(c.After))
		sortOpt()
		projOpt()
	case "createIndex":
		sb.WriteString(`,"keys":` + vj.Enc(c.Keys) + `,"unique":` + strconv.FormatBool(c.Unique) + `,"expiry":0`)
		if c.Partial != nil {
			sb.WriteString(`,"partial":` + vj.Enc(c.Partial))
		}
	case "findOneAndDelete":
		sb.WriteString(`,"q":` + vj.Enc(c.Q))
		sortOpt()
		projOpt()
	case "dropIndex":
		sb.WriteString(`,"name":` + run.JS(c.Name))
	case "bulkWrite":
		// the encoding of the api stream (Driver.OpsApi.callOf)
		line := (&apiCall{M: "bulkWrite", Ordered: c.Ordered, Models: c.Models}).req(nil, "")
		i, j := strings.Index(line, `,"ordered":`), strings.LastIndex(line, `,"oids":`)
		sb.WriteString(line[i:j])
	case "dropCollection", "listIndexes", "estCount", "createCollection", "dropAllIndexes":
	}
	return sb.String()
}

// ---- steps ----

// sessStep is one step of a history. Sid = -1 is the plain client (no session context).
type sessStep struct {
	K         string // start commit abort end call idxabort (an index operation directly on the open transaction, then abort)
	Sid       int
	C         *sessCall
	FailStore bool   // the next Store of the (wrapped) memory store fails
	Snap      string // snapshot to take after the step: "", catalog, txn, sesscat, cursor:<coll>, sesscursor:<coll>
	hk        string
}

func sessSidJ(sid int) string {
	if sid < 0 {
		return "null"
	}
	return strconv.Itoa(sid)
}

// req renders the `sess.step` request. modelK is the kind sent to the model (a commit whose
// store fails is sent as `abort`: the model has no store-failure step and the effect on the
// visible state is the same); the harness-only fields real/failStore/snap/skipModel make the
// line replayable.
func (st *sessStep) req(modelK string, oids []interface{}, skipModel bool) string {
	var sb strings.Builder
	sb.WriteString(`{"op":"sess.step","k":` + run.JS(modelK) + `,"sid":` + sessSidJ(st.Sid))
	if st.K == "call" {
		sb.WriteString(st.C.fields())
		sb.WriteString(`,"oids":` + sessEncVals(oids))
	}
	if st.K == "idxabort" && st.C != nil {
		sb.WriteString(st.C.fields()) // harness-only: the model sees an abort
	}
	if modelK != st.K {
		sb.WriteString(`,"real":` + run.JS(st.K))
	}
	if st.FailStore {
		sb.WriteString(`,"failStore":true`)
	}
	if st.Snap != "" {
		sb.WriteString(`,"snap":` + run.JS(st.Snap))
	}
	if skipModel {
		sb.WriteString(`,"skipModel":true`)
	}
	if st.hk != "" {
		sb.WriteString(`,"hk":` + run.JS(st.hk)) // history key + step number (triage: SESS_TRACE=<key>)
	}
	sb.WriteString(`}`)
	return sb.String()
}

// ---- the store wrapper ----

var errSessStore = errors.New("sess: injected store failure")

// sessFailStore wraps the memory store and fails Store on demand.
type sessFailStore struct {
	inner  *lungo.MemoryStore
	fail   bool
	stores int
	failed int
}

func (s *sessFailStore) Load() (*lungo.Catalog, error) { return s.inner.Load() }

func (s *sessFailStore) Store(c *lungo.Catalog) error {
	s.stores++
	if s.fail {
		s.failed++
		return errSessStore
	}
	return s.inner.Store(c)
}

// ---- snapshots ----

type sessSnap struct {
	kind   string
	step   int
	base   string
	read   func() string
	heap   func() string // fingerprint of the reachable backing arrays (sess_heap.go)
	heap0  string
	cursor lungo.ICursor
	dead   bool
}

// ---- runner ----

type sessRunner struct {
	store    *sessFailStore
	client   lungo.IClient
	engine   *lungo.Engine
	sess     []*lungo.Session
	ended    []bool
	hist     []string
	snaps    []*sessSnap
	seenOids map[primitive.ObjectID]bool
	// committed dump after the previous step, and the per-collection documents when the open
	// transaction started
	committed   string
	openDocs    map[string]string
	blocked     int // number of calls that waited for the slot (they cost sessWait each)
	dead        bool
	nstep       int
	hk          string // history key (harness-only request field)
	txnFailed   int    // failed / successful write statements of the open transaction
	txnWrote    int
	txnLateProj int             // find-and-modify statements of the open transaction whose projection failed
	reported    map[string]bool // index issues already reported in this history
}

func newSessRunner(nSess int) (*sessRunner, error) {
	store := &sessFailStore{inner: lungo.NewMemoryStore()}
	client, engine, err := lungo.Open(nil, lungo.Options{Store: store})
	if err != nil {
		return nil, err
	}
	m := &sessRunner{store: store, client: client, engine: engine, seenOids: map[primitive.ObjectID]bool{}}
	for i := 0; i < nSess; i++ {
		s, err := client.StartSession()
		if err != nil {
			engine.Close()
			return nil, err
		}
		ls, ok := s.(*lungo.Session)
		if !ok {
			engine.Close()
			return nil, fmt.Errorf("unexpected session type %T", s)
		}
		m.sess = append(m.sess, ls)
		m.ended = append(m.ended, false)
	}
	m.committed = sessDump(engine.Catalog())
	return m, nil
}

func (m *sessRunner) close() { m.engine.Close() }

func (m *sessRunner) hkField() string {
	if m.hk == "" {
		return ""
	}
	return `,"hk":` + run.JS(m.hk+"/"+strconv.Itoa(m.nstep))
}

// holder is the session whose transaction is active (-1: none).
func (m *sessRunner) holder() int {
	for i, s := range m.sess {
		if s.Transaction() != nil {
			return i
		}
	}
	return -1
}

// view is the catalog a call of the given client sees.
func (m *sessRunner) view(sid int) *lungo.Catalog {
	if sid >= 0 && sid < len(m.sess) {
		if t := m.sess[sid].Transaction(); t != nil {
			return t.Catalog()
		}
	}
	return m.engine.Catalog()
}

func (m *sessRunner) histReq() string {
	return `{"op":"sess.history","sessions":` + strconv.Itoa(len(m.sess)) + `,"steps":[` + strings.Join(m.hist, ",") + `]}`
}

var sessPoolOids = map[primitive.ObjectID]bool{
	{0, 0, 0, 0, 0, 0, 0, 0, 0, 0, 0, 1}: true, {0, 0, 0, 0, 0, 0, 0, 0, 0, 0, 0, 2}: true, {1, 0, 0, 0, 0, 0, 0, 0, 0, 0, 0, 0}: true,
}

// sessDummyOid is the spare generated id handed to the model after the observed ones (a
// failing insert peeks at it without consuming it).
var sessDummyOid = primitive.ObjectID{0xff, 0xff, 0xff, 0xff, 0xff, 0xff, 0xff, 0xff, 0xff, 0xff, 0xff, 0xff}

func sessOplog(c *lungo.Catalog) bsonkit.List {
	if c == nil {
		return nil
	}
	if ns := c.Namespaces[lungo.Oplog]; ns != nil {
		return ns.Documents.List
	}
	return nil
}

// exec runs one driver call with the given context.
func (m *sessRunner) exec(ctx context.Context, c *sessCall) (reply string, panicked string) {
	defer func() {
		if p := recover(); p != nil {
			reply = sessPanicReply
			panicked = fmt.Sprint(p)
			if panicked == "" {
				panicked = "panic"
			}
		}
	}()
	coll := m.client.Database(sessDB).Collection(c.Coll)
	switch c.M {
	case "insertOne":
		res, err := coll.InsertOne(ctx, c.Doc)
		if err != nil {
			return sessErrReply(err), ""
		}
		return `{"ok":{"id":` + vj.Enc(res.InsertedID) + `}}`, ""
	case "insertMany":
		docs := make([]interface{}, 0, len(c.Docs))
		for _, d := range c.Docs {
			docs = append(docs, d)
		}
		res, err := coll.InsertMany(ctx, docs, options.InsertMany().SetOrdered(c.Ordered))
		if res == nil {
			return sessErrReply(err), ""
		}
		cls := "null"
		if err != nil {
			cls = `"` + sessErrClass(err) + `"`
		}
		return `{"ok":{"err":` + cls + `,"ids":` + sessEncVals(res.InsertedIDs) + `}}`, ""
	case "find":
		o := options.Find()
		if c.HasSort {
			o.SetSort(c.Sort)
		}
		if c.Skip != 0 {
			o.SetSkip(c.Skip)
		}
		if c.Limit != 0 {
			o.SetLimit(c.Limit)
		}
		csr, err := coll.Find(ctx, c.Q, o)
		return sessCursorReply(csr, err), ""
	case "findOne":
		o := options.FindOne()
		if c.HasSort {
			o.SetSort(c.Sort)
		}
		return sessSingleReply(coll.FindOne(ctx, c.Q, o)), ""
	case "count":
		n, err := coll.CountDocuments(ctx, c.Q)
		if err != nil {
			return sessErrReply(err), ""
		}
		return fmt.Sprintf(`{"ok":{"n":%d}}`, n), ""
	case "updateOne":
		return sessUpdateReply(coll.UpdateOne(ctx, c.Q, c.U, options.Update().SetUpsert(c.Upsert))), ""
	case "updateMany":
		return sessUpdateReply(coll.UpdateMany(ctx, c.Q, c.U, options.Update().SetUpsert(c.Upsert))), ""
	case "replaceOne":
		return sessUpdateReply(coll.ReplaceOne(ctx, c.Q, c.Repl, options.Replace().SetUpsert(c.Upsert))), ""
	case "deleteOne", "deleteMany":
		var res *mongo.DeleteResult
		var err error
		if c.M == "deleteOne" {
			res, err = coll.DeleteOne(ctx, c.Q)
		} else {
			res, err = coll.DeleteMany(ctx, c.Q)
		}
		if err != nil {
			return sessErrReply(err), ""
		}
		return fmt.Sprintf(`{"ok":{"n":%d}}`, res.DeletedCount), ""
	case "findOneAndUpdate":
		o := options.FindOneAndUpdate().SetUpsert(c.Upsert)
		if c.After {
			o.SetReturnDocument(options.After)
		}
		if c.HasSort {
			o.SetSort(c.Sort)
		}
		if c.HasProj {
			o.SetProjection(c.Proj)
		}
		return sessSingleReply(coll.FindOneAndUpdate(ctx, c.Q, c.U, o)), ""
	case "findOneAndReplace":
		o := options.FindOneAndReplace().SetUpsert(c.Upsert)
		if c.After {
			o.SetReturnDocument(options.After)
		}
		if c.HasSort {
			o.SetSort(c.Sort)
		}
		if c.HasProj {
			o.SetProjection(c.Proj)
		}
		return sessSingleReply(coll.FindOneAndReplace(ctx, c.Q, c.Repl, o)), ""
	case "bulkWrite":
		var models []mongo.WriteModel
		for i := range c.Models {
			models = append(models, c.Models[i].model())
		}
		res, err := coll.BulkWrite(ctx, models, options.BulkWrite().SetOrdered(c.Ordered))
		if res == nil {
			return sessErrReply(err), ""
		}
		return bulkReply(res, err), ""
	case "createIndex":
		im := mongo.IndexModel{Keys: c.Keys}
		if c.Unique {
			im.Options = options.Index().SetUnique(true)
		}
		name, err := coll.Indexes().CreateOne(ctx, im)
		if err != nil {
			return sessErrReply(err), ""
		}
		return `{"ok":{"name":` + run.JS(name) + `}}`, ""
	case "dropCollection":
		if err := coll.Drop(ctx); err != nil {
			return sessErrReply(err), ""
		}
		return sessUnitReply, ""
	case "createCollection":
		if err := m.client.Database(sessDB).CreateCollection(ctx, c.Coll); err != nil {
			return sessErrReply(err), ""
		}
		return sessUnitReply, ""
	case "dropIndex":
		if _, err := coll.Indexes().DropOne(ctx, c.Name); err != nil {
			return sessErrReply(err), ""
		}
		return sessUnitReply, ""
	case "dropAllIndexes":
		if _, err := coll.Indexes().DropAll(ctx); err != nil {
			return sessErrReply(err), ""
		}
		return sessUnitReply, ""
	case "estCount":
		n, err := coll.EstimatedDocumentCount(ctx)
		if err != nil {
			return sessErrReply(err), ""
		}
		return fmt.Sprintf(`{"ok":{"n":%d}}`, n), ""
	case "findOneAndDelete":
		o := options.FindOneAndDelete()
		if c.HasSort {
			o.SetSort(c.Sort)
		}
		if c.HasProj {
			o.SetProjection(c.Proj)
		}
		return sessSingleReply(coll.FindOneAndDelete(ctx, c.Q, o)), ""
	case "listIndexes":
		csr, err := coll.Indexes().List(ctx)
		return sessCursorReply(csr, err), ""
	}
	return `{"bad":"unknown method"}`, ""
}

// execAs runs the call as the plain client (sid < 0) or with the session context of sid; the
// context expires after the given time.
func (m *sessRunner) execAs(sid int, c *sessCall, wait time.Duration) (reply, panicked string) {
	ctx, cancel := context.WithTimeout(context.Background(), wait)
	defer cancel()
	if sid < 0 {
		return m.exec(ctx, c)
	}
	err := lungo.WithSession(ctx, m.sess[sid], func(sc lungo.ISessionContext) error {
		reply, panicked = m.exec(sc, c)
		return nil
	})
	if err != nil {
		return sessErrReply(err), ""
	}
	return reply, panicked
}

// slotFree reports whether a locked transaction can be started promptly.
func (m *sessRunner) slotFree() bool {
	for _, wait := range []time.Duration{sessWait, sessRetryWait} {
		ctx, cancel := context.WithTimeout(context.Background(), wait)
		txn, err := m.engine.Begin(ctx, true)
		cancel()
		if err == nil {
			m.engine.Abort(txn)
			return true
		}
	}
	return false
}

// plainDocs reads one collection through the public API without a session (sid < 0) or with
// the context of session sid.
func (m *sessRunner) plainDocs(coll string, sid int) (out string) {
	defer func() {
		if p := recover(); p != nil {
			out = `{"panic":` + run.JS(fmt.Sprint(p)) + `}`
		}
	}()
	var csr lungo.ICursor
	var err error
	if sid < 0 {
		csr, err = m.client.Database(sessDB).Collection(coll).Find(context.Background(), bson.D{})
	} else {
		_ = lungo.WithSession(context.Background(), m.sess[sid], func(sc lungo.ISessionContext) error {
			csr, err = m.client.Database(sessDB).Collection(coll).Find(sc, bson.D{})
			return nil
		})
	}
	if err != nil || csr == nil {
		return `{"err":"err"}`
	}
	var docs []bson.D
	if err := csr.All(context.Background(), &docs); err != nil {
		return `{"err":"err"}`
	}
	return sessEncDocs(docs)
}

type sessOut struct {
	cases []run.Case
	reply string
}

func sessIsOK(reply string) bool { return strings.HasPrefix(reply, `{"ok"`) }

// step executes one step on the real engine, runs the monitors and returns the cases for the
// model comparison (the step itself, then dumps that must agree with the model's).
func (m *sessRunner) step(st *sessStep, h *sessHist) sessOut {
	m.nstep++
	if m.hk != "" {
		st.hk = m.hk + "/" + strconv.Itoa(m.nstep)
	}
	preCat := m.engine.Catalog()
	preDump := m.committed
	holder := m.holder()
	preDeep := ""
	if holder >= 0 && (st.K == "abort" || st.K == "end" || st.K == "idxabort") {
		preDeep = sessDumpOpt(preCat, true)
	}
	var s *lungo.Session
	if st.Sid >= 0 && st.Sid < len(m.sess) {
		s = m.sess[st.Sid]
	}
	bg := context.Background()

	var viols []run.Violation
	var tags []string
	var reqLine string
	viol := func(prop, what, witness, detail string) {
		viols = append(viols, run.Violation{Property: prop, What: what, Witness: witness, Req: "", Detail: clip(detail, 700)})
	}

	reply, pan := "", ""
	modelK := st.K
	skipModel := false
	var oids []interface{}
	viewDump := ""       // the transaction's view right before a commit
	storeFailed := false // the injected failure was hit
	wasDirty := false
	preView := m.view(st.Sid)
	preLog := sessOplog(preView)
	inTxnWrite := st.K == "call" && holder >= 0 && st.Sid == holder && st.C != nil && st.C.isWrite()
	viewDeep := ""
	if inTxnWrite {
		viewDeep = sessDumpOpt(preView, true)
	}

	switch st.K {
	case "start":
		switch {
		case s == nil:
			reply = `{"bad":"no session"}`
		case holder >= 0 && holder != st.Sid && !m.ended[st.Sid]:
			// StartTransaction would wait a minute; WithTransaction starts with the caller's
			// context, so the same Begin is exercised with a deadline
			ctx, cancel := context.WithTimeout(bg, sessWait)
			called := false
			_, err := s.WithTransaction(ctx, func(lungo.ISessionContext) (interface{}, error) {
				called = true
				return nil, nil
			})
			cancel()
			m.blocked++
			if called {
				reply = sessDoneReply
				viol("C03", "a second session started a transaction while another one held the writer slot", "two-writers", "")
			} else if err != nil {
				reply = sessErrReply(err)
			} else {
				reply = `{"bad":"WithTransaction returned nil without calling back"}`
			}
			tags = append(tags, "start-while-held")
		default:
			if err := s.StartTransaction(); err != nil {
				reply = sessErrReply(err)
			} else {
				reply = sessDoneReply
				m.openDocs = map[string]string{}
				for _, c := range sessColls {
					m.openDocs[c] = sessDocsOf(preCat, lungo.Handle{sessDB, c})
				}
			}
		}
	case "commit":
		if s == nil {
			reply = `{"bad":"no session"}`
			break
		}
		if t := s.Transaction(); t != nil {
			viewDump = sessDump(t.Catalog())
			wasDirty = t.Dirty()
		}
		failedBefore := m.store.failed
		m.store.fail = st.FailStore
		err := s.CommitTransaction(bg)
		m.store.fail = false
		storeFailed = m.store.failed > failedBefore
		switch {
		case storeFailed:
			// not a step of the model: sent as abort (same effect on the visible state)
			modelK = "abort"
			reply = sessDoneReply
			tags = append(tags, "commit-store-failed(sent-as-abort)")
			if err == nil {
				viol("C03", "CommitTransaction reported success although the store failed", "commit-ignored-store-error", "")
			}
		case err != nil:
			reply = sessErrReply(err)
		default:
			reply = sessDoneReply
		}
	case "abort":
		if s == nil {
			reply = `{"bad":"no session"}`
			break
		}
		if err := s.AbortTransaction(bg); err != nil {
			reply = sessErrReply(err)
		} else {
			reply = sessDoneReply
		}
	case "idxabort":
		// createIndex / dropIndex directly on the session's open transaction (the driver refuses index
		// management inside a transaction: nested Begin), then abort; the model sees the abort only
		modelK = "abort"
		if s == nil {
			reply = `{"bad":"no session"}`
			break
		}
		if t := s.Transaction(); t != nil && st.C != nil {
			tags = append(tags, "txn-index-op:"+st.C.M+":"+m.txnIndexOp(t, st.C, viol))
		}
		if err := s.AbortTransaction(bg); err != nil {
			reply = sessErrReply(err)
		} else {
			reply = sessDoneReply
		}
	case "end":
		if s == nil {
			reply = `{"bad":"no session"}`
			break
		}
		s.EndSession(bg)
		m.ended[st.Sid] = true
		reply = sessDoneReply
	case "call":
		failedBefore := m.store.failed
		m.store.fail = st.FailStore
		reply, pan = m.execAs(st.Sid, st.C, sessWait)
		if reply == sessBlockedReply && holder < 0 {
			// no transaction is open, so nobody holds the slot: the deadline fired because this
			// process was starved (loaded machine), before Begin ran — nothing was executed. Retry
			// with a long deadline; a second expiry is a leaked writer slot.
			reply, pan = m.execAs(st.Sid, st.C, sessRetryWait)
			tags = append(tags, "retried-after-spurious-deadline")
			if reply == sessBlockedReply {
				viol("C03", "a write waits for the writer slot although no transaction is open", "blocked-without-holder", st.C.M)
				m.dead = true
			}
		}
		m.store.fail = false
		storeFailed = m.store.failed > failedBefore
		if storeFailed {
			// a plain write whose implicit commit failed: no step of the model
			skipModel = true
			tags = append(tags, "plain-store-failed(not-sent)")
			if sessIsOK(reply) {
				viol("C03", "a write reported success although the store failed", "write-ignored-store-error", reply)
			}
		}
		if reply == sessBlockedReply {
			m.blocked++
		}
		// generated ObjectIDs, in order of the new insert events of the catalog the call saw
		postLog := sessOplog(m.view(st.Sid))
		if len(postLog) >= len(preLog) {
			for _, ev := range postLog[len(preLog):] {
				if bsonkit.Get(ev, "operationType") != "insert" {
					continue
				}
				if o, ok := bsonkit.Get(ev, "documentKey._id").(primitive.ObjectID); ok && !sessPoolOids[o] && !m.seenOids[o] {
					m.seenOids[o] = true
					oids = append(oids, o)
				}
			}
		}
		oids = append(oids, sessDummyOid)
	default:
		reply = `{"bad":"unknown step"}`
	}

	reqLine = st.req(modelK, oids, skipModel)
	m.hist = append(m.hist, reqLine)

	postCat := m.engine.Catalog()
	postDump := sessDump(postCat)
	m.committed = postDump
	postHolder := m.holder()

	if pan != "" {
		viol("C20", "driver call panicked", "sess-panic:"+st.C.M, pan)
		m.dead = true
	}

	// ---- statements inside a transaction (C02 / C15 / C07) ----
	// a statement that FAILED (e.g. in the index phase, at the second document of a multi-update) leaves
	// the transaction's view exactly as it was: the application may ignore the error and commit, and the
	// committed catalog then is the transaction without the failed statement — documents and indexes
	if inTxnWrite && pan == "" {
		cur := m.view(st.Sid)
		if !sessIsOK(reply) && reply != sessBlockedReply {
			m.txnFailed++
			tags = append(tags, "txn-statement-failed")
			if st.C.HasProj && isLateFailing(st.C.Proj) {
				m.txnLateProj++
				tags = append(tags, "txn-projection-failed:"+st.C.M)
			}
			if now := sessDumpOpt(cur, true); now != viewDeep {
				viol("C02", "a failed statement inside a transaction changed the transaction's view", "failed-statement-leaked", "reply "+reply+"\nbefore "+viewDeep+"\nafter  "+now)
			}
		} else if sessIsOK(reply) && cur != preView {
			m.txnWrote++
		}
		m.coherent(cur, "the transaction's view after "+st.C.M+" "+clip(reply, 40), viol)
		m.uniqueOK(cur, viol)
	}
	if st.K == "call" && !inTxnWrite && st.C.isWrite() && pan == "" && postCat != preCat {
		m.coherent(postCat, "the committed catalog after "+st.C.M, viol)
		m.uniqueOK(postCat, viol)
	}
	if st.K == "call" && st.C.M == "insertOne" && reply == `{"err":"dup"}` {
		if !collides(preView.Namespaces[st.C.handle()], st.C.Doc) {
			viol("C07", "an insert was rejected as duplicate although no unique index holds a colliding key", "spurious-dup", vj.Enc(st.C.Doc))
		}
	}

	// ---- visibility / atomicity monitors (independent of the model) ----
	inTxnCall := st.K == "call" && holder >= 0 && st.Sid == holder
	committedOK := st.K == "commit" && holder >= 0 && st.Sid == holder && reply == sessDoneReply && !storeFailed
	if st.K == "commit" || st.K == "abort" || st.K == "end" || st.K == "idxabort" {
		if committedOK {
			if m.txnFailed > 0 && m.txnWrote > 0 {
				tags = append(tags, "commit-after-failed-statement")
			}
			if m.txnLateProj > 0 {
				tags = append(tags, "commit-after-failed-projection")
			}
			m.coherent(postCat, "the committed catalog after commit", viol)
			m.uniqueOK(postCat, viol)
		}
		if postHolder < 0 {
			m.txnFailed, m.txnWrote, m.txnLateProj = 0, 0, 0
		}
	}
	switch {
	case committedOK:
		if postDump != viewDump {
			viol("C03", "after a successful commit the committed catalog is not the transaction's last view", "commit-not-atomic",
				"view      "+viewDump+"\ncommitted "+postDump)
		}
		if wasDirty {
			if sc, _ := m.store.inner.Load(); sc != postCat {
				viol("C03", "the published catalog is not the stored one", "publish-without-store", "")
			}
		}
	case holder >= 0:
		// a transaction was open before the step and the step did not commit it
		if postDump != preDump {
			w, what := "blocked-call-changed", "a step that did not commit changed the committed catalog while a transaction was open"
			switch {
			case inTxnCall:
				w, what = "uncommitted-visible", "a write inside an open transaction changed the committed catalog"
			case st.K == "abort" || st.K == "end" || st.K == "idxabort":
				w, what = "abort-leaked", "abort/end changed the committed catalog"
			case storeFailed:
				w, what = "commit-failed-changed", "a commit whose store failed changed the committed catalog"
			}
			viol("C03", what, w, "before "+preDump+"\nafter  "+postDump)
		}
	case storeFailed:
		if postDump != preDump {
			viol("C03", "a write whose store failed changed the committed catalog", "commit-failed-changed", "before "+preDump+"\nafter  "+postDump)
		}
	case st.K != "call" || !sessIsOK(reply):
		// no transaction open; session control steps and failed calls leave the catalog alone
		if postDump != preDump {
			viol("C03", "a step that reported no successful write changed the committed catalog", "error-changed-state:"+st.K, "before "+preDump+"\nafter  "+postDump)
		}
	}
	// C15: after an abort the committed catalog has exactly the previous index names and contents
	// (members in index order, entries coherent with the documents), also when the aborted transaction
	// created or dropped indexes
	if preDeep != "" {
		if postDeep := sessDumpOpt(postCat, true); postDeep != preDeep {
			viol("C15", "an aborted transaction changed the indexes or documents of the committed catalog", "abort-leaked-index", "before "+preDeep+"\nafter  "+postDeep)
		}
		m.coherent(postCat, "the committed catalog after "+st.K, viol)
	}
	if storeFailed {
		if sc, _ := m.store.inner.Load(); sc != postCat {
			viol("C03", "after a failed store the engine's catalog is not the stored one", "publish-without-store", "")
		}
	}
	// the slot must be free again after commit / abort / end / a failed commit
	if postHolder < 0 && (st.K != "call" || storeFailed) && st.K != "start" {
		if !m.slotFree() {
			w := "slot-not-released:" + st.K
			if storeFailed {
				w = "wedged-after-failed-commit"
			}
			viol("C03", "the writer slot cannot be acquired although no transaction is open", w, reply)
			m.dead = true
		}
	}
	// dirty read: while a transaction is open a plain Find sees the data committed at its start
	if postHolder >= 0 && m.openDocs != nil {
		for _, c := range sessColls {
			if got := m.plainDocs(c, -1); got != m.openDocs[c] {
				viol("C03", "a Find without the session sees something else than the committed data while a transaction is open", "dirty-read",
					"coll "+c+"\ncommitted "+m.openDocs[c]+"\nfound     "+got)
			}
		}
	}
	// read-your-writes: a Find with the session context sees the transaction's own catalog
	if postHolder >= 0 && !m.dead {
		if t := m.sess[postHolder].Transaction(); t != nil {
			for _, c := range sessColls {
				want := sessDocsOf(t.Catalog(), lungo.Handle{sessDB, c})
				if got := m.plainDocs(c, postHolder); got != want {
					viol("C03", "a Find with the session context does not see the transaction's own catalog", "txn-read-not-own-view",
						"coll "+c+"\nview  "+want+"\nfound "+got)
				}
			}
		}
	}
	if postHolder < 0 {
		m.openDocs = nil
	}

	// ---- snapshot monitor: every earlier snapshot re-read after this step ----
	for _, sn := range m.snaps {
		if sn.dead {
			continue
		}
		if cur := sn.read(); cur != sn.base {
			sn.dead = true
			viol("C03", fmt.Sprintf("a %s snapshot taken after step %d changed during step %d", sn.kind, sn.step, m.nstep),
				"snapshot-changed:"+sn.kind, "was "+sn.base+"\nnow "+cur)
		} else if sn.heap != nil && sn.heap() != sn.heap0 {
			sn.dead = true
			viol("C03", fmt.Sprintf("memory reachable from a %s snapshot taken after step %d was written during step %d (its observable value is unchanged)", sn.kind, sn.step, m.nstep),
				"snapshot-heap-written:"+sn.kind, "")
		}
	}
	if st.Snap != "" && !m.dead {
		if sn := m.takeSnap(st.Snap, st.Sid); sn != nil {
			m.snaps = append(m.snaps, sn)
			tags = append(tags, "snap:"+sn.kind)
		}
	}

	// ---- tags ----
	who := "plain"
	if st.Sid >= 0 {
		who = "sess"
		if inTxnCall {
			who = "txn"
		} else if m.ended[st.Sid] && st.K != "end" {
			who = "ended-sess"
		}
	}
	kind := st.K
	if st.K == "call" {
		rw := "read"
		if st.C.isWrite() {
			rw = "write"
		}
		kind = "call:" + who + ":" + rw
		tags = append(tags, "m:"+st.C.M)
		if holder >= 0 && !inTxnCall {
			tags = append(tags, "call-while-txn-open:"+rw)
		}
	} else {
		kind = st.K + ":" + who
	}
	tags = append(tags, "k:"+kind)
	switch {
	case pan != "":
		tags = append(tags, "cls:panic")
	case reply == sessBlockedReply:
		tags = append(tags, "cls:blocked")
	case sessIsOK(reply):
		tags = append(tags, "cls:ok")
	case strings.Contains(reply, `"dup"`):
		tags = append(tags, "cls:dup")
	default:
		tags = append(tags, "cls:err")
	}
	changed := postDump != preDump
	if changed {
		tags = append(tags, "committed-changed")
	}
	viewChanged := false
	if inTxnCall {
		if t := m.sess[holder].Transaction(); t != nil && t.Catalog() != preView {
			viewChanged = true
			tags = append(tags, "txn-view-changed")
		}
	}
	nonEmpty := sessIsOK(reply) && !strings.Contains(reply, `:[]}}`) && !strings.Contains(reply, `"doc":null`) &&
		reply != `{"ok":{"n":0}}` && !strings.Contains(reply, `"matched":0,"modified":0,"upserted":null`)
	nontrivial := reply == sessBlockedReply || changed || viewChanged ||
		(st.K != "call" && sessIsOK(reply)) || (st.K == "call" && nonEmpty)

	for i := range viols {
		viols[i].Req = m.histReq()
	}

	var out sessOut
	out.reply = reply
	if skipModel {
		out.cases = append(out.cases, run.Case{Req: "", Impl: reply, Nontrivial: nontrivial, Tags: tags, Viols: viols})
	} else {
		out.cases = append(out.cases, run.Case{Req: reqLine, Impl: reply, Nontrivial: nontrivial, Tags: tags, Viols: viols, Accept: h.accept(reply)})
	}
	// read-your-writes as a state comparison: the transaction's view equals the model's
	if inTxnCall && !m.dead {
		if t := m.sess[holder].Transaction(); t != nil {
			d := sessDump(t.Catalog())
			out.cases = append(out.cases, run.Case{Req: `{"op":"sess.dumpTxn","sid":` + strconv.Itoa(holder) + m.hkField() + `}`, Impl: d,
				Tags: []string{"cmp:dumpTxn"}, Accept: h.accept(d)})
		}
	}
	if committedOK || storeFailed || (st.K == "call" && !inTxnCall && changed) {
		out.cases = append(out.cases, run.Case{Req: `{"op":"sess.dump"` + m.hkField() + `}`, Impl: postDump, Tags: []string{"cmp:dump"}, Accept: h.accept(postDump)})
	}
	return out
}

// coherent runs the index coherence monitor of the api stream (api_index.go) on every namespace.
func (m *sessRunner) coherent(cat *lungo.Catalog, where string, viol func(prop, what, witness, detail string)) {
	defer func() {
		if p := recover(); p != nil {
			viol("C20", "monitor index panicked on the implementation's state", "monitor-panic:index", fmt.Sprint(p))
		}
	}()
	if cat == nil {
		return
	}
	for _, h := range sessSortedHandles(cat) {
		issues := indexIssues(cat.Namespaces[h])
		if is, bad := idIndexIssue(h, cat.Namespaces[h]); bad {
			issues = append(issues, is)
		}
		for _, is := range issues {
			if k := h.String() + "|" + is.reason + "|" + is.detail; m.reported[k] {
				continue
			} else if m.reported == nil {
				m.reported = map[string]bool{k: true}
			} else {
				m.reported[k] = true
			}
			viol("C15", "an index does not hold exactly the documents of its collection (within its partial filter) in key order", "index-incoherent:"+is.reason,
				h.String()+" in "+where+": "+is.detail)
		}
	}
}

func isLateFailing(p bson.D) bool {
	return len(p) == 1 && strings.Contains(vj.Enc(p), "$bogus")
}

// uniqueOK: no two documents under a unique index share a key tuple (own pairwise scan, api_run.go).
func (m *sessRunner) uniqueOK(cat *lungo.Catalog, viol func(prop, what, witness, detail string)) {
	defer func() { _ = recover() }()
	if cat == nil {
		return
	}
	for _, h := range sessSortedHandles(cat) {
		if h == lungo.Oplog {
			continue
		}
		if name, a, b := uniqueViolation(cat.Namespaces[h]); name != "" {
			k := h.String() + "|unique|" + name + "|" + vj.Enc(*a) + vj.Enc(*b)
			if m.reported[k] {
				continue
			}
			if m.reported == nil {
				m.reported = map[string]bool{}
			}
			m.reported[k] = true
			viol("C07", "two documents under a unique index share a key tuple", "unique-violated:"+name, h.String()+" "+vj.Enc(*a)+" "+vj.Enc(*b))
		}
	}
}

func sessIndexNames(cat *lungo.Catalog, h lungo.Handle) string {
	if cat == nil || cat.Namespaces[h] == nil {
		return "<no namespace>"
	}
	var names []string
	for n := range cat.Namespaces[h].Indexes {
		names = append(names, n)
	}
	sort.Strings(names)
	return strings.Join(names, ",")
}

// txnIndexOp performs an index operation directly on an open transaction and checks the
// transaction's view: a failed operation leaves the index names alone, a successful one has
// exactly its effect, and every index of the view is coherent. Returns the error class.
func (m *sessRunner) txnIndexOp(t *lungo.Transaction, c *sessCall, viol func(prop, what, witness, detail string)) (cls string) {
	defer func() {
		if p := recover(); p != nil {
			cls = "panic"
			viol("C20", "index operation on a transaction panicked", "sess-panic:txn-"+c.M, fmt.Sprint(p))
		}
	}()
	h := c.handle()
	before := sessIndexNames(t.Catalog(), h)
	var err error
	name := c.Name
	switch c.M {
	case "createIndex":
		keys := *bsonkit.Clone(&c.Keys)
		cfg := mongokit.IndexConfig{Key: &keys, Unique: c.Unique}
		if c.Partial != nil {
			cfg.Partial = bsonkit.Clone(&c.Partial)
		}
		name, err = t.CreateIndex(h, "", cfg)
	case "dropIndex":
		err = t.DropIndex(h, c.Name)
	case "dropAllIndexes":
		err = t.DropIndex(h, "")
	default:
		return "skipped"
	}
	after := sessIndexNames(t.Catalog(), h)
	has := func(n string) bool { return strings.Contains(","+after+",", ","+n+",") }
	switch {
	case err != nil:
		cls = sessErrClass(err)
		if after != before {
			viol("C15", "a failed index operation changed the index names of the transaction's view", "index-incoherent:failed-op-changed-names", c.M+": "+before+" -> "+after)
		}
	case c.M == "createIndex":
		cls = "ok"
		if !has(name) {
			viol("C15", "a created index is missing from the transaction's view", "index-incoherent:index-lost", name+" not in "+after)
		}
	case c.M == "dropIndex":
		cls = "ok"
		if has(c.Name) {
			viol("C15", "a dropped index is still in the transaction's view", "index-incoherent:unexpected-index", c.Name+" in "+after)
		}
	default:
		cls = "ok"
		if after != "_id_" {
			viol("C15", "dropping all indexes left other indexes than _id_", "index-incoherent:unexpected-index", after)
		}
	}
	m.coherent(t.Catalog(), "the transaction's view after "+c.M, viol)
	return cls
}

// takeSnap records a snapshot root and its current observation.
func (m *sessRunner) takeSnap(spec string, sid int) (sn *sessSnap) {
	defer func() {
		if p := recover(); p != nil {
			sn = nil
		}
	}()
	kind, coll := spec, ""
	if i := strings.IndexByte(spec, ':'); i >= 0 {
		kind, coll = spec[:i], spec[i+1:]
	}
	sn = &sessSnap{kind: kind, step: m.nstep}
	switch kind {
	case "catalog":
		cat := m.engine.Catalog()
		sn.read = func() string { return sessDumpOpt(cat, true) }
		sn.heap = func() string { return sessHeapHash(cat) }
	case "sesscat":
		if sid < 0 || m.sess[sid].Transaction() == nil {
			return nil
		}
		cat := m.sess[sid].Transaction().Catalog()
		sn.read = func() string { return sessDumpOpt(cat, true) }
		sn.heap = func() string { return sessHeapHash(cat) }
	case "txn":
		txn, err := m.engine.Begin(nil, false)
		if err != nil {
			return nil
		}
		sn.read = func() string {
			var sb strings.Builder
			for _, c := range sessColls {
				res, err := txn.Find(lungo.Handle{sessDB, c}, &bson.D{}, nil, 0, 0)
				if err != nil {
					sb.WriteString(`{"err":"err"}`)
					continue
				}
				sb.WriteString(vj.EncDocs(res.Matched))
			}
			sb.WriteString(sessDumpOpt(txn.Catalog(), true))
			return sb.String()
		}
		sn.heap = func() string { return sessHeapHash(txn.Catalog()) }
	case "cursor", "sesscursor":
		var csr lungo.ICursor
		var err error
		c := m.client.Database(sessDB).Collection(coll)
		if kind == "cursor" {
			csr, err = c.Find(context.Background(), bson.D{})
		} else {
			if sid < 0 || m.sess[sid].Transaction() == nil {
				return nil
			}
			_ = lungo.WithSession(context.Background(), m.sess[sid], func(sc lungo.ISessionContext) error {
				csr, err = c.Find(sc, bson.D{})
				return nil
			})
		}
		if err != nil || csr == nil {
			return nil
		}
		if _, ok := sessCursorList(csr); !ok {
			return nil
		}
		sn.cursor = csr
		sn.read = func() string {
			l, _ := sessCursorList(csr)
			return vj.EncDocs(l)
		}
		sn.heap = func() string {
			l, _ := sessCursorList(csr)
			return sessHeapHashList(l)
		}
	default:
		return nil
	}
	sn.base = sn.read()
	if sn.heap != nil {
		sn.heap0 = sn.heap()
	}
	return sn
}

// finish reads every kept cursor through the public API (All) and compares it with what the
// cursor held when it was opened; returns the final dump case.
func (m *sessRunner) finish(h *sessHist) []run.Case {
	var viols []run.Violation
	for _, sn := range m.snaps {
		if sn.cursor == nil || sn.dead {
			continue
		}
		var docs []bson.D
		got := ""
		if err := sn.cursor.All(context.Background(), &docs); err != nil {
			got = `{"err":"err"}`
		} else {
			got = sessEncDocs(docs)
		}
		if got != sn.base {
			viols = append(viols, run.Violation{Property: "C03", What: fmt.Sprintf("a cursor opened after step %d returns other documents at the end of the history", sn.step),
				Witness: "snapshot-changed:" + sn.kind + "-all", Req: m.histReq(), Detail: clip("was "+sn.base+"\nnow "+got, 700)})
		}
	}
	if m.hk != "" && m.hk == sessTrace {
		fmt.Fprintln(os.Stderr, m.histReq())
	}
	d := sessDump(m.engine.Catalog())
	tags := []string{"cmp:final-dump", fmt.Sprintf("hist-len:%d-%d", (m.nstep/10)*10, (m.nstep/10)*10+9), fmt.Sprintf("snaps:%d", len(m.snaps))}
	if h.poisoned {
		tags = append(tags, "history-poisoned")
	}
	return []run.Case{{Req: `{"op":"sess.dump"` + m.hkField() + `}`, Impl: d, Tags: tags, Viols: viols, Accept: h.accept(d)}}
}
