package streams

import (
	"bytes"
	"encoding/hex"
	"errors"
	"fmt"
	"hash/fnv"
	"io"
	"math"
	"strconv"
	"strings"
	"time"

	"go.mongodb.org/mongo-driver/bson"
	"go.mongodb.org/mongo-driver/bson/primitive"
	"go.mongodb.org/mongo-driver/mongo"
	"go.mongodb.org/mongo-driver/mongo/gridfs"
	"go.mongodb.org/mongo-driver/mongo/options"

	"github.com/256dpi/lungo"

	"verifharness/internal/gen"
	"verifharness/internal/run"
)

// Stream "gridfs" (C18): one upload lifecycle on the real lungo.Bucket over an in-memory engine
// followed by a read/seek/skip script on a download stream.  The canonical reply is compared with
// the Lean model (op gridfs.run); independent monitors compare with bytes.Reader and inspect the
// documents in <bucket>.files/.chunks/.markers.

const gfsBuf = gridfs.UploadBufferSize // the real constant (16 MiB), sent to the model as "buf"

type gfsContent struct {
	length int
	seed   int
	raw    []byte // explicit bytes (hex form) if non-nil
}

func (c gfsContent) bytes() []byte {
	if c.raw != nil {
		return c.raw
	}
	b := make([]byte, c.length)
	for i := range b {
		b[i] = byte((i*31 + c.seed) % 251)
	}
	return b
}

func (c gfsContent) size() int {
	if c.raw != nil {
		return len(c.raw)
	}
	return c.length
}

func (c gfsContent) json() string {
	if c.raw != nil {
		return `{"hex":"` + hex.EncodeToString(c.raw) + `"}`
	}
	return fmt.Sprintf(`{"len":%d,"seed":%d}`, c.length, c.seed)
}

type gfsOp struct {
	name string
	a, b int64
}

type gfsCase struct {
	chunk      int
	tracked    bool
	bucketOpt  bool // chunk size given on the bucket instead of the upload
	noOpt      bool // no chunk size option anywhere (only for the default chunk size)
	content    gfsContent
	life       []gfsOp
	script     []gfsOp
	expect     string // "complete", "nothing", "rejected", "any"
	kind       string
	nontrivial bool
}

func gfsDigest(b []byte) string {
	if len(b) <= 16 {
		return hex.EncodeToString(b)
	}
	h := fnv.New64a()
	_, _ = h.Write(b)
	return fmt.Sprintf("#%016x", h.Sum64())
}

func gfsErrClass(err error) string {
	switch {
	case err == nil:
		return "null"
	case errors.Is(err, io.EOF):
		return `"eof"`
	case errors.Is(err, gridfs.ErrStreamClosed):
		return `"closed"`
	case errors.Is(err, lungo.ErrNegativePosition):
		return `"negative_position"`
	case errors.Is(err, lungo.ErrFileNotFound):
		return `"file_not_found"`
	case errors.Is(err, lungo.ErrUploadInProgress):
		return `"upload_in_progress"`
	case errors.Is(err, mongo.ErrNoDocuments):
		return `"no_documents"`
	case errors.Is(err, gridfs.ErrWrongIndex):
		return `"wrong_index"`
	case errors.Is(err, gridfs.ErrWrongSize):
		return `"wrong_size"`
	case lungo.IsUniquenessError(err):
		return `"dup_key"`
	}
	// the remaining errors of bucket.go are fmt.Errorf values: classify by their fixed message
	msg := err.Error()
	for _, p := range [][2]string{
		{"bucket not tracked", "not_tracked"}, {"stream not pristine", "not_pristine"},
		{"invalid marker state", "bad_state"}, {"marker chunk size does not match", "chunk_size_mismatch"},
		{"found invalid chunk", "invalid_chunk"}, {"unable to update marker", "marker_update"},
		{"upload is not finished", "not_finished"}, {"invalid chunk size", "bad_chunk_size"},
		{"expected chunk", "expected_chunk"}, {"invalid whence", "invalid_whence"},
	} {
		if strings.HasPrefix(msg, p[0]) {
			return `"` + p[1] + `"`
		}
	}
	return `"other"`
}

func gfsReq(c *gfsCase) string {
	var sb strings.Builder
	fmt.Fprintf(&sb, `{"op":"gridfs.run","buf":%d,"chunk":%d,"tracked":%v,"content":%s,"life":[`, gfsBuf, c.chunk, c.tracked, c.content.json())
	for i, o := range c.life {
		if i > 0 {
			sb.WriteByte(',')
		}
		if o.name == "write" {
			fmt.Fprintf(&sb, `["write",%d]`, o.a)
		} else {
			fmt.Fprintf(&sb, `["%s"]`, o.name)
		}
	}
	sb.WriteString(`],"script":[`)
	for i, o := range c.script {
		if i > 0 {
			sb.WriteByte(',')
		}
		switch o.name {
		case "seek":
			fmt.Fprintf(&sb, `["seek",%d,%d]`, o.a, o.b)
		default:
			fmt.Fprintf(&sb, `["%s",%d]`, o.name, o.a)
		}
	}
	sb.WriteString(`]}`)
	return sb.String()
}

// gfsRun executes the case on the real bucket; returns the canonical reply and monitor violations.
func gfsRun(c *gfsCase, req string) (reply string, viols []run.Violation) {
	add := func(what, witness, detail string) {
		r := req
		if len(r) > 600 {
			r = r[:600] + "…"
		}
		viols = append(viols, run.Violation{Property: "C18", What: what, Witness: witness, Req: r, Detail: detail})
	}
	client, engine, err := lungo.Open(nil, lungo.Options{Store: lungo.NewMemoryStore()})
	if err != nil {
		return `{"panic":"open engine"}`, nil
	}
	defer engine.Close()
	db := client.Database("gfs")
	bopt := options.GridFSBucket().SetName("fs")
	if c.bucketOpt && !c.noOpt {
		bopt.SetChunkSizeBytes(int32(c.chunk))
	}
	b := lungo.NewBucket(db, bopt)
	if c.tracked {
		b.EnableTracking()
	}
	uopt := func() []*options.UploadOptions {
		if c.bucketOpt || c.noOpt {
			return nil
		}
		return []*options.UploadOptions{options.GridFSUpload().SetChunkSizeBytes(int32(c.chunk))}
	}
	content := c.content.bytes()

	// bystander file: must be untouched by whatever happens to the file under test
	byID := primitive.NewObjectID()
	byContent := []byte("bystander-0123456789")
	{
		us, err := b.OpenUploadStreamWithID(nil, byID, "bystander", options.GridFSUpload().SetChunkSizeBytes(7))
		if err == nil {
			_, _ = us.Write(byContent)
			_ = us.Close()
			if c.tracked {
				_ = b.ClaimUpload(nil, byID)
			}
		}
	}

	id := primitive.NewObjectID()
	badChunk := c.chunk <= 0 || c.chunk > gfsBuf
	var life []string
	// open reports ["o",err]; a stream that must not exist (unusable chunk size accepted) is never used:
	// writing to it would spin, loop or panic
	open := func() *lungo.UploadStream {
		us, err := b.OpenUploadStreamWithID(nil, id, "file", uopt()...)
		life = append(life, fmt.Sprintf(`["o",%s]`, gfsErrClass(err)))
		if err != nil {
			return nil
		}
		if badChunk {
			add("upload stream opened with an unusable chunk size", "bad-chunk-size-accepted", fmt.Sprintf("chunk=%d buffer=%d", c.chunk, gfsBuf))
			return nil
		}
		return us
	}
	us := open()
	off := 0
	for _, o := range c.life {
		if us == nil {
			switch o.name {
			case "write", "suspend", "resume", "close", "abort":
				life = append(life, `["x"]`)
				continue
			}
		}
		switch o.name {
		case "write":
			end := off + int(o.a)
			if end > len(content) || end < off {
				end = len(content)
			}
			n, err := us.Write(content[off:end])
			if err == nil {
				off += n
			}
			life = append(life, fmt.Sprintf(`["w",%d,%s]`, n, gfsErrClass(err)))
		case "suspend":
			n, err := us.Suspend()
			life = append(life, fmt.Sprintf(`["s",%d,%s]`, n, gfsErrClass(err)))
		case "open":
			us = open()
			off = 0
		case "resume":
			n, err := us.Resume()
			if err == nil {
				off = int(n)
			}
			life = append(life, fmt.Sprintf(`["r",%d,%s]`, n, gfsErrClass(err)))
		case "close":
			life = append(life, fmt.Sprintf(`["c",%s]`, gfsErrClass(us.Close())))
		case "abort":
			life = append(life, fmt.Sprintf(`["a",%s]`, gfsErrClass(us.Abort())))
		case "claim":
			life = append(life, fmt.Sprintf(`["k",%s]`, gfsErrClass(b.ClaimUpload(nil, id))))
		case "delete":
			life = append(life, fmt.Sprintf(`["d",%s]`, gfsErrClass(b.Delete(nil, id))))
		case "cleanup":
			// negative age: every marker is older than now+1h (avoids the millisecond race of age 0)
			life = append(life, fmt.Sprintf(`["u",%s]`, gfsErrClass(b.Cleanup(nil, -time.Hour))))
		}
	}

	// observe the collections
	var chunkDocs []lungo.BucketChunk
	csr, err := b.GetChunksCollection(nil).Find(nil, bson.M{"files_id": id}, options.Find().SetSort(bson.M{"n": 1}))
	if err == nil {
		err = csr.All(nil, &chunkDocs)
	}
	if err != nil {
		return `{"panic":"list chunks"}`, nil
	}
	var chunksJ []string
	for _, d := range chunkDocs {
		chunksJ = append(chunksJ, fmt.Sprintf(`[%d,%d,"%s"]`, d.Num, len(d.Data), gfsDigest(d.Data)))
	}
	fileJ := "null"
	var file *lungo.BucketFile
	{
		var f lungo.BucketFile
		err := b.GetFilesCollection(nil).FindOne(nil, bson.M{"_id": id}).Decode(&f)
		if err == nil {
			file = &f
			fileJ = fmt.Sprintf(`[%d,%d]`, f.Length, f.ChunkSize)
		}
	}
	markerJ := "null"
	nMarkers := 0
	{
		var m lungo.BucketMarker
		err := b.GetMarkersCollection(nil).FindOne(nil, bson.M{"files_id": id}).Decode(&m)
		if err == nil {
			nMarkers = 1
			markerJ = fmt.Sprintf(`["%s",%d,%d]`, m.State, m.Length, m.ChunkSize)
		}
	}

	// download script
	openJ := "null"
	var reads []string
	ds, err := b.OpenDownloadStream(nil, id)
	if err != nil {
		openJ = gfsErrClass(err)
	}
	type stepRes struct {
		n   int64
		b   []byte
		err error
	}
	var implSteps []stepRes
	if err == nil {
		for _, o := range c.script {
			switch o.name {
			case "read":
				buf := make([]byte, o.a)
				n, err := ds.Read(buf)
				implSteps = append(implSteps, stepRes{int64(n), buf[:n], err})
				reads = append(reads, fmt.Sprintf(`["r",%d,"%s",%s]`, n, gfsDigest(buf[:n]), gfsErrClass(err)))
			case "seek":
				p, err := ds.Seek(o.a, int(o.b))
				implSteps = append(implSteps, stepRes{p, nil, err})
				reads = append(reads, fmt.Sprintf(`["p",%d,%s]`, p, gfsErrClass(err)))
			case "skip":
				p, err := ds.Skip(o.a)
				implSteps = append(implSteps, stepRes{p, nil, err})
				reads = append(reads, fmt.Sprintf(`["p",%d,%s]`, p, gfsErrClass(err)))
			}
		}
		_ = ds.Close()
	}
	reply = `{"ok":{"chunks":[` + strings.Join(chunksJ, ",") + `],"file":` + fileJ + `,"life":[` + strings.Join(life, ",") +
		`],"marker":` + markerJ + `,"open":` + openJ + `,"reads":[` + strings.Join(reads, ",") + `]}}`

	// ---- monitors (independent of the model) ----
	kindW := c.kind
	switch c.expect {
	case "complete":
		if file == nil {
			add("completed upload has no file record", "no-file:"+kindW, "")
			break
		}
		if file.Length != len(content) || file.ChunkSize != c.chunk {
			add("file record length/chunkSize wrong", "file-record:"+kindW, fmt.Sprintf("got %d/%d want %d/%d", file.Length, file.ChunkSize, len(content), c.chunk))
		}
		want := (len(content) + c.chunk - 1) / c.chunk
		if len(chunkDocs) != want {
			add("chunk count wrong", "chunk-count:"+kindW, fmt.Sprintf("got %d want %d", len(chunkDocs), want))
		}
		var cat []byte
		for i, d := range chunkDocs {
			if d.Num != i {
				add("chunks not numbered 0..n-1", "chunk-number:"+kindW, fmt.Sprintf("index %d has n=%d", i, d.Num))
				break
			}
			if i < len(chunkDocs)-1 && len(d.Data) != c.chunk {
				add("inner chunk not full", "chunk-size:"+kindW, fmt.Sprintf("chunk %d has %d bytes", i, len(d.Data)))
				break
			}
			if i == len(chunkDocs)-1 && (len(d.Data) == 0 || len(d.Data) > c.chunk) {
				add("last chunk size out of range", "chunk-last:"+kindW, fmt.Sprintf("%d bytes", len(d.Data)))
			}
			cat = append(cat, d.Data...)
		}
		if !bytes.Equal(cat, content) {
			add("concatenated chunks differ from the uploaded content", "chunk-bytes:"+kindW, "")
		}
		var out bytes.Buffer
		n, err := b.DownloadToStream(nil, id, &out)
		if err != nil || int(n) != len(content) || !bytes.Equal(out.Bytes(), content) {
			add("download differs from upload", "download-bytes:"+kindW, fmt.Sprintf("n=%d err=%v want %d", n, err, len(content)))
		}
		if nMarkers != 0 {
			add("marker left after completed upload", "marker-left:"+kindW, markerJ)
		}
		// the script against bytes.Reader
		if ds != nil {
			rd := bytes.NewReader(content)
			for i, o := range c.script {
				got := implSteps[i]
				switch o.name {
				case "read":
					buf := make([]byte, o.a)
					n, err := rd.Read(buf)
					if int64(n) != got.n || !bytes.Equal(buf[:n], got.b) || (err == io.EOF) != (got.err == io.EOF) || (err == nil) != (got.err == nil) {
						add("Read differs from bytes.Reader", "script-read", fmt.Sprintf("step %d: got (%d,%v) want (%d,%v)", i, got.n, got.err, n, err))
					}
				default:
					whence := int(o.b)
					if o.name == "skip" {
						whence = io.SeekCurrent
					}
					p, err := rd.Seek(o.a, whence)
					if whence < 0 || whence > 2 {
						// bytes.Reader rejects an unknown whence and does not move; so must the stream
						if got.err == nil || err == nil || p != got.n || errors.Is(got.err, lungo.ErrNegativePosition) {
							add("Seek with invalid whence differs from bytes.Reader", "seek-invalid-whence", fmt.Sprintf("step %d: got (%d,%v) want (%d,%v)", i, got.n, got.err, p, err))
							if got.err == nil {
								_, _ = rd.Seek(got.n, io.SeekStart) // resynchronise the reference
							}
						}
						continue
					}
					neg := err != nil
					if p != got.n || neg != (got.err != nil) || (neg && !errors.Is(got.err, lungo.ErrNegativePosition)) {
						add("Seek/Skip differs from bytes.Reader", "script-seek", fmt.Sprintf("step %d: got (%d,%v) want (%d,%v)", i, got.n, got.err, p, err))
					}
				}
			}
		} else {
			add("cannot open download stream of completed upload", "open-download:"+kindW, openJ)
		}
	case "rejected":
		// no upload stream may exist, so nothing of the file can be stored (a tracked Delete may leave its marker)
		if len(chunkDocs) != 0 || file != nil {
			add("documents stored although the chunk size is unusable", "bad-chunk-size-stored", fmt.Sprintf("%d chunks, file %s", len(chunkDocs), fileJ))
		}
	case "nothing":
		if len(chunkDocs) != 0 {
			add("chunks left behind", "chunks-left:"+kindW, fmt.Sprintf("%d chunks", len(chunkDocs)))
		}
		if file != nil {
			add("file record left behind", "file-left:"+kindW, fileJ)
		}
		if nMarkers != 0 {
			add("marker left behind", "marker-left:"+kindW, markerJ)
		}
	}
	// bystander untouched
	{
		var out bytes.Buffer
		_, err := b.DownloadToStream(nil, byID, &out)
		if err != nil || !bytes.Equal(out.Bytes(), byContent) {
			add("another file was damaged", "bystander:"+kindW, fmt.Sprint(err))
		}
	}
	return reply, viols
}

// ---- generators ----

var gfsChunkSizes = []int{1, 2, 3, 4, 5, 7, 8, 16, 64, 255, 1000, 1024, 4096, 65536, 255 * 1024}

// gfsPartition appends writes covering `total` bytes starting from the client's current offset.
func gfsPartition(r *gen.R, total, c, maxWrites int) []gfsOp {
	var ops []gfsOp
	left := total
	for left > 0 && len(ops) < maxWrites-1 {
		var n int
		switch r.N(7) {
		case 0:
			n = 1
		case 1:
			n = c
		case 2:
			n = c - 1
		case 3:
			n = c + 1
		case 4:
			n = c * (1 + r.N(4))
		case 5:
			n = 0
		default:
			n = 1 + r.N(left)
		}
		if n > left {
			n = left
		}
		if n < 0 {
			n = 0
		}
		ops = append(ops, gfsOp{name: "write", a: int64(n)})
		left -= n
	}
	if left > 0 {
		ops = append(ops, gfsOp{name: "write", a: int64(left)})
	}
	return ops
}

func gfsScript(r *gen.R, L, c, maxOps int, big bool) (ops []gfsOp, seeks bool, badWhence bool) {
	n := r.N(maxOps + 1)
	near := func() int64 {
		// offsets around chunk boundaries, the ends and beyond
		var base int
		switch r.N(6) {
		case 0:
			base = 0
		case 1:
			base = L
		case 2:
			k := 0
			if L/c > 0 {
				k = r.N(L/c + 1)
			}
			base = k * c
		case 3:
			base = r.N(L + 1)
		case 4:
			base = L + r.N(10)
		default:
			base = c
		}
		return int64(base + r.N(3) - 1)
	}
	for i := 0; i < n; i++ {
		switch r.N(10) {
		case 0, 1, 2, 3:
			var k int
			switch r.N(8) {
			case 0:
				k = 0
			case 1:
				k = 1
			case 2:
				k = c
			case 3:
				k = c + 1
			case 4:
				k = c - 1
			case 5:
				k = L + 3
			case 6:
				k = 2*c + r.N(3) - 1
			default:
				k = r.N(L + 2)
			}
			if k < 0 {
				k = 0
			}
			if big && k > 1<<20 && !r.P(30) {
				k = 1 << 20
			}
			ops = append(ops, gfsOp{name: "read", a: int64(k)})
		case 4, 5, 6:
			seeks = true
			whence := int64(r.N(3))
			var off int64
			switch whence {
			case 0:
				off = near()
			case 1:
				off = near() - int64(r.N(L+1))
			default:
				off = near() - int64(L)
			}
			if r.P(4) {
				off = []int64{math.MaxInt64, math.MinInt64, 1 << 62, -(1 << 62), math.MaxInt64 - 1}[r.N(5)]
			}
			if r.P(2) {
				whence = []int64{3, -1, 7}[r.N(3)]
				badWhence = true
			}
			ops = append(ops, gfsOp{name: "seek", a: off, b: whence})
		case 7, 8:
			seeks = true
			off := int64(r.N(2*c+2)) - int64(r.N(c+1))
			if r.P(20) {
				off = near() - int64(r.N(L+1))
			}
			if r.P(3) {
				off = []int64{math.MaxInt64, math.MinInt64}[r.N(2)]
			}
			ops = append(ops, gfsOp{name: "skip", a: off})
		default:
			// tell
			ops = append(ops, gfsOp{name: "seek", a: 0, b: 1})
		}
	}
	return
}

// gfsBadChunkCase: chunk sizes that OpenUploadStreamWithID must reject; nothing may be stored.
// The content stays tiny (a stream wrongly accepted is never written to).
func gfsBadChunkCase(r *gen.R) *gfsCase {
	c := &gfsCase{kind: "bad-chunk", expect: "rejected", nontrivial: true}
	c.chunk = []int{0, -1, gfsBuf + 1, -5, gfsBuf + 4096, math.MinInt32, math.MaxInt32}[r.N(7)]
	c.content = gfsContent{length: r.N(40), seed: r.N(251)}
	c.tracked = r.P(40)
	c.bucketOpt = r.P(40)
	names := []string{"write", "write", "close", "abort", "suspend", "open", "resume", "claim", "delete", "cleanup"}
	n := 1 + r.N(5)
	for i := 0; i < n; i++ {
		op := gfsOp{name: names[r.N(len(names))]}
		if op.name == "write" {
			op.a = int64(r.N(20))
		}
		c.life = append(c.life, op)
	}
	c.script, _, _ = gfsScript(r, c.content.length, 4, 3, false)
	return c
}

func gfsGenCase(r *gen.R) *gfsCase {
	if r.P(4) {
		return gfsBadChunkCase(r)
	}
	c := &gfsCase{}
	big := r.P(2)
	var L int
	if big {
		c.chunk = []int{255 * 1024, 1 << 20, 65536, gfsBuf, 4 << 20, gfsBuf / 2, 1000000}[r.N(7)]
		base := gfsBuf
		if r.P(25) {
			base = gfsBuf + c.chunk
		}
		if r.P(15) {
			base = gfsBuf - c.chunk
		}
		L = base + []int{0, 1, -1, 2, c.chunk, c.chunk - 1, r.N(c.chunk)}[r.N(7)]
		if L < 0 {
			L = 0
		}
		if L > gfsBuf+(2<<20)+2 {
			L = gfsBuf + (2 << 20) + 2 - r.N(3)
		}
	} else {
		c.chunk = gfsChunkSizes[r.N(len(gfsChunkSizes))]
		maxChunks := 40
		if r.P(10) {
			maxChunks = 1500
		}
		if c.chunk >= 65536 {
			maxChunks = 6
		}
		k := r.N(maxChunks + 1)
		if r.P(30) {
			k = r.N(4)
		}
		d := []int{0, 0, 1, -1, 2, r.N(c.chunk)}[r.N(6)]
		L = k*c.chunk + d
		if L < 0 {
			L = 0
		}
		if r.P(5) {
			L = 0
		}
	}
	c.content = gfsContent{length: L, seed: r.N(251)}
	if !big && L <= 48 && r.P(50) {
		raw := make([]byte, L)
		for i := range raw {
			raw[i] = byte(r.N(256))
		}
		c.content.raw = raw
	}
	c.tracked = r.P(40)
	c.bucketOpt = r.P(25)
	c.noOpt = c.chunk == int(options.DefaultChunkSize) && r.P(50)
	maxWrites := 24
	if L > 100000 {
		maxWrites = 8
	}
	if big {
		maxWrites = 5
	}
	cs := c.chunk
	full := func() []gfsOp { return gfsPartition(r, L, cs, maxWrites) }
	restWrite := gfsOp{name: "write", a: int64(L)} // clipped to the remainder by both sides
	finish := func(ops []gfsOp) []gfsOp {
		ops = append(ops, gfsOp{name: "close"})
		if c.tracked {
			ops = append(ops, gfsOp{name: "claim"})
		}
		return ops
	}
	partial := func() []gfsOp {
		ops := full()
		if len(ops) > 0 && r.P(60) {
			ops = ops[:r.N(len(ops)+1)]
		}
		return ops
	}
	kind := r.N(100)
	if c.tracked && kind < 72 {
		// tracked buckets: shift weight to the suspend/resume lifecycles
		kind = []int{0, 45, 55, 65, 75, 75, 75, 75, 75}[r.N(9)]
	}
	switch {
	case kind < 40:
		c.kind, c.expect = "plain", "complete"
		c.life = finish(full())
	case kind < 52:
		c.kind, c.expect = "abort", "nothing"
		c.life = append(partial(), gfsOp{name: "abort"})
	case kind < 60:
		c.kind, c.expect = "abort-reupload", "complete"
		c.life = append(partial(), gfsOp{name: "abort"}, gfsOp{name: "open"})
		c.life = finish(append(c.life, full()...))
	case kind < 72:
		c.kind, c.expect = "delete", "nothing"
		c.life = append(finish(full()), gfsOp{name: "delete"})
		if c.tracked {
			c.life = append(c.life, gfsOp{name: "cleanup"})
		}
	case kind < 92 && c.tracked:
		c.kind, c.expect = "resume", "complete"
		segs := 1 + r.N(3)
		for s := 0; s < segs; s++ {
			c.life = append(c.life, partial()...)
			c.life = append(c.life, gfsOp{name: "suspend"}, gfsOp{name: "open"}, gfsOp{name: "resume"})
		}
		// after the last resume the client continues from the returned offset
		if r.P(50) {
			ws := gfsPartition(r, L, cs, 4)
			if len(ws) > 1 {
				c.life = append(c.life, ws[:len(ws)-1]...)
			}
		}
		c.life = finish(append(c.life, restWrite))
		if r.P(15) {
			c.kind, c.expect = "resume-abort", "nothing"
			c.life = c.life[:len(c.life)-2]
			c.life = append(c.life, gfsOp{name: "abort"})
		}
	case kind < 92:
		c.kind, c.expect = "plain", "complete"
		c.life = finish(full())
	default:
		// error probes: arbitrary short op sequences, compared with the model by class only
		c.kind, c.expect = "probe", "any"
		names := []string{"write", "write", "close", "abort", "suspend", "open", "resume", "claim", "delete", "cleanup", "write"}
		n := 2 + r.N(7)
		for i := 0; i < n; i++ {
			nm := names[r.N(len(names))]
			op := gfsOp{name: nm}
			if nm == "write" {
				op.a = int64([]int{0, 1, cs, cs + 1, cs - 1, 2 * cs, L}[r.N(7)])
			}
			c.life = append(c.life, op)
		}
	}
	maxOps := 12
	if big {
		maxOps = 5
	}
	var seeks, bad bool
	c.script, seeks, bad = gfsScript(r, L, cs, maxOps, big)
	_ = bad
	c.nontrivial = L%cs != 0 || seeks
	return c
}

func gfsTags(c *gfsCase) []string {
	tags := []string{"kind:" + c.kind}
	if c.tracked {
		tags = append(tags, "tracked")
	} else {
		tags = append(tags, "untracked")
	}
	L := c.content.size()
	if c.chunk <= 0 || c.chunk > gfsBuf {
		return append(tags, "chunk:rejected")
	}
	switch {
	case L == 0:
		tags = append(tags, "len:empty")
	case L%c.chunk == 0:
		tags = append(tags, "len:multiple")
	case L%c.chunk == 1 || L%c.chunk == c.chunk-1:
		tags = append(tags, "len:multiple±1")
	default:
		tags = append(tags, "len:other")
	}
	if L >= gfsBuf-(4<<20) {
		tags = append(tags, "len:around-buffer")
	}
	if L > gfsBuf {
		tags = append(tags, "len:over-buffer")
	}
	if c.noOpt {
		tags = append(tags, "chunk:no-option")
	}
	if c.chunk == 255*1024 {
		tags = append(tags, "chunk:default")
	} else if c.chunk < 16 {
		tags = append(tags, "chunk:tiny")
	}
	for _, o := range c.script {
		if o.name == "seek" && (o.b < 0 || o.b > 2) {
			tags = append(tags, "script:invalid-whence")
			break
		}
	}
	if len(c.script) > 0 {
		tags = append(tags, "script:nonempty")
	}
	return tags
}

func gfsExec(c *gfsCase) run.Case {
	req := gfsReq(c)
	var viols []run.Violation
	impl := run.Safe(func() string {
		rep, v := gfsRun(c, req)
		viols = v
		return rep
	})
	if strings.HasPrefix(impl, `{"panic"`) {
		r := req
		if len(r) > 600 {
			r = r[:600]
		}
		viols = append(viols, run.Violation{Property: "C18", What: "panic in bucket code", Witness: "panic:" + c.kind, Req: r, Detail: impl})
	}
	return run.Case{Req: req, Impl: impl, Nontrivial: c.nontrivial, Tags: gfsTags(c), Viols: viols}
}

func gfsCorpus() []run.Case {
	w := func(n int) gfsOp { return gfsOp{name: "write", a: int64(n)} }
	op := func(s string) gfsOp { return gfsOp{name: s} }
	B := gfsBuf
	dc := 255 * 1024
	script := []gfsOp{{name: "read", a: 10}, {name: "seek", a: -5, b: 2}, {name: "read", a: 10}, {name: "seek", a: int64(dc - 2), b: 0}, {name: "read", a: 5},
		{name: "skip", a: -100}, {name: "seek", a: 0, b: 1}, {name: "seek", a: -1, b: 0}, {name: "read", a: 0}, {name: "seek", a: 3, b: 2}, {name: "read", a: 1}, {name: "read", a: 0}}
	cases := []*gfsCase{
		// exactly the buffer, one write; buffer+1 split at the boundary; chunk size == buffer size
		{chunk: dc, content: gfsContent{length: B, seed: 1}, life: []gfsOp{w(B), op("close")}, script: script, expect: "complete", kind: "plain", nontrivial: true},
		{chunk: dc, content: gfsContent{length: B + 1, seed: 2}, life: []gfsOp{w(B - 1), w(1), w(1), op("close")}, script: script, expect: "complete", kind: "plain", nontrivial: true},
		{chunk: B, content: gfsContent{length: B + 5, seed: 3}, life: []gfsOp{w(5), w(B), op("close")}, script: script, expect: "complete", kind: "plain", nontrivial: true},
		{chunk: 1 << 20, content: gfsContent{length: 2*B + 3, seed: 4}, life: []gfsOp{w(2*B + 3), op("close")}, script: script, expect: "complete", kind: "plain", nontrivial: true},
		// tracked, suspended after the buffer was flushed once
		{chunk: dc, tracked: true, content: gfsContent{length: B + dc + 7, seed: 5},
			life:   []gfsOp{w(B + 100), op("suspend"), op("open"), op("resume"), w(B + dc + 7), op("close"), op("claim")},
			script: script, expect: "complete", kind: "resume", nontrivial: true},
		// small fixed cases
		{chunk: 4, content: gfsContent{raw: []byte("Hello World!!")}, life: []gfsOp{w(5), w(8), op("close")},
			script: []gfsOp{{name: "read", a: 5}, {name: "seek", a: -3, b: 2}, {name: "read", a: 10}, {name: "read", a: 1}, {name: "skip", a: -1}}, expect: "complete", kind: "plain", nontrivial: true},
		{chunk: 4, content: gfsContent{raw: []byte{}}, life: []gfsOp{op("close")}, script: []gfsOp{{name: "read", a: 0}, {name: "read", a: 1}, {name: "seek", a: 0, b: 2}}, expect: "complete", kind: "plain"},
	}
	// unusable chunk sizes: every open must fail, nothing may be stored
	for _, ch := range []int{0, -1, B + 1} {
		for _, tr := range []bool{false, true} {
			cases = append(cases, &gfsCase{chunk: ch, tracked: tr, bucketOpt: ch == 0, content: gfsContent{raw: []byte("abcdefgh")},
				life: []gfsOp{w(3), op("close"), op("open"), w(8), op("suspend"), op("abort"), op("claim")}, script: []gfsOp{{name: "read", a: 4}},
				expect: "rejected", kind: "bad-chunk", nontrivial: true})
		}
	}
	var out []run.Case
	for _, c := range cases {
		out = append(out, gfsExec(c))
	}
	return out
}

func init() {
	run.Register(&run.Stream{
		Name: "gridfs",
		Rule: "70%: one upload lifecycle (plain / abort / abort+reupload / delete(+cleanup) / tracked suspend-open-resume segments / error probes / " +
			"4% unusable chunk sizes 0, negative, > buffer that must be rejected) " +
			"with content length k*c+d around multiples of the chunk size c (2% around the " + strconv.Itoa(gfsBuf) + "-byte upload buffer), a write partition, " +
			"and a read/seek/skip script on the download stream; non-trivial = length not a multiple of the chunk size or the script seeks/skips; " +
			"30% (op gridfs.multi, always non-trivial): several streams of one bucket alive together — after an earlier upload finished (close/abort/suspend) " +
			"2-3 upload streams with interleaved writes around the chunk size (4% with one stream crossing the upload buffer), closed/aborted in any order, " +
			"then two download streams read alternately; or an explicit id colliding with a completed file (OpenUploadStreamWithID / UploadFromStreamWithID, " +
			"tracked and untracked, failing stream aborted, abort of an unwritten stream, optional delete) where the first file must stay intact",
		Gen: func(r *gen.R, idx int) []run.Case {
			if r.P(30) {
				return []run.Case{gmExec(gmGenCase(r))}
			}
			return []run.Case{gfsExec(gfsGenCase(r))}
		},
		Corpus: func() []run.Case { return append(gfsCorpus(), gmCorpus()...) },
	})
}
