package streams

import (
	"fmt"
	"math"
	"regexp"
	"sort"
	"strconv"
	"strings"
	"time"

	"go.mongodb.org/mongo-driver/bson"
	"go.mongodb.org/mongo-driver/bson/primitive"

	"github.com/256dpi/lungo/bsonkit"
	"github.com/256dpi/lungo/mongokit"

	"verifharness/internal/gen"
	"verifharness/internal/run"
	"verifharness/internal/vj"
)

// Stream "apply" (C11, C20): documents × update documents × array filters through mongokit.Apply.
// Streams "arith" (Add/Mul over all numeric pairs) and "put" (bsonkit.Put/Unset).

var nanRe = regexp.MustCompile(`"f":"([0-9a-f]{16})"`)

// canonNaNs maps every NaN bit pattern to the canonical quiet NaN (NaN payloads of arithmetic
// results are hardware-defined and not part of any property).
func canonNaNs(s string) string {
	return nanRe.ReplaceAllStringFunc(s, func(m string) string {
		u, _ := strconv.ParseUint(m[5:21], 16, 64)
		if math.IsNaN(math.Float64frombits(u)) {
			return `"f":"7ff8000000000000"`
		}
		return m
	})
}

func acceptModuloNaN(impl string) func(string) bool {
	ci := canonNaNs(impl)
	return func(m string) bool {
		return canonNaNs(m) == ci || strings.HasPrefix(m, `{"unmodelled"`)
	}
}

var updOps = []string{"$set", "$set", "$unset", "$inc", "$inc", "$mul", "$min", "$max", "$push", "$push", "$pop", "$pull", "$pullAll", "$addToSet", "$bit", "$rename", "$setOnInsert", "$currentDate"}

func updPath(r *gen.R, malformed bool) string {
	p := r.Path()
	if r.P(12) {
		p = gen.Keys[r.N(len(gen.Keys))] + ".$[]"
		if r.P(40) {
			p += "." + gen.Keys[r.N(len(gen.Keys))]
		}
	} else if r.P(8) {
		p = gen.Keys[r.N(len(gen.Keys))] + ".$[" + filterID(r) + "]"
		if r.P(40) {
			p += "." + gen.Keys[r.N(len(gen.Keys))]
		}
	}
	if malformed && r.P(25) {
		p = []string{"", "a.", ".a", "a..b", "$[]", "a.$", "a.$[", "a.$[j]", "_id", "a.9223372036854775807", "a.-1", "a.+1", "a.$[].$[]", "a.01", "a.-0", "a.1600000", "a.0.1500005", "b.+0.c"}[r.N(18)]
	}
	return p
}

func intMod(r *gen.R, malformed bool) interface{} {
	if malformed && r.P(40) {
		return []interface{}{int64(math.MinInt64), int64(math.MaxInt64), 1.5, "x", nil, math.Inf(1), math.NaN(), -9.223372036854775808e18, 1e300}[r.N(9)]
	}
	n := r.N(7) - 3
	switch r.N(3) {
	case 0:
		return int32(n)
	case 1:
		return int64(n)
	default:
		return float64(n)
	}
}

func updArg(r *gen.R, op string, malformed bool) interface{} {
	switch op {
	case "$set", "$setOnInsert", "$min", "$max":
		return r.Value(2, true)
	case "$unset":
		return ""
	case "$inc", "$mul":
		if malformed && r.P(30) {
			return r.Scalar()
		}
		if r.P(50) {
			return r.Number()
		}
		return r.SmallNumber()
	case "$rename":
		if malformed && r.P(30) {
			return []interface{}{int32(1), "a.0", "", "a.b"}[r.N(4)]
		}
		return r.Path()
	case "$currentDate":
		return []interface{}{true, false, bson.D{{Key: "$type", Value: "date"}}, bson.D{{Key: "$type", Value: "timestamp"}}, bson.D{{Key: "$type", Value: "x"}}, int32(1)}[r.N(6)]
	case "$push":
		if r.P(50) {
			return r.Value(1, true)
		}
		d := bson.D{}
		each := bson.A{}
		for i := 0; i < r.N(4); i++ {
			each = append(each, r.Value(1, false))
		}
		if malformed && r.P(20) {
			d = append(d, bson.E{Key: "$each", Value: int32(1)})
		} else {
			d = append(d, bson.E{Key: "$each", Value: each})
		}
		if r.P(40) {
			d = append(d, bson.E{Key: "$position", Value: intMod(r, malformed)})
		}
		if r.P(40) {
			if r.P(60) {
				d = append(d, bson.E{Key: "$sort", Value: []interface{}{int32(1), int32(-1), int64(1), -1.0, int32(0), "x"}[r.N(6)]})
			} else {
				d = append(d, bson.E{Key: "$sort", Value: bson.D{{Key: gen.Keys[r.N(len(gen.Keys))], Value: []interface{}{int32(1), int32(-1), 2.0}[r.N(3)]}}})
			}
		}
		if r.P(40) {
			d = append(d, bson.E{Key: "$slice", Value: intMod(r, malformed)})
		}
		if malformed && r.P(15) {
			d = append(d, bson.E{Key: "$bogus", Value: int32(1)})
		}
		if r.P(35) && len(d) > 1 {
			// the modifiers of $push are order-insensitive: $each need not come first
			k := r.N(len(d))
			d[0], d[k] = d[k], d[0]
			if len(d) > 2 && r.P(50) {
				d[1], d[len(d)-1] = d[len(d)-1], d[1]
			}
		}
		return d
	case "$pop":
		return []interface{}{int32(1), int32(-1), int64(1), 1.0, -1.0, int32(0), "x", mustD("1")}[r.N(8)]
	case "$pull":
		switch r.N(4) {
		case 0:
			return opDoc(r, 1, malformed)
		case 1:
			return fieldConds(r, 1, malformed, 1)
		default:
			return r.Scalar()
		}
	case "$pullAll":
		if malformed && r.P(30) {
			return r.Scalar()
		}
		a := bson.A{}
		for i := 0; i < r.N(3); i++ {
			a = append(a, r.Scalar())
		}
		return a
	case "$addToSet":
		if r.P(40) {
			each := bson.A{}
			for i := 0; i < r.N(4); i++ {
				each = append(each, r.Scalar())
			}
			if r.P(35) {
				// repeated values inside the list itself (also equal numbers of different types, and documents)
				pool := []interface{}{int32(7), int64(7), float64(7), "q", bson.D{{Key: "k", Value: int32(1)}}, bson.D{{Key: "k", Value: 1.0}}, nil, bson.A{int32(1)}}
				for i := 0; i < 2+r.N(3); i++ {
					each = append(each, pool[r.N(len(pool))])
				}
			}
			d := bson.D{{Key: "$each", Value: each}}
			if malformed && r.P(30) {
				d = append(d, bson.E{Key: "$position", Value: int32(0)})
			}
			return d
		}
		return r.Scalar()
	case "$bit":
		if malformed && r.P(30) {
			return []interface{}{int32(1), bson.D{}, bson.D{{Key: "nand", Value: int32(1)}}, bson.D{{Key: "and", Value: 1.0}}, bson.D{{Key: "and", Value: int32(1)}, {Key: "or", Value: int32(1)}}}[r.N(5)]
		}
		var operand interface{} = int32(r.N(16) - 8)
		if r.P(40) {
			operand = int64(r.N(1<<20)) - 1<<19
		}
		return bson.D{{Key: []string{"and", "or", "xor"}[r.N(3)], Value: operand}}
	}
	return r.Scalar()
}

func mustD(s string) primitive.Decimal128 {
	d, _ := primitive.ParseDecimal128(s)
	return d
}

// Update returns a random update document.
func Update(r *gen.R, malformed bool) bson.D {
	n := 1 + r.N(2)
	if r.P(15) {
		n = 3
	}
	var u bson.D
	used := map[string]bool{}
	for i := 0; i < n; i++ {
		op := updOps[r.N(len(updOps))]
		if malformed && r.P(10) {
			op = []string{"$foo", "a", "$", "$inc"}[r.N(4)]
		}
		if used[op] {
			continue
		}
		used[op] = true
		m := 1
		if r.P(25) {
			m = 2
		}
		conds := bson.D{}
		for j := 0; j < m; j++ {
			conds = append(conds, bson.E{Key: updPath(r, malformed), Value: updArg(r, op, malformed)})
		}
		if malformed && r.P(8) {
			u = append(u, bson.E{Key: op, Value: int32(1)})
		} else {
			u = append(u, bson.E{Key: op, Value: conds})
		}
	}
	if malformed && r.P(5) {
		return bson.D{}
	}
	return u
}

// filterIDs: identifiers of array filters; some are string prefixes of others ("i"/"i2", "elem"/"elem2").
var filterIDs = []string{"i", "j", "i2", "elem", "elem2"}

func filterID(r *gen.R) string {
	if r.P(40) {
		return "i"
	}
	return filterIDs[r.N(len(filterIDs))]
}

var identRe = regexp.MustCompile(`\$\[([^\].]+)\]`)

// one array filter for the identifier; a third of the conditions hold for a missing field ($ne, null, $exists:false, $nin)
func arrayFilter(r *gen.R, id string, malformed bool) *bson.D {
	key := id
	if r.P(30) {
		key = id + "." + gen.Keys[r.N(len(gen.Keys))]
	}
	var cond interface{}
	switch r.N(7) {
	case 0, 1:
		cond = r.Scalar()
	case 2, 3:
		cond = opDoc(r, 1, malformed)
	case 4:
		cond = bson.D{{Key: "$ne", Value: r.Scalar()}}
	case 5:
		cond = []interface{}{nil, bson.D{{Key: "$exists", Value: false}}}[r.N(2)]
	default:
		a := bson.A{}
		for k := 0; k < r.N(3); k++ {
			a = append(a, r.Scalar())
		}
		cond = bson.D{{Key: "$nin", Value: a}}
	}
	d := bson.D{{Key: key, Value: cond}}
	if r.P(10) {
		// a second key of the same identifier
		d = append(d, bson.E{Key: id + "." + gen.Keys[r.N(len(gen.Keys))], Value: r.Scalar()})
	}
	return &d
}

func arrayFilters(r *gen.R, malformed bool) bsonkit.List {
	return arrayFiltersFor(r, malformed, nil)
}

// arrayFiltersFor: 0–3 filters for random identifiers (often not used by the update) and, mostly, one or two for each
// identifier the update uses, inserted at random positions (so that foreign filters come before and after).
func arrayFiltersFor(r *gen.R, malformed bool, upd bson.D) bsonkit.List {
	var l bsonkit.List
	n := r.N(4)
	for i := 0; i < n; i++ {
		l = append(l, arrayFilter(r, filterID(r), malformed))
	}
	seen := map[string]bool{}
	for _, e := range upd {
		cd, _ := e.Value.(bson.D)
		for _, cnd := range cd {
			for _, m := range identRe.FindAllStringSubmatch(cnd.Key, -1) {
				id := m[1]
				if seen[id] || !r.P(80) {
					continue
				}
				seen[id] = true
				for k := 0; k < 1+r.N(2); k++ {
					at := r.N(len(l) + 1)
					l = append(l, nil)
					copy(l[at+1:], l[at:])
					l[at] = arrayFilter(r, id, malformed)
				}
			}
		}
	}
	return l
}

var oraclePathRe = regexp.MustCompile(`^([^.$]+)\.\$\[([^\].$]+)\](?:\.([^.$]+))?$`)

// arrayFilterOracle computes, independently of mongokit's resolver, the result of an update consisting of one $set / $inc /
// $unset with one path `f.$[id]` or `f.$[id].g` on a top-level array f: element k is selected iff it satisfies one of the
// array filters that bind id (a key equal to id or starting with id + "."), evaluated with the query matcher on the wrapper
// {id: element}. Not applicable (ok = false) when an evaluation errors or the element shape is outside the simple cases.
func arrayFilterOracle(doc, upd bson.D, filters bsonkit.List) (want bson.D, wantErr bool, ok bool) {
	if len(upd) != 1 {
		return nil, false, false
	}
	op := upd[0].Key
	cd, isDoc := upd[0].Value.(bson.D)
	if !isDoc || len(cd) != 1 || (op != "$set" && op != "$inc" && op != "$unset") {
		return nil, false, false
	}
	m := oraclePathRe.FindStringSubmatch(cd[0].Key)
	if m == nil {
		return nil, false, false
	}
	f, id, g, arg := m[1], m[2], m[3], cd[0].Value
	at := -1
	for i, e := range doc {
		if e.Key == f {
			if at >= 0 {
				return nil, false, false
			}
			at = i
		}
	}
	if at < 0 {
		return nil, false, false
	}
	arr, isArr := doc[at].Value.(bson.A)
	if !isArr {
		return nil, false, false
	}
	var own bsonkit.List
	for _, fl := range filters {
		for _, e := range *fl {
			if e.Key == id || strings.HasPrefix(e.Key, id+".") {
				own = append(own, fl)
				break
			}
		}
	}
	if len(own) == 0 {
		return nil, true, true
	}
	res := make(bson.A, len(arr))
	copy(res, arr)
	for k, el := range arr {
		selected := false
		for _, fl := range own {
			matched, err := mongokit.Match(&bson.D{{Key: id, Value: el}}, fl)
			if err != nil {
				return nil, false, false
			}
			selected = selected || matched
		}
		if !selected {
			continue
		}
		if g == "" {
			switch op {
			case "$set":
				res[k] = arg
			case "$unset":
				res[k] = nil
			case "$inc":
				v, reject, known := intPromotion(el, arg, false)
				if !known {
					return nil, false, false
				}
				if reject {
					return nil, true, true
				}
				res[k] = v
			}
			continue
		}
		ed, isD := el.(bson.D)
		if !isD {
			return nil, false, false
		}
		gi := -1
		for i, e := range ed {
			if e.Key == g {
				if gi >= 0 {
					return nil, false, false
				}
				gi = i
			}
		}
		nd := make(bson.D, len(ed))
		copy(nd, ed)
		switch op {
		case "$set":
			if gi >= 0 {
				nd[gi].Value = arg
			} else {
				nd = append(nd, bson.E{Key: g, Value: arg})
			}
		case "$unset":
			if gi >= 0 {
				nd = append(nd[:gi], nd[gi+1:]...)
			}
		case "$inc":
			if gi < 0 {
				if _, _, known := intPromotion(int32(0), arg, false); !known {
					return nil, false, false
				}
				nd = append(nd, bson.E{Key: g, Value: arg})
			} else {
				v, reject, known := intPromotion(ed[gi].Value, arg, false)
				if !known {
					return nil, false, false
				}
				if reject {
					return nil, true, true
				}
				nd[gi].Value = v
			}
		}
		res[k] = nd
	}
	want = make(bson.D, len(doc))
	copy(want, doc)
	want[at].Value = res
	return want, false, true
}

// oracleCase builds a case of the shape the array-filter oracle covers.
func oracleCase(r *gen.R, doc bson.D) (bson.D, bson.D) {
	f := gen.Keys[r.N(len(gen.Keys))]
	g := ""
	if r.P(45) {
		g = gen.Keys[r.N(len(gen.Keys))]
	}
	arr := bson.A{}
	for k := 0; k < 1+r.N(5); k++ {
		switch {
		case g != "" && r.P(85):
			d := bson.D{}
			for _, key := range gen.Keys {
				if r.P(45) {
					d = append(d, bson.E{Key: key, Value: r.SmallNumber()})
				}
			}
			arr = append(arr, d)
		case r.P(75):
			arr = append(arr, r.SmallNumber())
		default:
			arr = append(arr, r.Scalar())
		}
	}
	nd := bson.D{}
	for _, e := range doc {
		if e.Key != f {
			nd = append(nd, e)
		}
	}
	nd = append(nd, bson.E{})
	at := r.N(len(nd))
	copy(nd[at+1:], nd[at:])
	nd[at] = bson.E{Key: f, Value: arr}
	op := []string{"$set", "$inc", "$unset"}[r.N(3)]
	path := f + ".$[" + filterID(r) + "]"
	if g != "" {
		path += "." + g
	}
	var arg interface{}
	switch op {
	case "$set":
		arg = r.Value(1, false)
	case "$inc":
		arg = []interface{}{int32(1), int32(-2), int64(3), int32(math.MaxInt32), int64(math.MaxInt64)}[r.N(5)]
	default:
		arg = ""
	}
	return nd, bson.D{{Key: op, Value: bson.D{{Key: path, Value: arg}}}}
}

type applyOut struct {
	doc     bson.D
	changed map[string]interface{}
	err     bool
	panicv  string
}

func implApply(doc bson.D, upd bson.D, upsert bool, filters bsonkit.List) (out applyOut) {
	defer func() {
		if p := recover(); p != nil {
			out.panicv = fmt.Sprint(p)
		}
	}()
	d := bsonkit.Clone(&doc)
	u := bsonkit.Clone(&upd) // Apply stores references to the update's values in the document
	ch, err := mongokit.Apply(d, &bson.D{}, u, upsert, filters)
	if err != nil {
		return applyOut{err: true}
	}
	return applyOut{doc: *d, changed: ch.Changed}
}

func sentinelise(v interface{}, start time.Time) interface{} {
	switch x := v.(type) {
	case primitive.DateTime:
		t := x.Time()
		if !t.Before(start.Add(-2*time.Second)) && !t.After(time.Now().Add(2*time.Second)) {
			return primitive.DateTime(0)
		}
	case primitive.Timestamp:
		if int64(x.T) >= start.Unix()-2 && int64(x.T) <= time.Now().Unix()+2 {
			return primitive.Timestamp{}
		}
	case bson.D:
		c := make(bson.D, len(x))
		for i, e := range x {
			c[i] = bson.E{Key: e.Key, Value: sentinelise(e.Value, start)}
		}
		return c
	case bson.A:
		c := make(bson.A, len(x))
		for i, e := range x {
			c[i] = sentinelise(e, start)
		}
		return c
	}
	return v
}

func applyCanon(o applyOut, start time.Time) string {
	if o.panicv != "" {
		return `{"panic":` + run.JS(o.panicv) + `}`
	}
	if o.err {
		return `{"err":"err"}`
	}
	keys := make([]string, 0, len(o.changed))
	for k := range o.changed {
		keys = append(keys, k)
	}
	sort.Strings(keys)
	var sb strings.Builder
	sb.WriteString(`{"ok":{"changed":[`)
	for i, k := range keys {
		if i > 0 {
			sb.WriteByte(',')
		}
		sb.WriteString(`[` + run.JS(k) + `,` + vj.Enc(sentinelise(o.changed[k], start)) + `]`)
	}
	sb.WriteString(`],"doc":` + vj.Enc(sentinelise(o.doc, start)) + `}}`)
	return sb.String()
}

func hasCurrentDate(u bson.D) bool {
	for _, e := range u {
		if e.Key == "$currentDate" {
			return true
		}
	}
	return false
}

var idempotentOps = map[string]bool{"$set": true, "$unset": true, "$min": true, "$max": true, "$addToSet": true, "$pull": true, "$pullAll": true}

// promotion oracle for integer $inc / $mul (DESIGN §8.4)
func intPromotion(old, arg interface{}, mul bool) (want interface{}, reject bool, ok bool) {
	toI := func(v interface{}) (int64, bool, bool) { // value, is64, isInt
		switch x := v.(type) {
		case int32:
			return int64(x), false, true
		case int64:
			return x, true, true
		}
		return 0, false, false
	}
	a, a64, ai := toI(old)
	b, b64, bi := toI(arg)
	if !ai || !bi {
		return nil, false, false
	}
	var res int64
	overflow := false
	if mul {
		if a != 0 && b != 0 {
			res = a * b
			if res/b != a || (a == -1 && b == math.MinInt64) || (b == -1 && a == math.MinInt64) {
				overflow = true
			}
		}
	} else {
		res = a + b
		if (b > 0 && res < a) || (b < 0 && res > a) {
			overflow = true
		}
	}
	if overflow {
		return nil, true, true
	}
	if !a64 && !b64 && res >= math.MinInt32 && res <= math.MaxInt32 {
		return int32(res), false, true
	}
	return res, false, true
}

// positionalClash: the two dotted paths share their components up to some position where one has a positional
// component ($, $[], $[identifier]) and the other a field name or array index (MongoDB: "Updating the path 'a.5' would
// create a conflict at 'a'"). Two different positional components, or two different names, do not clash.
func positionalClash(a, b string) bool {
	positional := func(c string) bool { return c == "$" || strings.HasPrefix(c, "$[") }
	as, bs := strings.Split(a, "."), strings.Split(b, ".")
	for len(as) > 0 && len(bs) > 0 && as[0] == bs[0] {
		as, bs = as[1:], bs[1:]
	}
	return len(as) > 0 && len(bs) > 0 && positional(as[0]) != positional(bs[0])
}

func init() {
	run.Register(&run.Stream{
		Name: "apply",
		Rule: "documents (depth ≤3, arrays incl. nested) × update documents of 1–3 operators (dotted, indexed, $[] and $[id] paths; all numeric pairs incl. 2^31/2^53/2^63 boundaries; $each/$position/$sort/$slice incl. extreme integers; 20% malformed) × array-filter lists (identifiers i/j/i2/elem/elem2, own and foreign filters, conditions that hold for a missing field); " +
			"monitors: idempotence of $set/$unset/$min/$max/$addToSet/$pull/$pullAll, integer promotion oracle for $inc/$mul, untouched top-level fields keep value and order, recorded changes hold in the result, array-filter oracle for single $set/$inc/$unset on f.$[id](.g); non-trivial = distinct case whose update succeeded and changed the document",
		Gen: func(r *gen.R, idx int) []run.Case {
			start := time.Now()
			malformed := r.P(20)
			doc := r.Doc(3, true, r.P(50))
			// make integer targets likely for $inc/$mul/$bit
			if r.P(40) {
				doc = append(doc, bson.E{Key: "n", Value: r.Number()})
			}
			upd := Update(r, malformed)
			if r.P(30) {
				for i := range upd {
					if cd, ok := upd[i].Value.(bson.D); ok && len(cd) > 0 && (upd[i].Key == "$inc" || upd[i].Key == "$mul" || upd[i].Key == "$bit") && r.P(70) {
						cd[0].Key = "n"
					}
				}
			}
			if !malformed && r.P(10) {
				doc, upd = oracleCase(r, doc)
			}
			upsert := r.P(30)
			filters := arrayFiltersFor(r, malformed, upd)
			fl := "["
			for i, f := range filters {
				if i > 0 {
					fl += ","
				}
				fl += vj.Enc(*f)
			}
			fl += "]"
			req := `{"op":"apply","d":` + vj.Enc(doc) + `,"u":` + vj.Enc(upd) + `,"upsert":` + strconv.FormatBool(upsert) + `,"filters":` + fl + `}`
			out := implApply(doc, upd, upsert, filters)
			impl := applyCanon(out, start)
			tags := []string{}
			for _, e := range upd {
				tags = append(tags, "op:"+e.Key)
			}
			if malformed {
				tags = append(tags, "malformed")
			}
			changedDoc := false
			switch {
			case out.panicv != "":
				tags = append(tags, "panic")
			case out.err:
				tags = append(tags, "error")
			default:
				changedDoc = vj.Enc(out.doc) != vj.Enc(doc)
				if changedDoc {
					tags = append(tags, "changed")
				} else {
					tags = append(tags, "noop")
				}
			}
			c := run.Case{Req: req, Impl: impl, Nontrivial: changedDoc, Tags: tags, Accept: acceptModuloNaN(impl)}
			var viols []run.Violation
			add := func(prop, what, witness, detail string) {
				viols = append(viols, run.Violation{Property: prop, What: what, Witness: witness, Req: req, Detail: detail})
			}
			if out.panicv != "" {
				w := "apply-panic"
				if strings.Contains(out.panicv, "slice bounds") {
					w = "apply-panic:slice-bounds"
				} else if strings.Contains(out.panicv, "index out of range") {
					w = "apply-panic:index"
				}
				add("C20", "mongokit.Apply panics: "+out.panicv, w, "")
			}
			// $[identifier] selects exactly the elements that satisfy one of the identifier's own array filters (independent oracle)
			if !malformed && out.panicv == "" {
				if want, wantErr, ok := arrayFilterOracle(doc, upd, filters); ok {
					c.Tags = append(c.Tags, "arrayfilter-oracle")
					switch {
					case wantErr && !out.err:
						add("C11", "an update that must be rejected (no array filter binds the identifier / integer overflow) is accepted", "arrayfilter-oracle", vj.Enc(out.doc))
					case !wantErr && out.err:
						add("C11", "an update on the elements selected by the identifier's array filters is rejected", "arrayfilter-oracle", "want "+vj.Enc(want))
					case !wantErr && vj.Enc(want) != vj.Enc(out.doc):
						add("C11", "$[identifier] did not select exactly the elements satisfying the identifier's own array filters", "arrayfilter-oracle", "want "+vj.Enc(want)+" got "+vj.Enc(out.doc))
					}
				}
			}
			// literal update paths and whether two of them conflict as MongoDB defines it: equal or prefix-related, or — at the
			// first component where they differ — a positional component ($, $[], $[id]) against a field name / index
			var litPaths []string
			for _, e := range upd {
				if cd, ok := e.Value.(bson.D); ok {
					for _, cnd := range cd {
						litPaths = append(litPaths, cnd.Key)
						if e.Key == "$rename" {
							if s, ok := cnd.Value.(string); ok {
								litPaths = append(litPaths, s)
							}
						}
					}
				}
			}
			conflicting := false
			for i := range litPaths {
				for j := range litPaths {
					if i < j && (litPaths[i] == litPaths[j] || strings.HasPrefix(litPaths[i], litPaths[j]+".") || strings.HasPrefix(litPaths[j], litPaths[i]+".")) {
						conflicting = true
					}
					if i < j && positionalClash(litPaths[i], litPaths[j]) {
						conflicting = true
					}
				}
			}
			if conflicting && !malformed && out.panicv == "" && !out.err {
				add("C11", "update with conflicting (equal, prefix-related or positional-vs-field) paths is accepted", "conflict-accepted", strings.Join(litPaths, ","))
			}
			if out.panicv == "" && !out.err && !malformed && !conflicting {
				// every recorded change holds in the result (C08's changes_cover, C11)
				for p, v := range out.changed {
					got := bsonkit.Get(&out.doc, p)
					if v == bsonkit.Missing {
						// removed: the field is absent, or (array element) null
						if got != bsonkit.Missing && got != nil {
							add("C11", "recorded removal not reflected in the result", "changes:removed-present", p)
						}
					} else if bsonkit.Compare(got, v) != 0 || vj.Enc(got) != vj.Enc(v) {
						add("C11", "recorded change differs from the result", "changes:value-differs", p)
					}
				}
				// untouched top-level fields keep value and relative order
				touched := map[string]bool{}
				for _, e := range upd {
					if cd, ok := e.Value.(bson.D); ok {
						for _, cnd := range cd {
							touched[strings.SplitN(cnd.Key, ".", 2)[0]] = true
							if e.Key == "$rename" {
								if s, ok := cnd.Value.(string); ok {
									touched[strings.SplitN(s, ".", 2)[0]] = true
								}
							}
						}
					}
				}
				var before, after []string
				for _, e := range doc {
					if !touched[e.Key] {
						before = append(before, run.JS(e.Key)+":"+vj.Enc(e.Value))
					}
				}
				orig := map[string]bool{}
				for _, e := range doc {
					orig[e.Key] = true
				}
				for _, e := range out.doc {
					if !touched[e.Key] && orig[e.Key] {
						after = append(after, run.JS(e.Key)+":"+vj.Enc(e.Value))
					}
				}
				if strings.Join(before, ",") != strings.Join(after, ",") {
					add("C11", "untouched fields changed value or position", "untouched-fields", strings.Join(before, ",")+" vs "+strings.Join(after, ","))
				}
				// a modifier-form $push ($each anywhere among the keys) never stores the modifier document itself
				for _, e := range upd {
					if e.Key != "$push" {
						continue
					}
					cd, _ := e.Value.(bson.D)
					for _, cnd := range cd {
						arg, isDoc := cnd.Value.(bson.D)
						hasEach := false
						for _, m := range arg {
							if m.Key == "$each" {
								hasEach = true
							}
						}
						if !isDoc || !hasEach || strings.Contains(cnd.Key, "$") {
							continue
						}
						if arr, ok := bsonkit.Get(&out.doc, cnd.Key).(bson.A); ok {
							for _, el := range arr {
								if vj.Enc(el) == vj.Enc(arg) {
									add("C11", "$push stored its modifier document as an element", "push-modifiers-stored", cnd.Key)
								}
							}
						}
					}
				}
				// $min / $max from their definition (literal top-level paths, one operator document): an absent field is set to the
				// operand (whatever its type, null included); a present one is replaced iff the operand is smaller / larger
				for _, e := range upd {
					if e.Key != "$min" && e.Key != "$max" {
						continue
					}
					cd, _ := e.Value.(bson.D)
					for _, cnd := range cd {
						if strings.ContainsAny(cnd.Key, ".$") || cnd.Key == "" || cnd.Key == "_id" {
							continue
						}
						// only when no other operator of the update touches the same top-level field
						others := 0
						for _, e2 := range upd {
							if cd2, ok := e2.Value.(bson.D); ok {
								for _, c2 := range cd2 {
									if strings.SplitN(c2.Key, ".", 2)[0] == cnd.Key {
										others++
									}
									if s2, ok := c2.Value.(string); ok && e2.Key == "$rename" && strings.SplitN(s2, ".", 2)[0] == cnd.Key {
										others++
									}
								}
							}
						}
						if others != 1 {
							continue
						}
						before := bsonkit.Get(&doc, cnd.Key)
						want := before
						if before == bsonkit.Missing {
							want = cnd.Value
						} else if c := bsonkit.Compare(cnd.Value, before); e.Key == "$min" && c < 0 || e.Key == "$max" && c > 0 {
							want = cnd.Value
						}
						if got := bsonkit.Get(&out.doc, cnd.Key); vj.Enc(got) != vj.Enc(want) {
							add("C11", e.Key+" result differs from its definition", "minmax-oracle", cnd.Key+": got "+vj.Enc(got)+" want "+vj.Enc(want))
						}
					}
				}
				// $addToSet adds every value at most once: the elements of the result that were not in the original array are
				// pairwise different (independent of the model; literal top-level paths only)
				for _, e := range upd {
					if e.Key != "$addToSet" {
						continue
					}
					cd, _ := e.Value.(bson.D)
					for _, cnd := range cd {
						if strings.ContainsAny(cnd.Key, ".$") || cnd.Key == "" {
							continue
						}
						before, _ := bsonkit.Get(&doc, cnd.Key).(bson.A)
						after, ok := bsonkit.Get(&out.doc, cnd.Key).(bson.A)
						if !ok || len(after) < len(before) {
							continue
						}
						added := after[len(before):]
						for i := range added {
							for j := range added {
								if i < j && bsonkit.Compare(added[i], added[j]) == 0 {
									add("C11", "$addToSet added the same value twice", "addtoset-duplicate", cnd.Key+": "+vj.Enc(after))
								}
							}
							for _, b := range before {
								if bsonkit.Compare(added[i], b) == 0 {
									add("C11", "$addToSet added a value that was already present", "addtoset-duplicate", cnd.Key+": "+vj.Enc(after))
								}
							}
						}
					}
				}
				// a field cannot be created below an explicit null (document field or array element): MongoDB rejects
				// "Cannot create field 'b' in element {a: null}"; literal paths of $set/$inc/$min/$max/$mul/$push/$addToSet
				for _, e := range upd {
					switch e.Key {
					case "$set", "$inc", "$mul", "$min", "$max", "$push", "$addToSet":
					default:
						continue
					}
					cd, _ := e.Value.(bson.D)
					for _, cnd := range cd {
						if strings.Contains(cnd.Key, "$") || cnd.Key == "" {
							continue
						}
						segs := strings.Split(cnd.Key, ".")
						for k := 1; k < len(segs); k++ {
							pre := strings.Join(segs[:k], ".")
							if v := bsonkit.Get(&doc, pre); v == nil {
								// (an accepted no-op through a null, e.g. $addToSet of nothing, is a milder deviation: counted only)
								if now := bsonkit.Get(&out.doc, pre); now != nil {
									add("C11", "an update created a field below an explicit null", "created-below-null", cnd.Key)
								} else {
									c.Tags = append(c.Tags, "noop-through-null-accepted")
								}
								break
							}
						}
					}
				}
				// idempotence
				allIdem := !hasCurrentDate(upd)
				for _, e := range upd {
					if !idempotentOps[e.Key] {
						allIdem = false
					}
				}
				if allIdem {
					again := implApply(out.doc, upd, upsert, filters)
					if again.panicv == "" && !again.err {
						if vj.Enc(again.doc) != vj.Enc(out.doc) {
							ops := []string{}
							for _, e := range upd {
								ops = append(ops, e.Key)
							}
							sort.Strings(ops)
							add("C11", "second application changes the document", "idempotence:"+strings.Join(ops, "+"), vj.Enc(out.doc)+" -> "+vj.Enc(again.doc))
						}
					} else if again.err {
						// a rejected second application changes nothing, which is all the property asks; it happens when the first
						// application changed the shape the update addresses (e.g. "b.5" pads b with nulls, after which "b.$[].c"
						// cannot be created below a null element — MongoDB rejects that as well). Counted, not reported.
						c.Tags = append(c.Tags, "idempotence:second-application-rejected")
					}
				}
			}
			// integer promotion oracle for single $inc / $mul on an existing integer top-level field
			if len(upd) == 1 && (upd[0].Key == "$inc" || upd[0].Key == "$mul") && out.panicv == "" {
				if cd, ok := upd[0].Value.(bson.D); ok && len(cd) == 1 && !strings.ContainsAny(cd[0].Key, ".$") && cd[0].Key != "" {
					old := bsonkit.Get(&doc, cd[0].Key)
					if want, reject, ok := intPromotion(old, cd[0].Value, upd[0].Key == "$mul"); ok {
						if reject && !out.err {
							add("C11", "int64 overflow is not rejected", "promotion:int64-overflow:"+upd[0].Key, vj.Enc(old)+" "+vj.Enc(cd[0].Value))
						} else if !reject {
							if out.err {
								add("C11", "valid integer arithmetic rejected", "promotion:rejected", "")
							} else if got := bsonkit.Get(&out.doc, cd[0].Key); vj.Enc(got) != vj.Enc(want) {
								add("C11", "integer result has wrong value/type", "promotion:"+upd[0].Key+":"+typeTag(old)+","+typeTag(cd[0].Value), "got "+vj.Enc(got)+" want "+vj.Enc(want))
							}
						}
					}
				}
			}
			c.Viols = viols
			return []run.Case{c}
		},
	})

	run.Register(&run.Stream{
		Name: "arith",
		Rule: "bsonkit.Add / Mul over all 16 numeric type pairs from the edge pools; non-trivial = both operands numeric and the pair is modelled (not double with decimal128)",
		Gen: func(r *gen.R, idx int) []run.Case {
			a, b := r.Number(), r.Number()
			if r.P(10) {
				b = r.Scalar()
			}
			var cases []run.Case
			for _, k := range []string{"add", "mul"} {
				impl := run.Safe(func() string {
					var res interface{}
					if k == "add" {
						res = bsonkit.Add(a, b)
					} else {
						res = bsonkit.Mul(a, b)
					}
					return `{"ok":` + vj.Enc(res) + `}`
				})
				ta, tb := typeTag(a), typeTag(b)
				modelled := !((ta == "f64" && tb == "dec") || (ta == "dec" && tb == "f64"))
				c := run.Case{
					Req:  `{"op":"arith","k":"` + k + `","a":` + vj.Enc(a) + `,"b":` + vj.Enc(b) + `}`,
					Impl: impl, Nontrivial: modelled && classRank[tb] == 1, Tags: []string{k + ":" + ta + "," + tb}, Accept: acceptModuloNaN(impl)}
				// independent integer oracle (DESIGN §8.4): exact result; int32 unless it leaves int32; int64 overflow → Missing
				if want, reject, ok := intPromotion(a, b, k == "mul"); ok {
					wantS := `{"ok":{"m":1}}`
					if !reject {
						wantS = `{"ok":` + vj.Enc(want) + `}`
					}
					if impl != wantS {
						c.Viols = []run.Violation{{Property: "C11", What: "integer " + k + " has wrong value/type or misses an overflow", Witness: "promotion:" + k + ":" + ta + "," + tb, Req: c.Req, Detail: "got " + impl + " want " + wantS}}
					}
				}
				cases = append(cases, c)
			}
			return cases
		},
	})

	run.Register(&run.Stream{
		Name: "put",
		Rule: "bsonkit.Put / Unset / Get / All on generated documents and paths (dotted, indexed, signed and huge indexes, empty segments); non-trivial = the call changed the document or returned a non-missing value",
		Gen: func(r *gen.R, idx int) []run.Case {
			doc := r.Doc(3, true, false)
			p := r.Path()
			if r.P(20) {
				p = []string{"", "a.", ".a", "a..b", "a.-1", "a.+1", "a.01", "a.9223372036854775807", "a.9223372036854775808", "a.1e3", "0", "a.0.0", "a.+0", "a.-0", "a.1600000", "a.0.1500005", "b.+1.c"}[r.N(17)]
			}
			v := r.Value(1, true)
			pre := r.P(30)
			var cases []run.Case
			roundTrip := ""
			implPut := run.Safe(func() string {
				d := bsonkit.Clone(&doc)
				prev, err := bsonkit.Put(d, p, v, pre)
				if err != nil {
					return `{"err":"err"}`
				}
				// law monitor (C11): a successful Put is read back by Get at the same path
				if got := vj.Enc(bsonkit.Get(d, p)); got != vj.Enc(v) {
					roundTrip = got
				}
				return `{"ok":[` + vj.Enc(*d) + `,` + vj.Enc(prev) + `]}`
			})
			cases = append(cases, run.Case{Req: `{"op":"put","d":` + vj.Enc(doc) + `,"p":` + run.JS(p) + `,"v":` + vj.Enc(v) + `,"prepend":` + strconv.FormatBool(pre) + `}`,
				Impl: implPut, Nontrivial: strings.HasPrefix(implPut, `{"ok"`), Tags: []string{"put"}})
			if strings.HasPrefix(implPut, `{"panic"`) {
				cases[0].Viols = []run.Violation{{Property: "C20", What: "bsonkit.Put panics", Witness: "put-panic", Req: cases[0].Req, Detail: implPut}}
			}
			if roundTrip != "" {
				cases[0].Viols = append(cases[0].Viols, run.Violation{Property: "C11", What: "Put succeeded but Get at the same path does not return the value", Witness: "put-get-roundtrip", Req: cases[0].Req, Detail: roundTrip})
			}
			implUnset := run.Safe(func() string {
				d := bsonkit.Clone(&doc)
				prev := bsonkit.Unset(d, p)
				return `{"ok":[` + vj.Enc(*d) + `,` + vj.Enc(prev) + `]}`
			})
			cases = append(cases, run.Case{Req: `{"op":"unset","d":` + vj.Enc(doc) + `,"p":` + run.JS(p) + `}`, Impl: implUnset,
				Nontrivial: !strings.HasSuffix(implUnset, `{"m":1}]}`), Tags: []string{"unset"}})
			implGet := run.Safe(func() string { return `{"ok":` + vj.Enc(bsonkit.Get(&doc, p)) + `}` })
			cases = append(cases, run.Case{Req: `{"op":"get","d":` + vj.Enc(doc) + `,"p":` + run.JS(p) + `}`, Impl: implGet,
				Nontrivial: implGet != `{"ok":{"m":1}}`, Tags: []string{"get"}})
			compact, merge := r.P(50), r.P(50)
			implAll := run.Safe(func() string {
				val, nested := bsonkit.All(&doc, p, compact, merge)
				return `{"ok":[` + vj.Enc(val) + `,` + strconv.FormatBool(nested) + `]}`
			})
			cases = append(cases, run.Case{Req: `{"op":"all","d":` + vj.Enc(doc) + `,"p":` + run.JS(p) + `,"compact":` + strconv.FormatBool(compact) + `,"merge":` + strconv.FormatBool(merge) + `}`,
				Impl: implAll, Nontrivial: strings.HasSuffix(implAll, `true]}`), Tags: []string{"all"}})
			return cases
		},
	})
}
