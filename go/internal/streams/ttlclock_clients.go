package streams

import (
	"context"
	"errors"
	"fmt"
	"sort"
	"strconv"
	"sync"
	"time"

	"go.mongodb.org/mongo-driver/bson"

	"github.com/256dpi/lungo"
	"github.com/256dpi/lungo/bsonkit"
)

// Client writers of the stream "ttlclock" (Property C04 next to C19): THE EXPIRY GOROUTINE IS A WRITER that
// competes with the client writers for the engine's write token. While documents are expiring (modes busy,
// sess-commit, sess-abort and above all contend, where every 100 ms a pass really deletes something), client
// goroutines perform ACKNOWLEDGED writes on other collections and on the TTL collections themselves:
//
//	plain writers   UpdateOne {$inc: {cnt: 1}, $set: {last: <unique token>}} on shared counters, InsertOne with fresh
//	                ids (far-future / expired / non-date TTL values, with unique and partial indexes), DeleteOne of own
//	                documents;
//	holder          (mode contend) session transactions (WithTransaction) that increment two counters and insert two
//	                documents and stay open for 100..800 ms across expiry moments — the expiry goroutine and the plain
//	                writers queue up behind the token; one in five is aborted;
//	session         (modes sess-*) the one long session transaction increments every counter; two plain writers
//	                start 30 ms after it and wait behind it.
//
// Monitors at the end, on the final catalog (all Property C04): ttl-clock:lost-update (a counter is below the
// number of acknowledged increments, or the logged counter values are not 1..N in log order), ttl-clock:phantom-update
// (above), ttl-clock:ack-lost (an acknowledged insert — of a client or of the insert phase — that cannot be expired
// is gone and the change log has neither a delete event nor the insert event; otherwise it is the expiry's business and
// judged by the C19 monitors), ttl-clock:ack-not-logged / ttl-clock:logged-twice (not exactly
// one change-log event per acknowledged write; increments are identified by their token), ttl-clock:unacked-logged
// (an aborted transaction left an event), ttl-clock:log-order (a write acknowledged before another one was issued
// comes later in the log — this includes the program order of every goroutine), ttl-clock:txn-interleaved (the
// events of one transaction are not contiguous).

// Registration: lib/props.py C04 "streams" gets ('ttlclock', 32) next to ('sched', 200) — every run executes the
// 16 corpus cases (all 8 modes x mem/file, i.e. contend, busy, sess-commit and sess-abort twice each) plus the generated
// ones; the violations of this file carry Property "C04", those of ttlclock.go "C19". What is trusted for C04 here: the
// real Go scheduler picks the interleavings (no schedule control as in `sched`); acknowledgement = the call returned nil.

type tcCounterSpec struct {
	h   lungo.Handle
	doc bson.D
}

type tcClientSpec struct {
	plain  int           // plain writers
	holder bool          // plus one goroutine holding session transactions open
	delay  time.Duration // the plain writers start this much later
	until  int64         // ms
}

type tcPart struct {
	kind  string // "inc" | "insert" | "delete"
	h     lungo.Handle
	id    string
	token string
	coll  *tcColl
	doc   bson.D
}

type tcOp struct {
	g, seq   int
	kind     string
	start    time.Time
	ackAt    time.Time
	acked    bool
	aborted  bool
	parts    []tcPart
	pos      []int // oplog positions of the parts (audit)
	complete bool
}

var errTcAbort = errors.New("abort on purpose")

// errTcVanished: the counter document is gone (the document monitors say who took it); the goroutine stops.
var errTcVanished = errors.New("the counter document vanished")

func (s *tcScn) newOp(g, seq int, kind string) *tcOp {
	op := &tcOp{g: g, seq: seq, kind: kind, start: time.Now()}
	s.mu.Lock()
	s.ops = append(s.ops, op)
	s.mu.Unlock()
	return op
}

// ack marks the operation as acknowledged (the call / the commit returned without error) and starts tracking
// the inserted documents.
func (s *tcScn) ack(op *tcOp) {
	now := time.Now()
	seq := s.store.count()
	s.mu.Lock()
	op.ackAt, op.acked = now, true
	parts := append([]tcPart(nil), op.parts...)
	s.mu.Unlock()
	for _, p := range parts {
		if p.kind == "insert" {
			d := s.track(p.coll, "client", p.doc, false)
			s.mu.Lock()
			d.client, d.ready, d.readySeq = true, tcMs(now), seq
			s.mu.Unlock()
		}
	}
}

func (s *tcScn) addPart(op *tcOp, p tcPart) {
	s.mu.Lock()
	op.parts = append(op.parts, p)
	s.mu.Unlock()
}

// inc increments counter i by one and stamps the unique token of this write.
func (s *tcScn) inc(ctx context.Context, op *tcOp, i int) error {
	c := s.counters[i%len(s.counters)]
	id := c.doc[0].Value.(string)
	token := fmt.Sprintf("g%d#%d.%d", op.g, op.seq, len(op.parts))
	s.addPart(op, tcPart{kind: "inc", h: c.h, id: id, token: token})
	res, err := s.coll(c.h).UpdateOne(ctx, bson.D{{Key: "_id", Value: id}},
		bson.D{{Key: "$inc", Value: bson.D{{Key: "cnt", Value: int32(1)}}}, {Key: "$set", Value: bson.D{{Key: "last", Value: token}}}})
	if err != nil {
		return err
	}
	if res.MatchedCount == 0 {
		return errTcVanished
	}
	if res.MatchedCount != 1 || res.ModifiedCount != 1 {
		return fmt.Errorf("increment of %s.%s %s matched %d, modified %d", c.h[0], c.h[1], id, res.MatchedCount, res.ModifiedCount)
	}
	return nil
}

func (s *tcScn) collByHandle(db, coll string) *tcColl {
	for _, c := range s.colls {
		if c.h == (lungo.Handle{db, coll}) {
			return c
		}
	}
	panic("no collection " + db + "." + coll)
}

// clientDoc builds the variant-th kind of client document; immune says that it can never expire.
func (s *tcScn) clientDoc(g, seq, variant int) (c *tcColl, doc bson.D, immune bool) {
	f := s.p.Field
	far, old := tcDT(s.base.Add(1000*time.Hour)), tcDT(s.base.Add(-time.Hour))
	id := fmt.Sprintf("cl%d#%d", g, seq)
	u := bson.E{Key: "u", Value: int32(20000 + g*100000 + seq)}
	switch variant % 6 {
	case 0:
		return s.collByHandle("ta", "e1"), bson.D{{Key: "_id", Value: id}, {Key: f, Value: far}, u}, true
	case 1:
		return s.collByHandle("tb", "plain"), bson.D{{Key: "_id", Value: id}, {Key: f, Value: old}, u}, false
	case 2:
		return s.collByHandle("tc", "w"), bson.D{{Key: "_id", Value: id}, {Key: f, Value: old}, u}, true
	case 3:
		return s.collByHandle("ta", "e0"), bson.D{{Key: "_id", Value: id}, {Key: f, Value: "2001-01-01"}, u}, true
	case 4:
		return s.collByHandle("ta", "e2x"), bson.D{{Key: "_id", Value: id}, {Key: f, Value: far}, {Key: "k", Value: int32(seq % 3)}, u, {Key: "p", Value: int32(1)}}, true
	default:
		return s.collByHandle("ta", "two"), bson.D{{Key: "_id", Value: id}, {Key: f, Value: far}, {Key: f + "2", Value: old}, u}, false
	}
}

func (s *tcScn) clientInsert(ctx context.Context, op *tcOp, variant int) (immune bool, err error) {
	c, doc, immune := s.clientDoc(op.g, op.seq*8+len(op.parts), variant)
	s.addPart(op, tcPart{kind: "insert", h: c.h, id: doc[0].Value.(string), coll: c, doc: doc})
	_, err = s.coll(c.h).InsertOne(ctx, doc)
	return immune, err
}

func (s *tcScn) clientFailed(op *tcOp, err error) {
	if errors.Is(err, errTcVanished) {
		s.tag("own-document-vanished")
		return
	}
	s.violP("C04", "ttl-clock:write-failed", "a client write failed although nothing can conflict with it", fmt.Sprintf("goroutine %d op %d (%s): %v", op.g, op.seq, op.kind, err))
}

// startClients starts the client goroutines; the returned function waits for them.
func (s *tcScn) startClients(ctx context.Context, spec tcClientSpec) (join func()) {
	var wg sync.WaitGroup
	for g := 1; g <= spec.plain; g++ {
		wg.Add(1)
		go func(g int) {
			defer wg.Done()
			defer func() {
				if p := recover(); p != nil {
					s.viol("ttl-clock:panic", "a client writer panicked", fmt.Sprint(p))
				}
			}()
			time.Sleep(spec.delay)
			rnd := s.p.Bits ^ uint64(g)*0x9E3779B97F4A7C15
			var mine []tcPart
			for seq := 0; tcMs(time.Now()) < spec.until; seq++ {
				rnd = rnd*6364136223846793005 + 1442695040888963407
				var err error
				var op *tcOp
				switch k := (rnd >> 33) % 8; {
				case k < 4:
					op = s.newOp(g, seq, "inc")
					err = s.inc(ctx, op, int(rnd>>40))
				case k < 7 || len(mine) == 0:
					op = s.newOp(g, seq, "insert")
					var immune bool
					immune, err = s.clientInsert(ctx, op, int(rnd>>40))
					if err == nil && immune {
						mine = append(mine, op.parts[0])
					}
				default:
					op = s.newOp(g, seq, "delete")
					victim := mine[0]
					mine = mine[1:]
					s.addPart(op, tcPart{kind: "delete", h: victim.h, id: victim.id})
					dr, derr := s.coll(victim.h).DeleteOne(ctx, bson.D{{Key: "_id", Value: victim.id}})
					err = derr
					if err == nil && dr.DeletedCount != 1 {
						// the own (immune) document is gone already: the document monitors say who took it; this
						// operation wrote nothing
						s.tag("own-document-vanished")
						s.mu.Lock()
						op.parts = nil
						s.mu.Unlock()
						continue
					}
					if err == nil {
						s.mu.Lock()
						for _, d := range s.docs {
							if d.h == victim.h && d.id == victim.id {
								d.explicit = true
							}
						}
						s.mu.Unlock()
					}
				}
				if err != nil {
					s.clientFailed(op, err)
					return
				}
				s.ack(op)
				time.Sleep(time.Duration(1+(rnd>>50)%5) * time.Millisecond)
			}
		}(g)
	}
	if spec.holder {
		wg.Add(1)
		go func() {
			defer wg.Done()
			defer func() {
				if p := recover(); p != nil {
					s.viol("ttl-clock:panic", "the transaction holder panicked", fmt.Sprint(p))
				}
			}()
			sess, err := s.client.StartSession()
			if err != nil {
				s.violP("C04", "ttl-clock:write-failed", "cannot start a session", err.Error())
				return
			}
			defer sess.EndSession(ctx)
			rnd := s.p.Bits ^ 0xD1B54A32D192ED03
			for seq := 0; tcMs(time.Now()) < spec.until; seq++ {
				rnd = rnd*6364136223846793005 + 1442695040888963407
				hold := int64(100 + (rnd>>33)%700)
				if now := tcMs(time.Now()); now+hold > spec.until+100 {
					hold = spec.until + 100 - now
				}
				abort := (rnd>>50)%5 == 0
				var op *tcOp
				_, err := sess.WithTransaction(ctx, func(sc lungo.ISessionContext) (interface{}, error) {
					op = s.newOp(100, seq, "txn")
					for j := 0; j < 2; j++ {
						if err := s.inc(sc, op, int(rnd>>40)+j); err != nil {
							return nil, err
						}
					}
					for _, variant := range []int{0, 1} {
						if _, err := s.clientInsert(sc, op, variant); err != nil {
							return nil, err
						}
					}
					time.Sleep(time.Duration(hold) * time.Millisecond)
					if abort {
						return nil, errTcAbort
					}
					return nil, nil
				})
				end := tcMs(time.Now())
				s.mu.Lock()
				if end > s.blockEnd {
					s.blockEnd = end
				}
				s.mu.Unlock()
				switch {
				case err == nil:
					s.ack(op)
				case errors.Is(err, errTcAbort):
					s.mu.Lock()
					op.aborted = true
					s.mu.Unlock()
				default:
					if op == nil {
						op = &tcOp{g: 100, seq: seq, kind: "txn"}
					}
					s.clientFailed(op, err)
					return
				}
				time.Sleep(time.Duration(15+(rnd>>55)%30) * time.Millisecond)
			}
		}()
	}
	return wg.Wait
}

// auditClients checks the acknowledged client writes against the final catalog and its change log.
func (s *tcScn) auditClients(sn tcSnap) {
	s.mu.Lock()
	ops := append([]*tcOp(nil), s.ops...)
	s.mu.Unlock()
	if len(ops) == 0 {
		return
	}
	c04 := func(witness, what, detail string) { s.violP("C04", witness, what, detail) }
	type ek struct {
		kind  string
		h     lungo.Handle
		id    string
		token string
	}
	pos := map[ek][]int{}
	type cv struct {
		at  int
		val int64
	}
	logged := map[string][]cv{} // counter → logged values in log order
	var oplog bsonkit.List
	if ns := sn.cat.Namespaces[lungo.Oplog]; ns != nil {
		oplog = ns.Documents.List
	}
	for i, ev := range oplog {
		op, _ := bsonkit.Get(ev, "operationType").(string)
		db, _ := bsonkit.Get(ev, "ns.db").(string)
		coll, _ := bsonkit.Get(ev, "ns.coll").(string)
		id, _ := bsonkit.Get(ev, "documentKey._id").(string)
		h := lungo.Handle{db, coll}
		switch op {
		case "insert", "delete":
			k := ek{op, h, id, ""}
			pos[k] = append(pos[k], i)
		case "update":
			token, _ := bsonkit.Get(ev, "updateDescription.updatedFields.last").(string)
			if token == "" {
				continue
			}
			k := ek{"inc", h, id, token}
			pos[k] = append(pos[k], i)
			var val int64 = -1
			switch n := bsonkit.Get(ev, "updateDescription.updatedFields.cnt").(type) {
			case int32:
				val = int64(n)
			case int64:
				val = n
			}
			ck := db + "." + coll + " " + id
			logged[ck] = append(logged[ck], cv{i, val})
		}
	}

	// exactly one event per acknowledged write, none for the others
	acks := map[string]int{}
	nAcked, nTxn, nAborted := 0, 0, 0
	for _, op := range ops {
		op.pos, op.complete = nil, true
		if op.acked {
			nAcked++
			if op.kind == "txn" {
				nTxn++
			}
		} else if op.aborted {
			nAborted++
		}
		for _, p := range op.parts {
			k := ek{p.kind, p.h, p.id, p.token}
			found := pos[k]
			where := fmt.Sprintf("goroutine %d op %d (%s): %s on %s.%s _id=%s %s: %d events", op.g, op.seq, op.kind, p.kind, p.h[0], p.h[1], p.id, p.token, len(found))
			switch {
			case op.acked && len(found) == 0:
				op.complete = false
				c04("ttl-clock:ack-not-logged", "an acknowledged write has no event in the change log", where)
			case op.acked && len(found) > 1:
				op.complete = false
				c04("ttl-clock:logged-twice", "an acknowledged write has more than one event in the change log", where)
			case !op.acked && len(found) > 0:
				c04("ttl-clock:unacked-logged", "a write of an aborted or failed operation is in the change log", where)
			}
			if op.acked && len(found) == 1 {
				op.pos = append(op.pos, found[0])
			}
			if op.acked && p.kind == "inc" {
				acks[p.h[0]+"."+p.h[1]+" "+p.id]++
			}
		}
		if op.acked && op.complete && len(op.pos) > 1 {
			sort.Ints(op.pos)
			if op.pos[len(op.pos)-1]-op.pos[0]+1 != len(op.pos) {
				c04("ttl-clock:txn-interleaved", "the events of one transaction are not contiguous in the change log", fmt.Sprintf("goroutine %d op %d: positions %v", op.g, op.seq, op.pos))
			}
		}
	}

	// counters: final value = acknowledged increments; logged values 1..N in log order
	for _, c := range s.counters {
		id := c.doc[0].Value.(string)
		ck := c.h[0] + "." + c.h[1] + " " + id
		var final int64 = -1
		if ns := sn.cat.Namespaces[c.h]; ns != nil {
			for _, d := range ns.Documents.List {
				if x, _ := bsonkit.Get(d, "_id").(string); x == id {
					switch n := bsonkit.Get(d, "cnt").(type) {
					case int32:
						final = int64(n)
					case int64:
						final = n
					}
				}
			}
		}
		if final < 0 {
			continue // the counter document itself is gone: reported by the C19 monitors
		}
		want := int64(acks[ck])
		switch {
		case final < want:
			c04("ttl-clock:lost-update", "a shared counter is below the number of acknowledged increments", fmt.Sprintf("%s: final %d, acknowledged %d, logged %d", ck, final, want, len(logged[ck])))
		case final > want:
			c04("ttl-clock:phantom-update", "a shared counter is above the number of acknowledged increments", fmt.Sprintf("%s: final %d, acknowledged %d, logged %d", ck, final, want, len(logged[ck])))
		}
		for i, l := range logged[ck] {
			if l.val != int64(i+1) {
				c04("ttl-clock:lost-update", "the logged values of a shared counter are not 1..N in log order (two increments started from the same value)",
					fmt.Sprintf("%s: event %d in log order carries cnt=%d", ck, i+1, l.val))
				break
			}
		}
	}

	// real-time order (includes the program order of each goroutine): acknowledged before issued → earlier in the log
	var done []*tcOp
	for _, op := range ops {
		if op.acked && op.complete && len(op.pos) > 0 {
			sort.Ints(op.pos)
			done = append(done, op)
		}
	}
	bad := 0
	for _, a := range done {
		for _, b := range done {
			if a != b && a.ackAt.Before(b.start) && a.pos[len(a.pos)-1] > b.pos[0] {
				bad++
				if bad <= 2 {
					c04("ttl-clock:log-order", "a write acknowledged before another one was issued comes later in the change log",
						fmt.Sprintf("goroutine %d op %d (%s, positions %v) was acknowledged %s before goroutine %d op %d (%s, positions %v) was issued",
							a.g, a.seq, a.kind, a.pos, b.start.Sub(a.ackAt), b.g, b.seq, b.kind, b.pos))
				}
			}
		}
	}
	s.tag("client-acks:" + tcBucket(nAcked, 20, 100, 300))
	if nTxn > 0 {
		s.tag("client-txns-committed:" + strconv.Itoa(min(nTxn, 5)))
	}
	if nAborted > 0 {
		s.tag("client-txns-aborted")
	}
}
