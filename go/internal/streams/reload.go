package streams

import (
	"context"
	"encoding/hex"
	"encoding/json"
	"fmt"
	"math"
	"os"
	"path/filepath"
	"reflect"
	"sort"
	"strings"
	"time"

	"go.mongodb.org/mongo-driver/bson"
	"go.mongodb.org/mongo-driver/bson/primitive"
	"go.mongodb.org/mongo-driver/mongo"
	"go.mongodb.org/mongo-driver/mongo/options"

	"github.com/256dpi/lungo"
	"github.com/256dpi/lungo/bsonkit"
	"github.com/256dpi/lungo/mongokit"

	"verifharness/internal/gen"
	"verifharness/internal/run"
	"verifharness/internal/vj"
)

// Stream "reload" (C06): a generated API history on a real FileStore in a temp dir, then
// Close, reopen, and compare canonical dumps of engine.Catalog() (every namespace incl.
// local.oplog: documents in natural order, index definitions by name) plus duplicate-probe
// inserts against every index. The model side replays FileStore.Load on the very bytes the
// real Store wrote (op loadfile) and FileStore.Store on the dumped catalog (op storefile,
// accepted iff the REAL Load of the model's bytes gives the same dump).

type nsDump struct {
	DB   string            `json:"db"`
	Coll string            `json:"coll"`
	Docs []json.RawMessage `json:"docs"`
	Idx  []idxDump         `json:"idx"`
}

type idxDump struct {
	Name    string          `json:"name"`
	Key     json.RawMessage `json:"key"`
	Unique  bool            `json:"unique"`
	Partial json.RawMessage `json:"partial"`
	Expiry  int64           `json:"expiry"`
}

func sortDump(d []nsDump) {
	sort.Slice(d, func(i, j int) bool {
		if d[i].DB != d[j].DB {
			return d[i].DB < d[j].DB
		}
		return d[i].Coll < d[j].Coll
	})
	for k := range d {
		idx := d[k].Idx
		sort.Slice(idx, func(i, j int) bool { return idx[i].Name < idx[j].Name })
	}
}

// dumpCatalog renders the persisted observables; nonstd reports a value outside lungo's standard types.
func dumpCatalog(c *lungo.Catalog) (out []nsDump, nonstd string) {
	defer func() {
		if p := recover(); p != nil {
			nonstd = fmt.Sprint(p)
		}
	}()
	for h, coll := range c.Namespaces {
		n := nsDump{DB: h[0], Coll: h[1], Docs: []json.RawMessage{}, Idx: []idxDump{}}
		for _, d := range coll.Documents.List {
			n.Docs = append(n.Docs, json.RawMessage(vj.Enc(*d)))
		}
		for name, ix := range coll.Indexes {
			cfg := ix.Config()
			e := idxDump{Name: name, Key: json.RawMessage(vj.Enc(*cfg.Key)), Unique: cfg.Unique, Expiry: int64(cfg.Expiry), Partial: json.RawMessage("null")}
			if cfg.Partial != nil {
				e.Partial = json.RawMessage(vj.Enc(*cfg.Partial))
			}
			n.Idx = append(n.Idx, e)
		}
		out = append(out, n)
	}
	sortDump(out)
	return out, ""
}

func dumpJSON(d []nsDump) string {
	b, _ := json.Marshal(d)
	return string(b)
}

// normJSON re-marshals a JSON text (canonical key order and escaping).
func normJSON(s string) (string, bool) {
	var v interface{}
	dec := json.NewDecoder(strings.NewReader(s))
	dec.UseNumber()
	if dec.Decode(&v) != nil {
		return "", false
	}
	b, _ := json.Marshal(v)
	return string(b), true
}

var reloadDBs = []string{"d1", "d1", "d2", "a"}
var reloadColls = []string{"c", "c", "e", "c.d", "b.c"}

const dottedDB = "a.b" // with collection "c" collides with ("a", "b.c")

type reloadRun struct {
	r      *gen.R
	client lungo.IClient
	tags   map[string]bool
	dotted bool
	nOps   int
	nErr   int
	// resumeShort: a resumed change stream delivered another number of events than the log holds behind the token
	resumeShort string
}

func (x *reloadRun) call(f func() error) {
	defer func() {
		if p := recover(); p != nil {
			x.tags["api_panic"] = true
		}
	}()
	x.nOps++
	if err := f(); err != nil {
		x.nErr++
	}
}

func (x *reloadRun) coll() lungo.ICollection {
	r := x.r
	db := reloadDBs[r.N(len(reloadDBs))]
	if x.dotted && r.P(40) {
		db = dottedDB
	}
	return x.client.Database(db).Collection(reloadColls[r.N(len(reloadColls))])
}

func (x *reloadRun) doc() bson.D {
	r := x.r
	d := bson.D{{Key: "_id", Value: r.ID()}}
	if r.P(10) {
		d = bson.D{} // the engine adds an ObjectID
	}
	n := r.N(4)
	for i := 0; i < n; i++ {
		k := gen.Keys[r.N(len(gen.Keys))]
		dup := false
		for _, e := range d {
			if e.Key == k {
				dup = true
			}
		}
		if dup {
			continue
		}
		var v interface{}
		switch {
		case r.P(30):
			v = codecSpecial(r)
		case r.P(30):
			v = r.SmallNumber()
		default:
			v = codecValue(r, 2)
		}
		d = append(d, bson.E{Key: k, Value: v})
	}
	if len(d) > 1 && d[0].Key == "_id" && r.P(30) {
		// a caller-chosen _id in the middle or at the end: the stored field order is the caller's
		id := d[0]
		at := 2 + r.N(len(d)-1) // 2 … len(d): behind at least one other field
		nd := append(bson.D{}, d[1:at]...)
		nd = append(nd, id)
		nd = append(nd, d[at:]...)
		d = nd
		x.tags["id_not_first"] = true
	}
	return d
}

func (x *reloadRun) filter() bson.D {
	r := x.r
	switch r.N(4) {
	case 0:
		return bson.D{}
	case 1:
		return bson.D{{Key: "_id", Value: r.ID()}}
	case 2:
		return bson.D{{Key: gen.Keys[r.N(len(gen.Keys))], Value: r.SmallNumber()}}
	default:
		return bson.D{{Key: gen.Keys[r.N(len(gen.Keys))], Value: bson.D{{Key: "$exists", Value: r.P(50)}}}}
	}
}

func (x *reloadRun) update() bson.D {
	r := x.r
	k := gen.Keys[r.N(len(gen.Keys))]
	switch r.N(12) {
	case 6:
		return bson.D{{Key: "$mul", Value: bson.D{{Key: k, Value: r.SmallNumber()}}}}
	case 7:
		return bson.D{{Key: []string{"$min", "$max"}[r.N(2)], Value: bson.D{{Key: k, Value: r.Scalar()}}}}
	case 8:
		return bson.D{{Key: "$addToSet", Value: bson.D{{Key: k, Value: r.Scalar()}}}}
	case 9:
		return bson.D{{Key: "$pop", Value: bson.D{{Key: k, Value: int32(1 - 2*r.N(2))}}}}
	case 10:
		return bson.D{{Key: "$rename", Value: bson.D{{Key: k, Value: gen.Keys[r.N(len(gen.Keys))] + "2"}}}}
	case 11:
		return bson.D{{Key: "$setOnInsert", Value: bson.D{{Key: k, Value: codecSpecial(r)}}}, {Key: "$inc", Value: bson.D{{Key: "n", Value: int64(1)}}}}
	case 0:
		return bson.D{{Key: "$set", Value: bson.D{{Key: k, Value: codecValue(r, 2)}}}}
	case 1:
		return bson.D{{Key: "$inc", Value: bson.D{{Key: k, Value: r.SmallNumber()}}}}
	case 2:
		return bson.D{{Key: "$unset", Value: bson.D{{Key: k, Value: ""}}}}
	case 3:
		return bson.D{{Key: "$push", Value: bson.D{{Key: k, Value: r.Scalar()}}}}
	case 4:
		return bson.D{{Key: "$set", Value: bson.D{{Key: k + ".n", Value: codecSpecial(r)}}}}
	default:
		return bson.D{{Key: "$currentDate", Value: bson.D{{Key: k, Value: bson.D{{Key: "$type", Value: []string{"date", "timestamp"}[r.N(2)]}}}}}}
	}
}

func (x *reloadRun) index() mongo.IndexModel {
	r := x.r
	keys := bson.D{{Key: gen.Keys[r.N(len(gen.Keys))], Value: int32(1 - 2*r.N(2))}}
	if r.P(30) {
		k2 := gen.Keys[r.N(len(gen.Keys))]
		if k2 != keys[0].Key {
			keys = append(keys, bson.E{Key: k2, Value: int32(1 - 2*r.N(2))})
			x.tags["idx_compound"] = true
		}
	}
	if r.P(10) {
		keys[0].Key += ".n"
	}
	o := options.Index()
	dirTyped := func(ks bson.D) {
		// directions as int64 / double: the stored and listed specification keeps the caller's types
		if r.P(40) {
			for i := range ks {
				if d, ok := ks[i].Value.(int32); ok {
					ks[i].Value = []interface{}{int64(d), float64(d), d}[r.N(3)]
					x.tags["idx_dir_typed"] = true
				}
			}
		}
	}

	if r.P(40) {
		o.SetUnique(true)
		x.tags["idx_unique"] = true
	}
	switch r.N(6) {
	case 0:
		o.SetPartialFilterExpression(bson.D{})
		x.tags["idx_partial_empty"] = true
	case 1:
		o.SetPartialFilterExpression(bson.D{{Key: gen.Keys[r.N(len(gen.Keys))], Value: bson.D{{Key: "$gt", Value: r.SmallNumber()}}}})
		x.tags["idx_partial"] = true
	case 2:
		o.SetPartialFilterExpression(bson.D{{Key: gen.Keys[r.N(len(gen.Keys))], Value: bson.D{{Key: "$exists", Value: true}}}})
		x.tags["idx_partial"] = true
	}
	if r.P(25) && len(keys) == 1 {
		s := []int32{0, 1, 3600, 2147483647, 2147484, 2592000, 5184000, 1 << 29, 1 << 30}[r.N(9)]
		o.SetExpireAfterSeconds(s)
		x.tags[fmt.Sprintf("idx_ttl_%d", s)] = true
	}
	if r.P(35) {
		o.SetName([]string{"custom", "n.a.m.e", "é", "_id_x", "x_1"}[r.N(5)])
		x.tags["idx_named"] = true
	}
	if r.P(22) {
		// option combinations: unique + TTL, unique + partial, TTL + partial, custom name + descending compound
		o = options.Index()
		f := gen.Keys[r.N(len(gen.Keys))]
		keys = bson.D{{Key: f, Value: int32(1 - 2*r.N(2))}}
		part := bson.D{{Key: gen.Keys[r.N(len(gen.Keys))], Value: bson.D{{Key: []string{"$gt", "$exists", "$lte"}[r.N(3)], Value: int32(1)}}}}
		ttl := []int32{0, 3600, 2592000, 2147483647}[r.N(4)]
		switch r.N(5) {
		case 0:
			o.SetUnique(true).SetExpireAfterSeconds(ttl)
			x.tags["idx_combo_unique_ttl"] = true
		case 1:
			o.SetUnique(true).SetPartialFilterExpression(part)
			x.tags["idx_combo_unique_partial"] = true
		case 2:
			o.SetExpireAfterSeconds(ttl).SetPartialFilterExpression(part)
			x.tags["idx_combo_ttl_partial"] = true
		case 3:
			o.SetUnique(true).SetExpireAfterSeconds(ttl).SetPartialFilterExpression(part).SetName("all")
			x.tags["idx_combo_all"] = true
		default:
			keys = bson.D{{Key: f, Value: int32(-1)}, {Key: f + "2", Value: int32(-1)}, {Key: "_id", Value: int32(-1)}}
			o.SetName([]string{"desc", "d.e.s.c"}[r.N(2)]).SetUnique(r.P(50))
			x.tags["idx_combo_named_desc_compound"] = true
		}
	}
	dirTyped(keys)
	return mongo.IndexModel{Keys: keys, Options: o}
}

// tail: shapes at the END of a history — a collection that is empty at the last commit but carries
// secondary indexes (created empty, or emptied by DeleteMany({})).
func (x *reloadRun) tail() {
	r := x.r
	ctx := context.Background()
	if r.P(40) {
		c := x.client.Database("d1").Collection([]string{"fresh", "fresh.c"}[r.N(2)])
		x.tags["empty_created_with_indexes"] = true
		x.call(func() error { return c.Database().CreateCollection(ctx, c.Name()) })
		for i := 1 + r.N(3); i > 0; i-- {
			m := x.index()
			x.call(func() error { _, err := c.Indexes().CreateOne(ctx, m); return err })
		}
	}
	if r.P(45) {
		// empty the collection that has the most secondary indexes
		x.tags["emptied_with_indexes"] = true
		c := x.coll()
		x.call(func() error { _, err := c.InsertOne(ctx, x.doc()); return err })
		for i := 1 + r.N(2); i > 0; i-- {
			m := x.index()
			x.call(func() error { _, err := c.Indexes().CreateOne(ctx, m); return err })
		}
		x.call(func() error { _, err := c.DeleteMany(ctx, bson.D{}); return err })
	}
}

func (x *reloadRun) step() {
	r := x.r
	ctx := context.Background()
	c := x.coll()
	switch r.N(20) {
	case 0, 1, 2, 3, 4, 5:
		x.call(func() error { _, err := c.InsertOne(ctx, x.doc()); return err })
	case 6:
		docs := []interface{}{}
		for i := 0; i < 1+r.N(4); i++ {
			docs = append(docs, x.doc())
		}
		x.call(func() error { _, err := c.InsertMany(ctx, docs); return err })
	case 7, 8:
		x.call(func() error { _, err := c.UpdateOne(ctx, x.filter(), x.update()); return err })
	case 9:
		x.call(func() error { _, err := c.UpdateMany(ctx, x.filter(), x.update()); return err })
	case 10:
		f := x.filter()
		if r.P(45) {
			// the filter names _id after other fields: the upserted document keeps that order
			f = bson.D{{Key: gen.Keys[r.N(len(gen.Keys))], Value: r.SmallNumber()}, {Key: "q", Value: "s"}, {Key: "_id", Value: r.ID()}}
			x.tags["upsert_id_last_in_filter"] = true
		}
		x.call(func() error {
			_, err := c.UpdateOne(ctx, f, x.update(), options.Update().SetUpsert(true))
			return err
		})
	case 11:
		d := x.doc()
		if len(d) == 0 || d[0].Key != "_id" {
			d = append(bson.D{{Key: "_id", Value: r.ID()}}, d...)
			for i := 1; i < len(d); i++ {
				if d[i].Key == "_id" {
					d = append(d[:i], d[i+1:]...)
					break
				}
			}
		}
		x.call(func() error { _, err := c.ReplaceOne(ctx, bson.D{{Key: "_id", Value: d[0].Value}}, d[1:]); return err })
	case 12:
		x.call(func() error { _, err := c.DeleteOne(ctx, x.filter()); return err })
	case 13:
		x.call(func() error { _, err := c.DeleteMany(ctx, x.filter()); return err })
	case 14, 15, 16:
		m := x.index()
		x.tags["create_index"] = true
		x.call(func() error { _, err := c.Indexes().CreateOne(ctx, m); return err })
	case 17:
		x.tags["create_collection"] = true
		x.call(func() error { return c.Database().CreateCollection(ctx, c.Name()) })
	case 18:
		switch k := r.N(100); {
		case k < 35:
			x.call(func() error { return c.Drop(ctx) })
		case k < 60:
			x.tags["drop_all_indexes"] = true
			x.call(func() error { _, err := c.Indexes().DropAll(ctx); return err })
		case k < 75:
			// the _id index is never dropped, by name …
			x.tags["drop_id_index"] = true
			x.call(func() error { _, err := c.Indexes().DropOne(ctx, "_id_"); return err })
		default:
			// … or by a key specification equal to / starting with {_id: 1}
			x.tags["drop_id_index_by_key"] = true
			key := []bson.D{{{Key: "_id", Value: int32(1)}}, {{Key: "_id", Value: float64(1)}}, {{Key: "_id", Value: int64(1)}}, {{Key: "_id", Value: int32(-1)}},
				{{Key: "_id", Value: int32(1)}, {Key: "a", Value: int32(1)}}, {{Key: "a", Value: int32(-1)}, {Key: "a2", Value: int32(-1)}, {Key: "_id", Value: int32(-1)}}}[r.N(6)]
			x.call(func() error { _, err := c.Indexes().DropOneWithKey(ctx, key); return err })
		}
	default:
		if r.P(15) {
			x.call(func() error { return c.Database().Drop(ctx) })
		} else {
			x.call(func() error { _, err := c.DeleteMany(ctx, bson.D{}); return err })
		}
	}
}

// bulk: n small documents in one InsertMany and one UpdateMany over them (2n change events).
func (x *reloadRun) bulk(n int) {
	ctx := context.Background()
	c := x.client.Database("d1").Collection("big")
	docs := make([]interface{}, 0, n)
	for i := 0; i < n; i++ {
		docs = append(docs, bson.D{{Key: "_id", Value: int32(i)}, {Key: "n", Value: int32(i % 7)}})
	}
	x.call(func() error { _, err := c.InsertMany(ctx, docs); return err })
	x.call(func() error {
		_, err := c.UpdateMany(ctx, bson.D{}, bson.D{{Key: "$inc", Value: bson.D{{Key: "n", Value: int32(1)}}}, {Key: "$push", Value: bson.D{{Key: "l", Value: "x"}}}})
		return err
	})
	x.call(func() error { _, err := c.DeleteMany(ctx, bson.D{{Key: "n", Value: int32(3)}}); return err })
}

// resumeFrom opens a client-wide change stream resumed after an old event of the log (the second
// one, or one in the first tenth of a long log) and drains it without blocking. Returns the
// delivered events and the position of the token (-1: log too short / watch refused).
func (x *reloadRun) resumeFrom(cat *lungo.Catalog) (events string, at int) {
	defer func() {
		if p := recover(); p != nil {
			events, at = "panic: "+fmt.Sprint(p), 0
		}
	}()
	ns := cat.Namespaces[lungo.Oplog]
	if ns == nil || len(ns.Documents.List) < 3 {
		return "", -1
	}
	log := ns.Documents.List
	at = 1
	if len(log) > 50 {
		at = len(log) / 10
	}
	token, ok := bsonkit.Get(log[at], "_id").(bson.D)
	if !ok {
		return "", -1
	}
	ctx := context.Background()
	cs, err := x.client.Watch(ctx, mongo.Pipeline{}, options.ChangeStream().SetResumeAfter(token))
	if err != nil {
		return "watch error: " + err.Error(), at
	}
	defer cs.Close(ctx)
	var sb strings.Builder
	n := 0
	for cs.TryNext(ctx) {
		var ev bson.D
		if err := cs.Decode(&ev); err != nil {
			sb.WriteString("<decode error>")
			break
		}
		sb.WriteString(vj.Enc(ev))
		n++
		if n > 5000 {
			break
		}
	}
	if err := cs.Err(); err != nil {
		sb.WriteString(" err: " + err.Error())
	}
	want := len(log) - at - 1
	if n != want {
		x.resumeShort = fmt.Sprintf("%d events delivered, %d are behind the token (event %d of %d)", n, want, at, len(log))
	}
	return fmt.Sprintf("%d delivered, %d behind the token: %s", n, want, sb.String()), at
}

// listings: ListIndexes of every user namespace through the driver (type-sensitive encoding).
func (x *reloadRun) listings(cat *lungo.Catalog) (out string) {
	defer func() {
		if p := recover(); p != nil {
			out += "panic"
		}
	}()
	var sb strings.Builder
	for _, h := range sortedHandles(cat) {
		if h == lungo.Oplog || strings.Contains(h[0], ".") {
			continue
		}
		sb.WriteString(h.String() + ":")
		csr, err := x.client.Database(h[0]).Collection(h[1]).Indexes().List(context.Background())
		if err != nil {
			sb.WriteString("err;")
			continue
		}
		var specs []bson.D
		if err := csr.All(context.Background(), &specs); err != nil {
			sb.WriteString("decode-err;")
			continue
		}
		for _, sp := range specs {
			sb.WriteString(vj.Enc(sp))
		}
		sb.WriteString(";")
	}
	return sb.String()
}

// runPairProbe inserts two fresh documents with equal values in every indexed field, one after the
// other, into a clone of the collection (also an empty one): the answers show which unique
// constraints are in force.
func runPairProbe(c *lungo.Catalog, h lungo.Handle) (res string) {
	defer func() {
		if e := recover(); e != nil {
			res = "panic"
		}
	}()
	coll := c.Namespaces[h]
	if coll == nil {
		return "no-namespace"
	}
	clone := coll.Clone()
	mk := func(id string) bsonkit.Doc {
		d := bson.D{{Key: "_id", Value: id}}
		for _, f := range []string{"a", "b", "c", "x", "a2", "b2", "c2", "x2"} {
			d = append(d, bson.E{Key: f, Value: bson.D{{Key: "n", Value: int32(424242)}}})
		}
		return &d
	}
	for _, id := range []string{"pairA", "pairB"} {
		_, err := clone.Insert(mk(id))
		switch {
		case err == nil:
			res += "accepted,"
		case lungo.IsUniquenessError(err):
			res += "duplicate,"
		default:
			res += "error,"
		}
	}
	return res
}

type probe struct {
	h   lungo.Handle
	doc bson.D
}

// probes: for every document a copy under a fresh _id (must hit every unique non-_id index
// covering it) and a bare copy of its _id (must hit _id_).
func makeProbes(c *lungo.Catalog) []probe {
	var ps []probe
	hs := make([]lungo.Handle, 0, len(c.Namespaces))
	for h := range c.Namespaces {
		hs = append(hs, h)
	}
	sort.Slice(hs, func(i, j int) bool { return hs[i].String() < hs[j].String() })
	for _, h := range hs {
		if h == lungo.Oplog {
			continue
		}
		for i, d := range c.Namespaces[h].Documents.List {
			if i >= 6 {
				break
			}
			cp := bson.D{{Key: "_id", Value: primitive.ObjectID{0xff, byte(i), 1, 2, 3, 4, 5, 6, 7, 8, 9, 10}}}
			for _, e := range *d {
				if e.Key != "_id" {
					cp = append(cp, e)
				}
			}
			ps = append(ps, probe{h, cp}, probe{h, bson.D{{Key: "_id", Value: bsonkit.Get(d, "_id")}}})
		}
		ps = append(ps, probe{h, bson.D{{Key: "_id", Value: "fresh"}}})
	}
	return ps
}

// runProbe inserts into a clone of the collection (the catalog is not modified).
func runProbe(c *lungo.Catalog, p probe) (res string) {
	defer func() {
		if e := recover(); e != nil {
			res = "panic"
		}
	}()
	coll := c.Namespaces[p.h]
	if coll == nil {
		return "no-namespace"
	}
	d, err := bsonkit.Transform(p.doc)
	if err != nil {
		return "transform-error"
	}
	_, err = coll.Clone().Insert(d)
	switch {
	case err == nil:
		return "accepted"
	case lungo.IsUniquenessError(err):
		return "duplicate"
	default:
		return "error"
	}
}

func hasDotted(c *lungo.Catalog) bool {
	for h := range c.Namespaces {
		if strings.Contains(h[0], ".") {
			return true
		}
	}
	return false
}

func reloadCase(r *gen.R) []run.Case {
	return reloadExec(r, r.P(12), nil)
}

// reloadExec runs a random history (script == nil) or a fixed script.
func reloadExec(r *gen.R, useDotted bool, script func(x *reloadRun)) []run.Case {
	x := &reloadRun{r: r, tags: map[string]bool{}, dotted: useDotted}
	viol := func(what, witness, detail string) run.Violation {
		return run.Violation{Property: "C06", What: what, Witness: witness, Detail: detail}
	}
	dir, err := os.MkdirTemp("", "lungo-reload-")
	if err != nil {
		return []run.Case{{Impl: `{"harness":"mkdirtemp"}`, Viols: []run.Violation{viol("cannot create temp dir", "harness-error", err.Error())}}}
	}
	defer os.RemoveAll(dir)
	path := filepath.Join(dir, "db.bson")
	open := func() (lungo.IClient, *lungo.Engine, error) {
		return lungo.Open(nil, lungo.Options{Store: lungo.NewFileStore(path, 0666), ExpireInterval: time.Hour})
	}
	client, engine, err := open()
	if err != nil {
		return []run.Case{{Impl: `{"harness":"open"}`, Viols: []run.Violation{viol("cannot open fresh store", "open-error", err.Error())}}}
	}
	x.client = client
	if script != nil {
		x.tags["corpus"] = true
		script(x)
	} else {
		steps := 4 + r.N(24)
		big := r.N(100) // 6 %: more than 100 change events, 1.5 %: more than 1000
		for i := 0; i < steps; i++ {
			x.step()
			if i == steps/2 && big < 8 {
				n := 120
				if big < 2 {
					n = 520
					x.tags["oplog_over_1000"] = true
				}
				x.tags["oplog_over_100"] = true
				x.bulk(n)
			}
		}
		x.tail()
	}
	before := engine.Catalog()
	listBefore := x.listings(before)
	resumeBefore, resumeAt := x.resumeFrom(before)
	engine.Close()

	var tags []string
	for t := range x.tags {
		tags = append(tags, t)
	}
	dotted := hasDotted(before)
	if dotted {
		tags = append(tags, "dotted_db_name")
	}
	d1, nonstd := dumpCatalog(before)
	var viols []run.Violation
	if nonstd != "" {
		viols = append(viols, viol("catalog holds a non-standard value", "nonstandard-type", nonstd))
		return []run.Case{{Impl: `{"harness":"nonstd"}`, Viols: viols, Tags: tags}}
	}
	nDocs, nIdx, nEmpty, nIdxOnly := 0, 0, 0, 0
	for _, n := range d1 {
		if n.DB == "local" {
			if len(n.Docs) > 0 {
				tags = append(tags, "oplog_nonempty")
			}
			continue
		}
		nDocs += len(n.Docs)
		nIdx += len(n.Idx)
		if len(n.Docs) == 0 {
			nEmpty++
			if len(n.Idx) > 1 {
				nIdxOnly++
			}
		}
	}
	if nEmpty > 0 {
		tags = append(tags, "empty_collection")
	}
	if nIdxOnly > 0 {
		tags = append(tags, "index_only_collection")
	}
	j1 := dumpJSON(d1)
	req := fmt.Sprintf(`{"seedcase":%q}`, j1)
	if len(req) > 600 {
		req = req[:600] + "…"
	}

	// the bytes the real Store wrote (absent iff nothing was ever committed)
	fileBytes, ferr := os.ReadFile(path)

	// reopen
	client2, engine2, err := open()
	if err != nil {
		w := "load-error"
		if dotted {
			w = "dotted-db-name:load-error"
		}
		v := viol("reopening the store fails", w, err.Error())
		v.Req = req
		return []run.Case{{Impl: `{"err":"load"}`, Viols: []run.Violation{v}, Tags: tags, Nontrivial: true}}
	}
	after := engine2.Catalog()
	d2, nonstd2 := dumpCatalog(after)
	if nonstd2 != "" {
		viols = append(viols, viol("reloaded catalog holds a non-standard value", "nonstandard-type-after", nonstd2))
	}
	j2 := dumpJSON(d2)

	// monitor 1: identical dumps
	if j1 != j2 {
		w, what := "dump-differs", "reloaded catalog differs"
		switch {
		case len(d1) != len(d2) || !sameHandles(d1, d2):
			w, what = "handles-differ", "set of namespaces differs after reload"
			if dotted {
				w = "dotted-db-name"
				what = "database name containing '.' reloads under a different handle"
				if len(d2) < len(d1) {
					w = "dotted-db-name:collision"
					what = "two namespaces share one persisted name; one is lost on reload"
				}
			}
		default:
			for i := range d1 {
				a, b := d1[i], d2[i]
				if !reflect.DeepEqual(a.Docs, b.Docs) {
					w, what = "documents-differ", "documents differ after reload in "+a.DB+"."+a.Coll
					if a.DB == "local" {
						w = "oplog-differs"
					}
					break
				}
				if !reflect.DeepEqual(a.Idx, b.Idx) {
					w, what = "indexes-differ", "index definitions differ after reload in "+a.DB+"."+a.Coll
					break
				}
			}
		}
		v := viol(what, w, "before="+clip(j1, 400)+" after="+clip(j2, 400))
		v.Req = req
		viols = append(viols, v)
	}

	// monitor 2: duplicate probes answer the same before and after
	if j1 == j2 {
		for _, p := range makeProbes(before) {
			a, b := runProbe(before, p), runProbe(after, p)
			if a != b {
				v := viol("a probe insert is "+a+" before and "+b+" after reload", "unique-probe-differs:"+a+"->"+b, p.h.String()+" "+vj.Enc(p.doc))
				v.Req = req
				viols = append(viols, v)
				break
			}
			if a == "duplicate" {
				tags = append(tags, "probe_duplicate")
			}
		}
	}
	// monitor 2a: constraints of (possibly empty) collections: two fresh documents with equal keys, one
	// after the other, are answered the same before and after
	if j1 == j2 {
		for _, h := range sortedHandles(before) {
			if h == lungo.Oplog || after.Namespaces[h] == nil {
				continue
			}
			if a, b := runPairProbe(before, h), runPairProbe(after, h); a != b {
				v := viol("two colliding probe inserts are answered "+a+" before and "+b+" after reload", "unique-probe-differs:pair", h.String())
				v.Req = req
				viols = append(viols, v)
				break
			}
		}
	}
	// monitor 2c: the LISTED index specifications (driver, type-sensitive) are identical
	x.client = client2
	if listAfter := x.listings(after); listAfter != listBefore {
		v := viol("ListIndexes reports other specifications after the reload", "listing-differs", "before "+clip(listBefore, 500)+"\nafter  "+clip(listAfter, 500))
		v.Req = req
		viols = append(viols, v)
	}

	// monitor 2b: a change stream resumed after an OLD event of the log delivers the same events before
	// the close and after the reload (and as many as the log holds behind the token)
	if resumeAt >= 0 {
		x.client = client2
		resumeAfter, _ := x.resumeFrom(after)
		tags = append(tags, "resume_checked")
		if x.resumeShort != "" {
			v := viol("a resumed change stream does not deliver every event behind its token", "resume-incomplete", x.resumeShort)
			v.Req = req
			viols = append(viols, v)
		}
		if resumeAfter != resumeBefore {
			v := viol("a change stream resumed after the same old event delivers other events after the reload", "resume-differs",
				fmt.Sprintf("token of event %d; before %s\nafter %s", resumeAt, clip(resumeBefore, 500), clip(resumeAfter, 500)))
			v.Req = req
			viols = append(viols, v)
		}
	}

	// monitor 3 (C15): every index of the catalog before Close and of the reloaded one holds exactly the
	// documents of its collection within its partial filter, in key order (api_index.go)
	for _, side := range []struct {
		name string
		cat  *lungo.Catalog
	}{{"before close", before}, {"after reload", after}} {
		func() {
			defer func() {
				if p := recover(); p != nil {
					viols = append(viols, run.Violation{Property: "C20", What: "monitor index panicked on the implementation's state", Witness: "monitor-panic:index", Req: req, Detail: fmt.Sprint(p)})
				}
			}()
			for _, h := range sortedHandles(side.cat) {
				issues := indexIssues(side.cat.Namespaces[h])
				if is, bad := idIndexIssue(h, side.cat.Namespaces[h]); bad {
					issues = append(issues, is)
				}
				for _, is := range issues {
					viols = append(viols, run.Violation{Property: "C15", What: "an index does not hold exactly the documents of its collection (within its partial filter) in key order",
						Witness: "index-incoherent:" + is.reason, Req: req, Detail: clip(h.String()+" "+side.name+": "+is.detail, 700)})
				}
			}
		}()
	}
	// monitor 4: save → load → ONE MORE WRITE → save → load is a fixpoint: the write leaves every other
	// namespace as it was, and the third catalog equals the second one plus the write
	func() {
		defer func() {
			if p := recover(); p != nil {
				tags = append(tags, "fixpoint_panic")
			}
		}()
		if dotted || j1 != j2 {
			return
		}
		ctx := context.Background()
		target := lungo.Handle{"d1", "fixpoint"}
		hs := sortedHandles(after)
		if len(hs) > 1 && r.P(60) {
			for _, h := range hs {
				if h != lungo.Oplog {
					target = h
				}
			}
		}
		doc := bson.D{{Key: "w", Value: int32(1)}, {Key: "_id", Value: "fixpoint"}, {Key: "z", Value: bson.A{int32(1), bson.D{{Key: "k", Value: "v"}}}}}
		_, werr := client2.Database(target[0]).Collection(target[1]).InsertOne(ctx, doc)
		mid := engine2.Catalog()
		d3, _ := dumpCatalog(mid)
		engine2.Close()
		tags = append(tags, "fixpoint_checked")
		byNS := func(d []nsDump) map[string]string {
			m := map[string]string{}
			for _, n := range d {
				m[n.DB+"\x00"+n.Coll] = dumpJSON([]nsDump{n})
			}
			return m
		}
		m2, m3 := byNS(d2), byNS(d3)
		for k, v := range m2 {
			if k == "local\x00oplog" || k == target[0]+"\x00"+target[1] {
				continue
			}
			if m3[k] != v {
				vv := viol("a write after the reload changed a namespace it does not touch", "fixpoint:other-namespace-changed", strings.ReplaceAll(k, "\x00", ".")+" (write error: "+fmt.Sprint(werr)+")")
				vv.Req = req
				viols = append(viols, vv)
				break
			}
		}
		_, engine3, err := open()
		if err != nil {
			vv := viol("the store cannot be opened after a write that followed a reload", "fixpoint:load-error", err.Error())
			vv.Req = req
			viols = append(viols, vv)
			return
		}
		d4, _ := dumpCatalog(engine3.Catalog())
		if dumpJSON(d4) != dumpJSON(d3) {
			w := "fixpoint:second-reload-differs"
			detail := ""
			m4 := byNS(d4)
			for k, v := range m3 {
				if m4[k] != v {
					detail = strings.ReplaceAll(k, "\x00", ".") + ": " + clip(v, 300) + " became " + clip(m4[k], 300)
					break
				}
			}
			vv := viol("the catalog after load, write, save, load differs from the one after load, write", w, detail)
			vv.Req = req
			viols = append(viols, vv)
		}
		for _, h := range sortedHandles(engine3.Catalog()) {
			issues := indexIssues(engine3.Catalog().Namespaces[h])
			if is, bad := idIndexIssue(h, engine3.Catalog().Namespaces[h]); bad {
				issues = append(issues, is)
			}
			for _, is := range issues {
				viols = append(viols, run.Violation{Property: "C15", What: "an index does not hold exactly the documents of its collection (within its partial filter) in key order",
					Witness: "index-incoherent:" + is.reason, Req: req, Detail: clip(h.String()+" after the second reload: "+is.detail, 700)})
			}
		}
		engine3.Close()
	}()
	engine2.Close()

	nontrivial := nDocs > 0 || nIdx > 1
	cases := []run.Case{}

	// model 1: FileStore.Load on the real bytes must give the real reloaded catalog
	if ferr == nil {
		want := j2
		c := run.Case{Req: `{"op":"loadfile","hex":"` + hex.EncodeToString(fileBytes) + `"}`, Impl: `{"ok":` + want + `}`, Nontrivial: nontrivial, Tags: tags}
		c.Accept = func(m string) bool {
			var rep struct {
				Ok []nsDump `json:"ok"`
			}
			if json.Unmarshal([]byte(m), &rep) != nil || rep.Ok == nil {
				return false
			}
			sortDump(rep.Ok)
			a, ok1 := normJSON(dumpJSON(rep.Ok))
			b, ok2 := normJSON(want)
			return ok1 && ok2 && a == b
		}
		c.Viols = viols
		cases = append(cases, c)
	} else {
		cases = append(cases, run.Case{Impl: `{"nofile":true}`, Tags: append(tags, "nothing_committed"), Viols: viols})
	}

	// model 2: the model's Store bytes, loaded by the REAL Load, must give the catalog before Close
	// (only when the real round trip itself is the identity, i.e. outside the known defect)
	if j1 == j2 {
		want := j1
		c := run.Case{Req: `{"op":"storefile","cat":` + j1 + `}`, Impl: `{"ok":"<bytes that load as the same catalog>"}`, Nontrivial: nontrivial, Tags: []string{"storefile"}}
		c.Accept = func(m string) bool {
			var rep struct {
				Ok string `json:"ok"`
			}
			if json.Unmarshal([]byte(m), &rep) != nil || rep.Ok == "" {
				return false
			}
			buf, err := hex.DecodeString(rep.Ok)
			if err != nil {
				return false
			}
			var f lungo.File
			if bson.Unmarshal(buf, &f) != nil {
				return false
			}
			cat, err := f.BuildCatalog()
			if err != nil {
				return false
			}
			d, ns := dumpCatalog(cat)
			return ns == "" && dumpJSON(d) == want
		}
		cases = append(cases, c)
	}
	return cases
}

func sameHandles(a, b []nsDump) bool {
	if len(a) != len(b) {
		return false
	}
	for i := range a {
		if a[i].DB != b[i].DB || a[i].Coll != b[i].Coll {
			return false
		}
	}
	return true
}

func clip(s string, n int) string {
	if len(s) > n {
		return s[:n] + "…"
	}
	return s
}

var _ = mongokit.NewCollection

// reloadScripts are directed histories for the corner cases named in DESIGN §9 C06.
var reloadScripts = []func(x *reloadRun){
	// TTL index with expireAfterSeconds 0 (stored as Expiry 1ns) on a collection that only has indexes
	func(x *reloadRun) {
		c := x.client.Database("d1").Collection("ttl")
		x.call(func() error {
			_, err := c.Indexes().CreateOne(context.Background(), mongo.IndexModel{Keys: bson.D{{Key: "t", Value: int32(1)}}, Options: options.Index().SetExpireAfterSeconds(0)})
			return err
		})
	},
	// empty collection (created, no documents) next to an emptied one (all documents deleted)
	func(x *reloadRun) {
		ctx := context.Background()
		db := x.client.Database("d1")
		x.call(func() error { return db.CreateCollection(ctx, "never") })
		x.call(func() error {
			_, err := db.Collection("emptied").InsertOne(ctx, bson.D{{Key: "_id", Value: int32(1)}})
			return err
		})
		x.call(func() error { _, err := db.Collection("emptied").DeleteMany(ctx, bson.D{}); return err })
	},
	// nil vs empty vs non-empty partial filter, compound key, custom names, unique
	func(x *reloadRun) {
		ctx := context.Background()
		c := x.client.Database("d1").Collection("c")
		x.call(func() error {
			_, err := c.InsertOne(ctx, bson.D{{Key: "_id", Value: int32(1)}, {Key: "a", Value: int32(1)}, {Key: "b", Value: int32(2)}})
			return err
		})
		x.call(func() error {
			_, err := c.Indexes().CreateOne(ctx, mongo.IndexModel{Keys: bson.D{{Key: "a", Value: int32(1)}}, Options: options.Index().SetUnique(true)})
			return err
		})
		x.call(func() error {
			_, err := c.Indexes().CreateOne(ctx, mongo.IndexModel{Keys: bson.D{{Key: "b", Value: int32(-1)}}, Options: options.Index().SetUnique(true).SetPartialFilterExpression(bson.D{})})
			return err
		})
		x.call(func() error {
			_, err := c.Indexes().CreateOne(ctx, mongo.IndexModel{Keys: bson.D{{Key: "b", Value: int32(1)}, {Key: "a", Value: int32(-1)}}, Options: options.Index().SetName("n.a.m.e").SetPartialFilterExpression(bson.D{{Key: "a", Value: bson.D{{Key: "$gt", Value: int32(0)}}}})})
			return err
		})
	},
	// numeric type distinctions and special values inside documents
	func(x *reloadRun) {
		ctx := context.Background()
		c := x.client.Database("d2").Collection("nums")
		x.call(func() error {
			_, err := c.InsertOne(ctx, bson.D{{Key: "_id", Value: "n"}, {Key: "i", Value: int32(1)}, {Key: "l", Value: int64(1)}, {Key: "f", Value: float64(1)},
				{Key: "d", Value: gen.Decs[2]}, {Key: "nan", Value: math.Float64frombits(0x7ff8000000000001)}, {Key: "snan", Value: math.Float64frombits(0x7ff0000000000001)},
				{Key: "nz", Value: math.Copysign(0, -1)}, {Key: "big", Value: 1.7976931348623157e308}, {Key: "tiny", Value: 5e-324},
				{Key: "dnan", Value: primitive.NewDecimal128(0x7c00000000000001, 5)}, {Key: "arr", Value: bson.A{bson.A{}, bson.A{bson.A{}}, bson.D{}}},
				{Key: "b2", Value: primitive.Binary{Subtype: 2, Data: []byte{}}}, {Key: "b2x", Value: primitive.Binary{Subtype: 2, Data: []byte{7}}},
				{Key: "re", Value: primitive.Regex{Pattern: "a", Options: "xi"}}, {Key: "ts", Value: primitive.Timestamp{T: 4294967295, I: 4294967295}}, {Key: "nil", Value: nil}})
			return err
		})
		x.call(func() error {
			_, err := c.UpdateOne(ctx, bson.D{}, bson.D{{Key: "$inc", Value: bson.D{{Key: "i", Value: int32(1)}, {Key: "l", Value: int32(1)}, {Key: "f", Value: int32(1)}}}})
			return err
		})
	},
	// the change log after insert, update, replace, delete
	func(x *reloadRun) {
		ctx := context.Background()
		c := x.client.Database("d1").Collection("log")
		x.call(func() error {
			_, err := c.InsertOne(ctx, bson.D{{Key: "_id", Value: int32(1)}, {Key: "a", Value: bson.A{int32(1)}}})
			return err
		})
		x.call(func() error {
			_, err := c.UpdateOne(ctx, bson.D{}, bson.D{{Key: "$push", Value: bson.D{{Key: "a", Value: int64(2)}}}, {Key: "$unset", Value: bson.D{{Key: "zz", Value: ""}}}})
			return err
		})
		x.call(func() error { _, err := c.ReplaceOne(ctx, bson.D{}, bson.D{{Key: "b", Value: nil}}); return err })
		x.call(func() error { _, err := c.DeleteOne(ctx, bson.D{}); return err })
		x.call(func() error { return c.Drop(ctx) })
	},
	// KNOWN DEFECT: dotted database name
	func(x *reloadRun) {
		x.call(func() error {
			_, err := x.client.Database("a.b").Collection("c").InsertOne(context.Background(), bson.D{{Key: "_id", Value: int32(1)}})
			return err
		})
	},
	// KNOWN DEFECT, second face: ("a.b","c") and ("a","b.c") share the persisted name "a.b.c"
	func(x *reloadRun) {
		ctx := context.Background()
		x.call(func() error {
			_, err := x.client.Database("a.b").Collection("c").InsertOne(ctx, bson.D{{Key: "_id", Value: int32(1)}})
			return err
		})
		x.call(func() error {
			_, err := x.client.Database("a").Collection("b.c").InsertOne(ctx, bson.D{{Key: "_id", Value: int32(2)}})
			return err
		})
	},
	// names that cannot be persisted are refused at commit time (no state change)
	func(x *reloadRun) {
		ctx := context.Background()
		x.call(func() error {
			_, err := x.client.Database("d1").Collection("c").InsertOne(ctx, bson.D{{Key: "_id", Value: int32(1)}})
			return err
		})
		x.call(func() error {
			_, err := x.client.Database("d1").Collection("n\x00ul").InsertOne(ctx, bson.D{{Key: "_id", Value: int32(1)}})
			return err
		})
		x.call(func() error {
			_, err := x.client.Database("d1").Collection("c").Indexes().CreateOne(ctx, mongo.IndexModel{Keys: bson.D{{Key: "a", Value: int32(1)}}, Options: options.Index().SetName("i\x00")})
			return err
		})
		x.call(func() error {
			_, err := x.client.Database("d1").Collection("c").InsertOne(ctx, bson.D{{Key: "_id", Value: int32(2)}})
			return err
		})
	},
}

func init() {
	run.Register(&run.Stream{
		Name: "reload",
		Rule: "4-27 API calls (insert/update/upsert/replace/delete, CreateCollection, CreateOne with unique/partial(nil,{},filter)/expireAfterSeconds(0,1,3600,max)/compound/custom-name " +
			"combinations, drops) over databases {d1,d2,a} x collections {c,e,c.d,b.c} and, in 12% of the cases, the dotted database a.b, on a FileStore in a temp dir; Close; reopen; " +
			"option combinations (unique+TTL, unique+partial, TTL+partial, all, named descending compound), large expireAfterSeconds (30/60 days, 2^29, 2^30, 2147484), drops of the _id index by name and by key specification, " +
			"8% of the histories with more than 100 (2%: more than 1000) change events; " +
			"30% of the documents carry their _id behind other fields, 45% of the upserts name _id last in the filter, 40% of the index keys give their directions as int64 / double, " +
			"40-45% of the histories end with a collection that is empty but has secondary indexes (created empty / emptied by DeleteMany); every history is followed by load, one more write, save, load " +
			"(fixpoint: other namespaces untouched, third catalog = second + write); the ListIndexes output of every namespace is compared type-sensitively before close / after reload; " +
			"compare dumps of every namespace (documents in order, index definitions, local.oplog), duplicate probes, a change stream resumed after an old event before and after the reload, index coherence and _id_ presence on both sides; model: loadfile on the real bytes, storefile through the real Load; " +
			"non-trivial = the catalog holds a document or a secondary index",
		Gen: func(r *gen.R, idx int) []run.Case { return reloadCase(r) },
		Corpus: func() []run.Case {
			var cs []run.Case
			for i, sc := range reloadScripts {
				cs = append(cs, reloadExec(gen.New(0, 0, uint64(i)), false, sc)...)
			}
			return cs
		},
	})
}
