package streams

import (
	"encoding/json"
	"math"
	"os"
	"sort"
	"strconv"
	"strings"
	"sync"

	"go.mongodb.org/mongo-driver/bson"

	"github.com/256dpi/lungo"
	"github.com/256dpi/lungo/bsonkit"

	"verifharness/internal/gen"
	"verifharness/internal/run"
)

// Generators, registration and replay of stream "sess" (see sess.go).

// sessMaxBlocked bounds the calls per history that wait for the writer slot (sessWait each).
const sessMaxBlocked = 4

// sessMaxSnaps bounds the snapshots kept per history (each is re-read after every step).
const sessMaxSnaps = 7

// sessMaxEvents: beyond this oplog length only reads are generated (Transaction.Clean stays a
// no-op below MinOplogSize = 100 events, which is what the session model assumes).
const sessMaxEvents = 70

// SESS_PREVALIDATION=1 also generates calls that fail argument validation while another
// client holds the writer slot (known model deviation, see MODEL_BUGS.md #1).
var sessPreValidation = os.Getenv("SESS_PREVALIDATION") != ""

type sessGen struct {
	r  *gen.R
	m  *sessRunner
	uk string // the field of the unique secondary index the history started with ("" = none)
}

// prelude: a unique secondary index over collection c and a few documents with distinct keys,
// created by plain calls before anything else (40 % of the histories).
func (g *sessGen) prelude() []*sessStep {
	r := g.r
	if !r.P(40) {
		return nil
	}
	g.uk = []string{"a", "b"}[r.N(2)]
	n := 3 + r.N(2)
	var docs []bson.D
	for i := 1; i <= n; i++ {
		docs = append(docs, bson.D{{Key: "_id", Value: int32(i)}, {Key: g.uk, Value: int32(i)}})
	}
	steps := []*sessStep{
		{K: "call", Sid: -1, C: &sessCall{M: "createIndex", Coll: "c", Keys: bson.D{{Key: g.uk, Value: int32(1 - 2*r.N(2))}}, Unique: true}},
		{K: "call", Sid: -1, C: &sessCall{M: "insertMany", Coll: "c", Docs: docs, Ordered: true}},
	}
	if r.P(30) {
		steps[0], steps[1] = steps[1], steps[0] // the index is built over the existing documents
	}
	return steps
}

// lateProjection: a find-and-modify whose projection fails ONLY on the document it returns: the
// projected field is an $elemMatch with an unknown operator, which is evaluated only when the field
// is a non-empty array. The write itself (a $push / $set / replacement / upsert) creates that array
// (returned with ReturnDocument After), or the stored document already has it (Before, delete).
// The statement fails after its write was applied and must leave the transaction as it was.
func (g *sessGen) lateProjection(c *sessCall, docs bsonkit.List) {
	r := g.r
	f := g.key() + "z"
	c.Proj, c.HasProj = lateFailingProjection(f), true
	arr := bson.A{r.SmallNumber()}
	// a stored document that already holds the array (after an earlier statement of this kind succeeded
	// without projection, or was committed)
	var holder bsonkit.Doc
	for _, d := range docs {
		for _, e := range *d {
			if a, ok := e.Value.(bson.A); ok && len(a) > 0 && e.Key != "_id" {
				holder, f = d, e.Key
				c.Proj = lateFailingProjection(f)
			}
		}
	}
	idOf := func(d bsonkit.Doc) bson.D {
		if v, err := bsonkit.Transform(bson.D{{Key: "_id", Value: bsonkit.Get(d, "_id")}}); err == nil {
			return *v
		}
		return bson.D{}
	}
	c.Q = g.filter(docs)
	if len(docs) > 0 && r.P(60) {
		c.Q = idOf(docs[r.N(len(docs))])
	}
	n := r.N(100)
	if holder != nil && r.P(45) {
		n = 60 + r.N(15)
	}
	switch {
	case n < 35:
		c.M, c.After, c.Upsert = "findOneAndUpdate", r.P(75), r.P(45)
		if r.P(50) {
			c.U = bson.D{{Key: "$push", Value: bson.D{{Key: f, Value: r.SmallNumber()}}}}
		} else {
			c.U = bson.D{{Key: "$set", Value: bson.D{{Key: f, Value: arr}}}}
		}
	case n < 60:
		c.M, c.After, c.Upsert = "findOneAndReplace", r.P(75), r.P(45)
		c.Repl = bson.D{{Key: g.key(), Value: r.SmallNumber()}, {Key: f, Value: arr}}
	case n < 75 && holder != nil:
		// the pre-image already fails: Before, or delete
		c.Q = idOf(holder)
		if r.P(50) {
			c.M = "findOneAndDelete"
		} else {
			c.M, c.After = "findOneAndUpdate", false
			c.U = bson.D{{Key: "$inc", Value: bson.D{{Key: g.key(), Value: int32(1)}}}}
		}
	default:
		// the same write without the projection: succeeds and leaves the array behind
		c.Proj, c.HasProj = nil, false
		c.M, c.Upsert = "findOneAndUpdate", r.P(50)
		c.U = bson.D{{Key: "$push", Value: bson.D{{Key: f, Value: r.SmallNumber()}}}}
		c.After = r.P(50)
	}
	g.sortOpt(c, 20)
}

// colliding: a write on collection c around the unique key: multi-updates that produce a duplicate at
// the second or a later document (or shift all keys without one), replacements / single updates onto
// a taken key, batches with a duplicate behind a valid item, inserts of taken and free keys.
func (g *sessGen) colliding(c *sessCall, docs bsonkit.List) {
	r := g.r
	k := g.uk
	c.Coll = "c"
	num := func(n int) interface{} {
		switch r.N(5) {
		case 0:
			return int64(n)
		case 1:
			return float64(n)
		}
		return int32(n)
	}
	keyOf := func() interface{} {
		if len(docs) > 0 {
			if v := bsonkit.Get(docs[r.N(len(docs))], k); v != bsonkit.Missing {
				if d, err := bsonkit.Transform(bson.D{{Key: "v", Value: v}}); err == nil {
					return (*d)[0].Value
				}
			}
		}
		return num(1 + r.N(5))
	}
	idOf := func() bson.D { return bson.D{{Key: "_id", Value: g.id(docs)}} }
	fresh := func() interface{} { return int32(10 + r.N(90)) }
	switch n := r.N(100); {
	case n < 14:
		c.M, c.Q = "updateMany", bson.D{}
		c.U = bson.D{{Key: "$set", Value: bson.D{{Key: k, Value: num(1 + r.N(8))}}}}
	case n < 28:
		c.M, c.Q = "updateMany", bson.D{{Key: k, Value: bson.D{{Key: []string{"$lte", "$gte"}[r.N(2)], Value: int32(1 + r.N(4))}}}}
		c.U = bson.D{{Key: "$inc", Value: bson.D{{Key: k, Value: int32(1 - 2*r.N(2))}}}}
	case n < 36:
		c.M, c.Q = "updateMany", bson.D{}
		c.U = bson.D{{Key: "$inc", Value: bson.D{{Key: k, Value: int32([]int{1, -1, 10}[r.N(3)])}}}}
	case n < 40:
		c.M, c.Q = "updateMany", bson.D{}
		c.U = bson.D{{Key: "$mul", Value: bson.D{{Key: k, Value: int32([]int{0, 2, -1}[r.N(3)])}}}}
	case n < 50:
		c.M, c.Q, c.Upsert = "replaceOne", idOf(), r.P(25)
		c.Repl = bson.D{{Key: k, Value: keyOf()}}
	case n < 60:
		c.M, c.Q, c.Upsert = []string{"updateOne", "findOneAndUpdate"}[r.N(2)], idOf(), r.P(25)
		c.U = bson.D{{Key: "$set", Value: bson.D{{Key: k, Value: keyOf()}}}}
	case n < 70:
		c.M, c.Ordered = "insertMany", r.P(50)
		c.Docs = []bson.D{{{Key: "_id", Value: fresh()}, {Key: k, Value: fresh()}}, {{Key: "_id", Value: fresh()}, {Key: k, Value: keyOf()}}, {{Key: "_id", Value: fresh()}, {Key: k, Value: fresh()}}}
	case n < 84:
		c.M, c.Ordered = "bulkWrite", r.P(50)
		c.Models = []apiBulk{
			{T: "insertOne", Doc: bson.D{{Key: "_id", Value: fresh()}, {Key: k, Value: fresh()}}},
			{T: []string{"updateMany", "updateOne"}[r.N(2)], Q: bson.D{}, U: bson.D{{Key: "$set", Value: bson.D{{Key: k, Value: keyOf()}}}}},
			{T: "insertOne", Doc: bson.D{{Key: "_id", Value: fresh()}, {Key: k, Value: keyOf()}}},
		}
		if r.P(40) {
			c.Models[1] = apiBulk{T: "replaceOne", Q: idOf(), Repl: bson.D{{Key: k, Value: keyOf()}}, Upsert: r.P(30)}
		}
		if r.P(30) {
			c.Models = append(c.Models, apiBulk{T: "deleteOne", Q: idOf()})
		}
	case n < 90:
		c.M, c.Q = []string{"deleteOne", "findOneAndDelete"}[r.N(2)], idOf()
	default:
		c.M = "insertOne"
		c.Doc = bson.D{{Key: "_id", Value: g.r.ID()}, {Key: k, Value: num(1 + r.N(7))}}
		if r.P(40) {
			c.Doc[0].Value = fresh()
		}
	}
}

func (g *sessGen) coll() string {
	if g.r.P(70) {
		return sessColls[0]
	}
	return sessColls[1]
}

func (g *sessGen) docsOf(cat *lungo.Catalog, coll string) bsonkit.List {
	if cat == nil {
		return nil
	}
	if ns := cat.Namespaces[lungo.Handle{sessDB, coll}]; ns != nil {
		return ns.Documents.List
	}
	return nil
}

func (g *sessGen) id(docs bsonkit.List) interface{} {
	if len(docs) > 0 && g.r.P(65) {
		if v := bsonkit.Get(docs[g.r.N(len(docs))], "_id"); v != bsonkit.Missing {
			if d, err := bsonkit.Transform(bson.D{{Key: "v", Value: v}}); err == nil {
				return (*d)[0].Value // a copy: never hand stored values back to the driver
			}
		}
	}
	return g.r.ID()
}

// sessQuietNaN replaces every NaN by the canonical quiet NaN. What arithmetic does to a NaN
// payload is hardware-defined; the Apply model always yields the canonical NaN, the hardware
// keeps the payload, and `modified` is decided by bitwise document equality — so `$inc` on a
// stored payload-NaN counts as a modification in the model only (MODEL_BUGS.md #2; not a
// matter of the session layer).
func sessQuietNaN(v interface{}) interface{} {
	switch x := v.(type) {
	case float64:
		if math.IsNaN(x) {
			return math.Float64frombits(0x7ff8000000000000)
		}
	case bson.D:
		for i := range x {
			x[i].Value = sessQuietNaN(x[i].Value)
		}
	case bson.A:
		for i := range x {
			x[i] = sessQuietNaN(x[i])
		}
	}
	return v
}

func (g *sessGen) doc() bson.D {
	d := sessQuietNaN(g.r.Doc(1, false, false)).(bson.D)
	if g.r.P(94) {
		d = append(bson.D{{Key: "_id", Value: g.r.ID()}}, d...)
	}
	return d
}

func (g *sessGen) key() string { return gen.Keys[g.r.N(len(gen.Keys))] }

func (g *sessGen) filter(docs bsonkit.List) bson.D {
	r := g.r
	switch n := r.N(100); {
	case n < 28:
		return bson.D{}
	case n < 62:
		return bson.D{{Key: "_id", Value: g.id(docs)}}
	case n < 80:
		return bson.D{{Key: g.key(), Value: r.SmallNumber()}}
	case n < 88:
		return bson.D{{Key: g.key(), Value: bson.D{{Key: []string{"$gt", "$lte", "$ne", "$exists"}[r.N(4)], Value: int32(r.N(3))}}}}
	default:
		return sessQuietNaN(Filter(r, 1, false)).(bson.D)
	}
}

func sessStripCurrentDate(u bson.D) bson.D {
	out := make(bson.D, 0, len(u))
	for _, e := range u {
		if e.Key == "$currentDate" {
			continue // the clock is not an input of the sequential model
		}
		out = append(out, e)
	}
	return out
}

func (g *sessGen) update() bson.D { return sessQuietNaN(g.update0()).(bson.D) }

func (g *sessGen) update0() bson.D {
	r := g.r
	k := g.key()
	switch n := r.N(100); {
	case n < 40:
		return bson.D{{Key: "$set", Value: bson.D{{Key: k, Value: r.SmallNumber()}}}}
	case n < 55:
		return bson.D{{Key: "$inc", Value: bson.D{{Key: k, Value: int32(1 + r.N(2))}}}}
	case n < 62:
		return bson.D{{Key: "$unset", Value: bson.D{{Key: k, Value: ""}}}}
	case n < 70:
		return bson.D{{Key: "$push", Value: bson.D{{Key: k, Value: r.SmallNumber()}}}}
	case n < 76:
		return bson.D{{Key: "$set", Value: bson.D{{Key: "a.b", Value: r.Scalar()}}}}
	default:
		u := sessStripCurrentDate(Update(r, false))
		if len(u) == 0 {
			return bson.D{{Key: "$set", Value: bson.D{{Key: k, Value: r.SmallNumber()}}}}
		}
		return u
	}
}

func (g *sessGen) sortOpt(c *sessCall, pct int) {
	if g.r.P(pct) {
		c.HasSort = true
		c.Sort = bson.D{{Key: []string{"_id", "a", "b"}[g.r.N(3)], Value: int32(1 - 2*g.r.N(2))}}
	}
}

// call generates one driver call. cat is the catalog the issuing client sees.
func (g *sessGen) call(write, allowDirect bool, cat *lungo.Catalog) *sessCall {
	r := g.r
	c := &sessCall{Coll: g.coll()}
	docs := g.docsOf(cat, c.Coll)
	if write && len(sessOplog(cat)) > sessMaxEvents {
		write = false
	}
	if !write {
		switch n := r.N(100); {
		case n < 50:
			c.M = "find"
			c.Q = g.filter(docs)
			g.sortOpt(c, 30)
			if r.P(15) {
				c.Skip = 1
			}
			if r.P(15) {
				c.Limit = int64(1 + r.N(2))
			}
		case n < 70:
			c.M = "findOne"
			c.Q = g.filter(docs)
			g.sortOpt(c, 30)
		case n < 86:
			c.M = "count"
			c.Q = g.filter(docs)
		case n < 92:
			c.M = "estCount"
		default:
			c.M = "listIndexes"
		}
		return c
	}
	if g.uk != "" && r.P(45) {
		g.colliding(c, g.docsOf(cat, "c"))
		return c
	}
	if r.P(9) {
		g.lateProjection(c, docs)
		return c
	}
	n := r.N(100)
	if len(docs) == 0 && r.P(65) {
		n = r.N(36)
	}
	switch {
	case n < 26:
		c.M = "insertOne"
		c.Doc = g.doc()
	case n < 36:
		c.M = "insertMany"
		k := 2 + r.N(2)
		for i := 0; i < k; i++ {
			c.Docs = append(c.Docs, g.doc())
		}
		c.Ordered = r.P(50)
	case n < 50:
		c.M = "updateOne"
		c.Q, c.U, c.Upsert = g.filter(docs), g.update(), r.P(20)
	case n < 60:
		c.M = "updateMany"
		c.Q, c.U, c.Upsert = g.filter(docs), g.update(), r.P(15)
	case n < 69:
		c.M = "replaceOne"
		c.Q, c.Upsert = g.filter(docs), r.P(25)
		c.Repl = sessQuietNaN(r.Doc(1, false, false)).(bson.D)
		if r.P(4) && (sessPreValidation || g.m.holder() < 0) {
			// rejected by validateReplacement before Begin. While a transaction is open the session
			// model answers `blocked` instead of `err` (MODEL_BUGS.md #1), so that combination is
			// generated only with SESS_PREVALIDATION=1 until the model is repaired.
			c.Repl = bson.D{{Key: "$set", Value: bson.D{{Key: "a", Value: int32(1)}}}}
		}
	case n < 77:
		c.M = "deleteOne"
		c.Q = g.filter(docs)
	case n < 81:
		c.M = "deleteMany"
		c.Q = g.filter(docs)
	case n < 86:
		c.M = "findOneAndUpdate"
		c.Q, c.U, c.Upsert, c.After = g.filter(docs), g.update(), r.P(20), r.P(50)
		g.sortOpt(c, 30)
	case n < 90 || !allowDirect:
		c.M = "findOneAndDelete"
		c.Q = g.filter(docs)
		g.sortOpt(c, 30)
	default:
		g.direct(c, cat)
	}
	return c
}

// direct makes c one of the calls that take the writer slot with engine.Begin directly.
func (g *sessGen) direct(c *sessCall, cat *lungo.Catalog) {
	r := g.r
	switch n := r.N(100); {
	case n < 45:
		c.M = "createIndex"
		c.Keys = bson.D{{Key: g.key(), Value: int32(1 - 2*r.N(2))}}
		c.Unique = r.P(35)
	case n < 60:
		c.M = "dropIndex"
		c.Name = g.key() + "_1"
		if cat != nil {
			if ns := cat.Namespaces[lungo.Handle{sessDB, c.Coll}]; ns != nil && len(ns.Indexes) > 0 && r.P(75) {
				names := make([]string, 0, len(ns.Indexes))
				for name := range ns.Indexes {
					names = append(names, name)
				}
				sort.Strings(names)
				c.Name = names[r.N(len(names))]
			}
		}
	case n < 68:
		c.M = "dropAllIndexes"
	case n < 80:
		c.M = "createCollection"
	default:
		c.M = "dropCollection"
	}
}

// otherSess picks a session different from h with the given ended state (-1: none).
func (g *sessGen) otherSess(h int, ended bool) int {
	var cand []int
	for i := range g.m.sess {
		if i != h && g.m.ended[i] == ended {
			cand = append(cand, i)
		}
	}
	if len(cand) == 0 {
		return -1
	}
	return cand[g.r.N(len(cand))]
}

// next generates the next step from the implementation's current state.
func (g *sessGen) next() *sessStep {
	r, m := g.r, g.m
	h := m.holder()
	st := &sessStep{Sid: -1}
	canBlock := m.blocked < sessMaxBlocked
	n := r.N(100)
	if h < 0 {
		committed := m.engine.Catalog()
		switch {
		case n < 22:
			st.K, st.Sid = "start", r.N(len(m.sess))
		case n < 60:
			st.K = "call"
			st.C = g.call(r.P(70), true, committed)
			st.FailStore = st.C.isWrite() && r.P(6)
		case n < 72:
			st.K, st.Sid = "call", r.N(len(m.sess)) // session context without a transaction
			st.C = g.call(r.P(60), true, committed)
		case n < 77:
			st.K, st.Sid = "commit", r.N(len(m.sess))
		case n < 81:
			st.K, st.Sid = "abort", r.N(len(m.sess))
		case n < 84:
			st.K, st.Sid = "end", r.N(len(m.sess))
		default:
			st.K = "call"
			st.C = g.call(false, true, committed)
		}
	} else {
		view := m.view(h)
		switch {
		case n < 46:
			st.K, st.Sid = "call", h
			st.C = g.call(r.P(62), false, view)
		case n < 50:
			st.K, st.Sid = "call", h // direct Begin inside the transaction: nested
			st.C = &sessCall{Coll: g.coll()}
			g.direct(st.C, view)
		case n < 60:
			st.K = "call"
			st.C = g.call(false, true, m.engine.Catalog())
		case n < 66 && canBlock:
			st.K = "call" // plain write (or direct Begin) while the slot is held: blocks
			st.C = g.call(true, true, m.engine.Catalog())
			st.FailStore = r.P(5)
		case n < 70 && canBlock:
			if o := g.otherSess(h, r.P(75) == false); o >= 0 {
				st.K, st.Sid = "call", o
				st.C = g.call(r.P(60), true, m.engine.Catalog())
			}
		case n < 72 && canBlock:
			if o := g.otherSess(h, false); o >= 0 {
				st.K, st.Sid = "start", o // waits for the slot (started with a deadline)
			}
		case n < 74:
			st.K, st.Sid = "start", h // existing transaction
		case n < 76:
			if o := g.otherSess(h, r.P(50)); o >= 0 {
				st.K, st.Sid = []string{"commit", "abort"}[r.N(2)], o
			}
		case n < 78:
			if o := g.otherSess(h, true); o >= 0 {
				st.K, st.Sid = []string{"start", "commit", "abort", "end"}[r.N(4)], o
			}
		case n < 91:
			st.K, st.Sid = "commit", h
			st.FailStore = r.P(15)
		case n < 97:
			st.K, st.Sid = "abort", h
			if r.P(55) {
				// an index operation directly on the open transaction first (C15: abort leaves no trace)
				st.K = "idxabort"
				st.C = &sessCall{Coll: g.coll()}
				// drop an index the view has (half of the time, if there is one), else create one
				var have [][2]string
				for _, coll := range sessColls {
					if ns := view.Namespaces[lungo.Handle{sessDB, coll}]; ns != nil {
						names := make([]string, 0, len(ns.Indexes))
						for name := range ns.Indexes {
							if name != "_id_" {
								names = append(names, name)
							}
						}
						sort.Strings(names)
						for _, name := range names {
							have = append(have, [2]string{coll, name})
						}
					}
				}
				switch {
				case len(have) > 0 && r.P(50):
					x := have[r.N(len(have))]
					st.C.Coll, st.C.M, st.C.Name = x[0], "dropIndex", x[1]
					if r.P(25) {
						st.C.M, st.C.Name = "dropAllIndexes", ""
					}
				case r.P(12):
					st.C.M, st.C.Name = "dropIndex", []string{"_id_", "nope_1"}[r.N(2)]
				default:
					st.C.M = "createIndex"
					st.C.Keys = bson.D{{Key: g.key(), Value: int32(1 - 2*r.N(2))}}
					st.C.Unique = r.P(60)
					if r.P(30) {
						// a filter that raises an error only for documents passing its first condition: the
						// build fails late (after it has added documents) for another reason than uniqueness
						st.C.Unique = r.P(20)
						f := g.key()
						st.C.Partial = bson.D{{Key: f, Value: bson.D{{Key: []string{"$gt", "$gte", "$exists"}[r.N(3)], Value: int32(1)}}},
							{Key: g.key() + "z", Value: bson.D{{Key: []string{"$exits", "$foo"}[r.N(2)], Value: true}}}}
					}
				}
			}
		default:
			st.K, st.Sid = "end", h
		}
		if st.K == "" {
			st.K, st.Sid = "call", h
			st.C = g.call(false, false, view)
		}
	}
	live := 0
	for _, sn := range m.snaps {
		if !sn.dead {
			live++
		}
	}
	if live < sessMaxSnaps && r.P(22) {
		kinds := []string{"catalog", "txn", "cursor:" + g.coll(), "cursor:" + g.coll()}
		if st.Sid >= 0 {
			kinds = append(kinds, "sesscat", "sesscursor:"+g.coll(), "sesscat", "sesscursor:"+g.coll())
		}
		st.Snap = kinds[r.N(len(kinds))]
	}
	return st
}

// sessGenHistory generates and executes one history.
func sessGenHistory(r *gen.R) []run.Case {
	nSess := 2 + r.N(2)
	m, err := newSessRunner(nSess)
	if err != nil {
		return []run.Case{{Impl: `{"bad":"cannot open engine"}`, Viols: []run.Violation{{Property: "C03", What: "cannot open engine", Witness: "open-failed", Detail: err.Error()}}}}
	}
	defer m.close()
	m.hk = strconv.FormatUint(r.U64()&0xffffffffff, 36)
	h := &sessHist{}
	g := &sessGen{r: r, m: m}
	cases := []run.Case{{Req: `{"op":"sess.reset"}`, Impl: `{"ok":null}`, Tags: []string{"sessions:" + strconv.Itoa(nSess)}}}
	for _, st := range g.prelude() {
		cases = append(cases, m.step(st, h).cases...)
	}
	steps := 5 + r.N(36)
	for i := 0; i < steps && !m.dead; i++ {
		out := m.step(g.next(), h)
		cases = append(cases, out.cases...)
	}
	return append(cases, m.finish(h)...)
}

// ---- replay ----

func sessDocsOfReq(r reqObj, k string) []bson.D {
	var out []bson.D
	for _, d := range r.docs(k) {
		out = append(out, *d)
	}
	return out
}

func sessInt(v interface{}) int64 {
	if n, ok := v.(json.Number); ok {
		i, _ := strconv.ParseInt(n.String(), 10, 64)
		return i
	}
	return 0
}

// sessStepOfReq decodes a `sess.step` request line back into the step.
func sessStepOfReq(r reqObj) (st *sessStep, err error) {
	defer func() {
		if p := recover(); p != nil {
			st, err = nil, errReplay
		}
	}()
	st = &sessStep{K: r.str("k"), Sid: -1, FailStore: r.boolean("failStore"), Snap: r.str("snap")}
	if real := r.str("real"); real != "" {
		st.K = real
	}
	if n, ok := r["sid"].(json.Number); ok {
		st.Sid = int(sessInt(n))
	}
	if st.K != "call" && !(st.K == "idxabort" && r.str("m") != "") {
		return st, nil
	}
	c := &sessCall{M: r.str("m")}
	if h, ok := r["h"].([]interface{}); ok && len(h) == 2 {
		c.Coll, _ = h[1].(string)
	}
	has := func(k string) bool { _, ok := r[k]; return ok }
	if has("doc") {
		c.Doc = r.doc("doc")
	}
	c.Docs = sessDocsOfReq(r, "docs")
	c.Ordered = r.boolean("ordered")
	if has("q") {
		c.Q = r.doc("q")
	}
	if has("u") {
		c.U = r.doc("u")
	}
	if has("repl") {
		c.Repl = r.doc("repl")
	}
	if has("sort") {
		c.Sort, c.HasSort = r.doc("sort"), true
	}
	c.Skip, c.Limit = sessInt(r["skip"]), sessInt(r["limit"])
	c.Upsert, c.After = r.boolean("upsert"), r.boolean("after")
	if has("proj") {
		c.Proj, c.HasProj = r.doc("proj"), true
	}
	if has("keys") {
		c.Keys = r.doc("keys")
	}
	c.Unique = r.boolean("unique")
	c.Name = r.str("name")
	if has("partial") {
		c.Partial = r.doc("partial")
	}
	if ms, ok := r["models"].([]interface{}); ok {
		c.Models = decodeAPICall(r).Models
		_ = ms
	}
	st.C = c
	return st, nil
}

type sessReplayErr struct{}

func (sessReplayErr) Error() string { return "bad replay request" }

var errReplay error = sessReplayErr{}

var (
	sessReplayMu  sync.Mutex
	sessReplayRun *sessRunner
	sessReplayH   *sessHist
)

// sessReplay re-executes a request line: `sess.history` (a whole history on a fresh engine:
// replies, final dump, monitor witnesses) or the stateful single lines sess.reset / sess.step /
// sess.dump / sess.dumpTxn on a process-wide engine.
func sessReplay(req string) string {
	r, err := parseReq(req)
	if err != nil {
		return ""
	}
	switch r.str("op") {
	case "sess.history":
		n := int(sessInt(r["sessions"]))
		if n <= 0 {
			n = 3
		}
		m, err := newSessRunner(n)
		if err != nil {
			return ""
		}
		defer m.close()
		h := &sessHist{}
		steps, _ := r["steps"].([]interface{})
		var replies, wit []string
		collect := func(cs []run.Case) {
			for _, c := range cs {
				for _, v := range c.Viols {
					wit = append(wit, run.JS(v.Property+":"+v.Witness+" — "+v.What+"\n"+v.Detail))
				}
			}
		}
		for _, sj := range steps {
			sm, ok := sj.(map[string]interface{})
			if !ok {
				return ""
			}
			st, err := sessStepOfReq(reqObj(sm))
			if err != nil || (st.Sid >= n) {
				return ""
			}
			out := m.step(st, h)
			collect(out.cases)
			if reqObj(sm).boolean("skipModel") {
				replies = append(replies, "null")
			} else {
				replies = append(replies, out.reply)
			}
			if m.dead {
				break
			}
		}
		fin := m.finish(h)
		collect(fin)
		dump := strings.TrimSuffix(strings.TrimPrefix(fin[0].Impl, `{"ok":`), `}`)
		out := `{"ok":{"dump":` + dump + `,"replies":[` + strings.Join(replies, ",") + `]}`
		if len(wit) > 0 {
			out += `,"violations":[` + strings.Join(wit, ",") + `]`
		}
		return out + `}`
	case "sess.reset":
		sessReplayMu.Lock()
		defer sessReplayMu.Unlock()
		if sessReplayRun != nil {
			sessReplayRun.close()
		}
		m, err := newSessRunner(4)
		if err != nil {
			return ""
		}
		sessReplayRun, sessReplayH = m, &sessHist{}
		return `{"ok":null}`
	case "sess.step", "sess.dump", "sess.dumpTxn":
		sessReplayMu.Lock()
		defer sessReplayMu.Unlock()
		if sessReplayRun == nil {
			m, err := newSessRunner(4)
			if err != nil {
				return ""
			}
			sessReplayRun, sessReplayH = m, &sessHist{}
		}
		m := sessReplayRun
		switch r.str("op") {
		case "sess.dump":
			return sessDump(m.engine.Catalog())
		case "sess.dumpTxn":
			sid := int(sessInt(r["sid"]))
			if sid < 0 || sid >= len(m.sess) || m.sess[sid].Transaction() == nil {
				return `{"ok":null}`
			}
			return sessDump(m.sess[sid].Transaction().Catalog())
		}
		st, err := sessStepOfReq(r)
		if err != nil || st.Sid >= len(m.sess) {
			return ""
		}
		return m.step(st, sessReplayH).reply
	}
	return ""
}

func init() {
	run.Register(&run.Stream{
		Name: "sess",
		Rule: "one history = 2..3 sessions + a plain client over 1 database x 2 collections, 5..40 steps executed one call at a time on the real " +
			"engine (start / commit / abort / end, driver calls with the session context incl. nested direct-Begin calls, plain reads and " +
			"plain writes that wait 150 ms for a held writer slot, calls on ended sessions, commit twice, start on an ended or busy session, " +
			"index operations directly on the open transaction followed by abort; 40% of the histories start with a unique secondary index over a few documents and then mix in " +
			"multi-updates / replacements / batches (insertMany, bulkWrite) that fail for uniqueness at a later document, inside and outside transactions, followed by commits; " +
			"9% of the writes are find-and-modify statements whose projection fails only on the returned document (the write itself creates the offending array); " +
			"monitors on the implementation alone: a failed statement leaves the transaction's view unchanged (C02), every index of the view / the committed catalog is coherent (C15), unique keys (C07); " +
			"6-15% injected store failures on commits); every step is one case compared with Lean `SSys.step`, followed by dump cases " +
			"(transaction view = sess.dumpTxn, committed = sess.dump); snapshots (Catalog(), open cursors, unlocked transactions, the " +
			"session's catalog) are re-read after every later step; non-trivial = the step was blocked, changed the committed catalog or the " +
			"transaction's view, was a successful session control step, or returned a non-empty result",
		Gen:    func(r *gen.R, idx int) []run.Case { return sessGenHistory(r) },
		Corpus: sessCorpus,
		Replay: sessReplay,
	})
}
