package streams

import (
	"fmt"
	"math"
	"strconv"

	"go.mongodb.org/mongo-driver/bson"
	"go.mongodb.org/mongo-driver/bson/primitive"

	"github.com/256dpi/lungo/bsonkit"
	"github.com/256dpi/lungo/mongokit"

	"verifharness/internal/gen"
	"verifharness/internal/run"
	"verifharness/internal/vj"
)

// Stream "match" (C10, C20): (document, filter) pairs through mongokit.Match; correspondence
// with the model, and the logical laws evaluated on the implementation itself.

var cmpOps = []string{"$eq", "$gt", "$gte", "$lt", "$lte", "$ne"}
var typeAliases = []string{"double", "string", "object", "array", "binData", "objectId", "bool", "date", "null", "regex", "int", "timestamp", "long", "decimal", "number", "minKey", "undefined", "bogus"}

// operand returns a comparison operand biased to collide with document values.
func operand(r *gen.R, malformed bool) interface{} {
	switch r.N(10) {
	case 0:
		return nil
	case 1:
		return r.Arr(1, false)
	case 2:
		return r.Doc(1, false, false)
	default:
		return r.Scalar()
	}
}

func intLike(r *gen.R, malformed bool) interface{} {
	n := int64(r.N(5))
	if malformed && r.P(30) {
		return []interface{}{int64(-1), 1.5, "1", nil, 1e300, int64(1) << 62}[r.N(6)]
	}
	switch r.N(3) {
	case 0:
		return int32(n)
	case 1:
		return n
	default:
		return float64(n)
	}
}

// opDoc returns an operator document for a field condition.
func opDoc(r *gen.R, depth int, malformed bool) bson.D {
	n := 1
	if r.P(20) {
		n = 2
	}
	var d bson.D
	for i := 0; i < n; i++ {
		d = append(d, oneOp(r, depth, malformed))
	}
	return d
}

func oneOp(r *gen.R, depth int, malformed bool) bson.E {
	k := r.N(20)
	switch {
	case k < 6:
		return bson.E{Key: cmpOps[r.N(len(cmpOps))], Value: operand(r, malformed)}
	case k < 8:
		op := []string{"$in", "$nin"}[r.N(2)]
		if malformed && r.P(30) {
			return bson.E{Key: op, Value: r.Scalar()}
		}
		m := r.N(4)
		a := bson.A{}
		for i := 0; i < m; i++ {
			a = append(a, operand(r, malformed))
		}
		return bson.E{Key: op, Value: a}
	case k < 9:
		return bson.E{Key: "$exists", Value: []interface{}{true, false, int32(1), int32(0), nil, 0.0, "x"}[r.N(7)]}
	case k < 11:
		if r.P(25) {
			a := bson.A{}
			for i := 0; i < r.N(3); i++ {
				a = append(a, typeAliases[r.N(len(typeAliases))])
			}
			return bson.E{Key: "$type", Value: a}
		}
		if r.P(30) {
			return bson.E{Key: "$type", Value: []interface{}{int32(1), int32(2), int64(16), 18.0, int32(10), int32(4), int32(99), -1.0, 1.5, int32(3)}[r.N(10)]}
		}
		return bson.E{Key: "$type", Value: typeAliases[r.N(len(typeAliases))]}
	case k < 12:
		if malformed && r.P(40) {
			return bson.E{Key: "$all", Value: r.Scalar()}
		}
		m := r.N(3)
		a := bson.A{}
		for i := 0; i < m; i++ {
			a = append(a, r.Scalar())
		}
		return bson.E{Key: "$all", Value: a}
	case k < 13:
		return bson.E{Key: "$size", Value: intLike(r, malformed)}
	case k < 15:
		if depth <= 0 {
			return bson.E{Key: "$eq", Value: r.Scalar()}
		}
		if malformed && r.P(30) {
			return bson.E{Key: "$elemMatch", Value: []interface{}{bson.D{}, int32(1), bson.D{{Key: "$and", Value: bson.A{bson.D{{Key: "a", Value: int32(1)}}}}}}[r.N(3)]}
		}
		if r.P(50) {
			return bson.E{Key: "$elemMatch", Value: opDoc(r, depth-1, malformed)}
		}
		return bson.E{Key: "$elemMatch", Value: fieldConds(r, depth-1, malformed, 1+r.N(2))}
	case k < 16:
		if malformed && r.P(50) {
			return bson.E{Key: "$mod", Value: []interface{}{bson.A{int32(0), int32(1)}, bson.A{int32(2)}, int32(3), bson.A{1e300, int32(0)}, bson.A{"a", int32(0)}, bson.A{int32(2), int32(0), int32(1)},
				bson.A{0.5, int32(0)}, bson.A{-0.25, int32(0)}, bson.A{5e-324, int32(0)}, bson.A{math.Copysign(0, -1), int32(0)}, bson.A{math.NaN(), int32(0)},
				bson.A{int64(math.MinInt64), int32(0)}, bson.A{int32(-1), int64(math.MinInt64)}, bson.A{-9.3e18, int32(0)}, bson.A{0.999, 0.999}}[r.N(15)]}
		}
		div := []interface{}{int32(2), int64(3), 2.5, int32(-2), int64(-1), 4.0}[r.N(6)]
		rem := []interface{}{int32(0), int64(1), 1.0, int32(-1), 0.5}[r.N(5)]
		return bson.E{Key: "$mod", Value: bson.A{div, rem}}
	case k < 17:
		op := []string{"$bitsAllSet", "$bitsAllClear", "$bitsAnySet", "$bitsAnyClear"}[r.N(4)]
		var mask interface{}
		switch r.N(5) {
		case 0:
			mask = int32(r.N(8))
		case 1:
			mask = int64(r.N(300))
		case 2:
			mask = bson.A{int32(r.N(3)), int64(r.N(70))}
		case 3:
			mask = primitive.Binary{Data: []byte{byte(r.N(256)), byte(r.N(4))}}
		default:
			if malformed {
				mask = []interface{}{int32(-1), 1.5, "x", bson.A{int32(-1)}, bson.A{"a"}, 5.0, bson.A{2.0}}[r.N(7)]
			} else {
				mask = float64(r.N(16))
			}
		}
		return bson.E{Key: op, Value: mask}
	case k < 19:
		if depth <= 0 {
			return bson.E{Key: "$ne", Value: r.Scalar()}
		}
		if malformed && r.P(30) {
			return bson.E{Key: "$not", Value: []interface{}{bson.D{}, int32(1), bson.D{{Key: "a", Value: int32(1)}}}[r.N(3)]}
		}
		return bson.E{Key: "$not", Value: opDoc(r, depth-1, malformed)}
	default:
		if malformed {
			return bson.E{Key: []string{"$foo", "$and", "$regex", "$"}[r.N(4)], Value: r.Scalar()}
		}
		return bson.E{Key: "$eq", Value: r.SmallNumber()}
	}
}

// hint, when set by a stream, biases generated conditions to the paths and values of a document.
type condHint struct {
	paths []string
	doc   bson.D
}

var noHint = &condHint{}

func hintOf(doc bson.D) *condHint {
	h := &condHint{doc: doc}
	docPaths(doc, "", &h.paths)
	return h
}

// hintedOperand returns a value found at the path (or one of its array elements).
func (h *condHint) operandAt(r *gen.R, path string) (interface{}, bool) {
	if h == nil || h.doc == nil {
		return nil, false
	}
	v := bsonkit.Get(&h.doc, path)
	if v == bsonkit.Missing {
		return nil, false
	}
	if a, ok := v.(bson.A); ok && len(a) > 0 && r.P(60) {
		return a[r.N(len(a))], true
	}
	return v, true
}

// fieldConds returns n field conditions.
func fieldConds(r *gen.R, depth int, malformed bool, n int) bson.D {
	var d bson.D
	for i := 0; i < n; i++ {
		key := r.Path()
		h, _ := r.Hint.(*condHint)
		if h == nil {
			h = noHint
		}
		if len(h.paths) > 0 && r.P(60) {
			key = h.paths[r.N(len(h.paths))]
			if v, ok := h.operandAt(r, key); ok && r.P(70) {
				// a condition that is likely to hold on the hinted document
				switch r.N(5) {
				case 0:
					d = append(d, bson.E{Key: key, Value: bson.D{{Key: []string{"$eq", "$gte", "$lte", "$in"}[r.N(3)], Value: v}}})
				case 1:
					d = append(d, bson.E{Key: key, Value: bson.D{{Key: "$in", Value: bson.A{r.Scalar(), v}}}})
				default:
					d = append(d, bson.E{Key: key, Value: v})
				}
				continue
			}
		}
		if malformed && r.P(10) {
			key = []string{"", "a.", ".a", "a..b", "a.$", "0"}[r.N(6)]
		}
		var v interface{}
		if r.P(45) {
			v = operand(r, malformed)
		} else {
			v = opDoc(r, depth, malformed)
		}
		d = append(d, bson.E{Key: key, Value: v})
	}
	return d
}

// Filter returns a random filter document.
func Filter(r *gen.R, depth int, malformed bool) bson.D {
	n := 1 + r.N(2)
	var d bson.D
	for i := 0; i < n; i++ {
		if depth > 0 && r.P(25) {
			op := []string{"$and", "$or", "$nor"}[r.N(3)]
			if malformed && r.P(25) {
				d = append(d, bson.E{Key: op, Value: []interface{}{bson.A{}, int32(1), bson.A{int32(1)}, bson.D{}}[r.N(4)]})
				continue
			}
			m := 1 + r.N(3)
			a := bson.A{}
			for j := 0; j < m; j++ {
				a = append(a, Filter(r, depth-1, malformed))
			}
			d = append(d, bson.E{Key: op, Value: a})
		} else {
			d = append(d, fieldConds(r, depth, malformed, 1)...)
		}
	}
	return d
}

// c10Enrich gives some `$exists` operators a Decimal128 argument (zeros of any sign/exponent, NaN, infinities:
// MongoDB truthiness) and some `$all` operands an array-valued member (mostly one of the document's own arrays),
// recursively through $and/$or/$nor, $not and $elemMatch. Used by stream match only (the shared grammar is unchanged).
func c10Enrich(r *gen.R, arrs []bson.A, q bson.D) bson.D {
	isOps := func(v interface{}) (bson.D, bool) {
		od, ok := v.(bson.D)
		return od, ok && len(od) > 0 && len(od[0].Key) > 0 && od[0].Key[0] == '$'
	}
	var ops func(od bson.D) bson.D
	ops = func(od bson.D) bson.D {
		out := make(bson.D, 0, len(od))
		for _, o := range od {
			switch o.Key {
			case "$exists":
				if r.P(40) {
					o.Value = existsDecs[r.N(len(existsDecs))]
				}
			case "$all":
				if a, ok := o.Value.(bson.A); ok && r.P(40) {
					var m bson.A
					if len(arrs) > 0 && r.P(70) {
						m = arrs[r.N(len(arrs))]
					} else {
						m = r.Arr(1, false)
					}
					na := append(bson.A{}, a...)
					if len(na) > 0 && r.P(50) {
						na[r.N(len(na))] = m
					} else {
						na = append(na, m)
					}
					o.Value = na
				}
			case "$not":
				if d, ok := isOps(o.Value); ok {
					o.Value = ops(d)
				}
			case "$elemMatch":
				if d, ok := isOps(o.Value); ok {
					o.Value = ops(d)
				} else if d, ok := o.Value.(bson.D); ok {
					o.Value = c10Enrich(r, arrs, d)
				}
			}
			out = append(out, o)
		}
		return out
	}
	out := make(bson.D, 0, len(q))
	for _, e := range q {
		if len(e.Key) > 0 && e.Key[0] == '$' {
			if a, ok := e.Value.(bson.A); ok {
				na := make(bson.A, len(a))
				for i := range a {
					if d, ok := a[i].(bson.D); ok {
						na[i] = c10Enrich(r, arrs, d)
					} else {
						na[i] = a[i]
					}
				}
				e.Value = na
			}
		} else if od, ok := isOps(e.Value); ok {
			e.Value = ops(od)
		}
		out = append(out, e)
	}
	return out
}

func matchReply(doc, q bson.D) string {
	return run.Safe(func() string {
		ok, err := mongokit.Match(&doc, &q)
		if err != nil {
			return `{"err":"err"}`
		}
		return fmt.Sprintf(`{"ok":%v}`, ok)
	})
}

func matchReq(doc, q bson.D) string {
	return `{"op":"match","d":` + vj.Enc(doc) + `,"q":` + vj.Enc(q) + `}`
}

// acceptUnmodelled accepts a model reply that declares the case outside the model.
func acceptUnmodelled(impl string) func(string) bool {
	return func(m string) bool {
		return m == impl || (len(m) > 13 && m[:13] == `{"unmodelled"`)
	}
}

// lawCheck evaluates a law "lhs ≡ f(rhs…)" on the implementation.
func implMatch(doc, q bson.D) (res int, panicked bool) { // 1 true, 0 false, -1 error
	defer func() {
		if p := recover(); p != nil {
			panicked = true
			res = -2
		}
	}()
	ok, err := mongokit.Match(&doc, &q)
	if err != nil {
		return -1, false
	}
	if ok {
		return 1, false
	}
	return 0, false
}

func neg(x int) int {
	if x == 1 {
		return 0
	} else if x == 0 {
		return 1
	}
	return x
}

func init() {
	run.Register(&run.Stream{
		Name: "match",
		Rule: "documents nested ≤3 (arrays of scalars/documents/arrays, null vs missing, all types) × filters from the operator grammar up to nesting 3, 15% malformed; " +
			"60% of the filters with Decimal128 $exists arguments / array-valued $all members; plus law instances ($nor/$ne/$nin/$not negations, $and/$or, $in, $all, $gte/$lte) evaluated on the implementation; non-trivial = distinct case whose filter evaluated without error",
		Gen: func(r *gen.R, idx int) []run.Case {
			malformed := r.P(15)
			doc := r.Doc(3, r.P(30), r.P(50))
			if r.P(70) {
				r.Hint = hintOf(doc)
			}
			q := Filter(r, 2, malformed)
			r.Hint = nil
			var shaped string // an independent verdict for the two dedicated shapes below ("" = none)
			if !malformed && r.P(4) {
				// $mod on a stored number from its definition: doubles are truncated TOWARDS ZERO (stored value, divisor and
				// remainder alike), then Go's / MongoDB's truncated remainder
				xs := []interface{}{-3.5, -0.5, -1.5, -2.25, 3.5, -7.0, int32(-7), int64(-8), 7.9, -7.9, 1e10 + 0.5, -1e10 - 0.5}
				ds := []interface{}{int32(2), int64(3), -2.0, 2.5, int32(-3), 4.0}
				x, dv := xs[r.N(len(xs))], ds[r.N(len(ds))]
				tr := func(v interface{}) int64 {
					switch n := v.(type) {
					case int32:
						return int64(n)
					case int64:
						return n
					case float64:
						return int64(math.Trunc(n))
					}
					return 0
				}
				rem := tr(x) % tr(dv)
				if r.P(40) {
					rem = int64(r.N(5) - 2)
				}
				var remV interface{} = int32(rem)
				if r.P(30) {
					remV = float64(rem) + []float64{0, 0.25}[r.N(2)]*func() float64 {
						if rem < 0 {
							return -1
						}
						return 1
					}()
				}
				fld := gen.Keys[r.N(len(gen.Keys))]
				doc = bson.D{{Key: "_id", Value: int32(1)}, {Key: fld, Value: x}}
				if r.P(30) {
					doc[1].Value = bson.A{"s", x}
				}
				q = bson.D{{Key: fld, Value: bson.D{{Key: "$mod", Value: bson.A{dv, remV}}}}}
				shaped = strconv.FormatBool(tr(x)%tr(dv) == tr(remV))
			} else if !malformed && r.P(3) {
				// $size below ONE fan-out is existential over the sub-documents: a sibling without an array at the path, before
				// or after, does not matter
				k1, k2 := gen.Keys[r.N(len(gen.Keys))], gen.Keys[r.N(len(gen.Keys))]
				want := r.N(3)
				elems := bson.A{}
				hit := false
				for i := 0; i < 1+r.N(4); i++ {
					switch r.N(5) {
					case 0:
						elems = append(elems, bson.D{{Key: k2, Value: r.SmallNumber()}})
					case 1:
						elems = append(elems, bson.D{{Key: "zz", Value: int32(1)}})
					case 2:
						elems = append(elems, r.Scalar())
					default:
						n := r.N(4)
						a := bson.A{}
						for j := 0; j < n; j++ {
							a = append(a, r.SmallNumber())
						}
						elems = append(elems, bson.D{{Key: k2, Value: a}})
						if n == want {
							hit = true
						}
					}
				}
				doc = bson.D{{Key: "_id", Value: int32(1)}, {Key: k1, Value: elems}}
				q = bson.D{{Key: k1 + "." + k2, Value: bson.D{{Key: "$size", Value: int32(want)}}}}
				shaped = strconv.FormatBool(hit)
			}
			if r.P(60) {
				var arrs []bson.A
				specDocArrays(doc, &arrs)
				q = c10Enrich(r, arrs, q)
			}
			impl := matchReply(doc, q)
			tags := []string{}
			var shapedViol []run.Violation
			if shaped != "" {
				tags = append(tags, "shaped-oracle")
				if impl != `{"ok":`+shaped+`}` {
					shapedViol = append(shapedViol, run.Violation{Property: "C10", What: "answer differs from the operator's definition (independent oracle for $mod truncation / $size below a fan-out)",
						Witness: "shape-oracle:" + q[0].Value.(bson.D)[0].Key, Req: `{"op":"match","d":` + vj.Enc(doc) + `,"q":` + vj.Enc(q) + `}`, Detail: "got " + impl + " want " + shaped})
				}
			}
			if malformed {
				tags = append(tags, "malformed")
			}
			switch impl {
			case `{"ok":true}`:
				tags = append(tags, "true")
			case `{"ok":false}`:
				tags = append(tags, "false")
			case `{"err":"err"}`:
				tags = append(tags, "error")
			default:
				tags = append(tags, "panic")
			}
			for _, e := range q {
				if len(e.Key) > 0 && e.Key[0] == '$' {
					tags = append(tags, "top:"+e.Key)
				} else if od, ok := e.Value.(bson.D); ok && len(od) > 0 && len(od[0].Key) > 0 && od[0].Key[0] == '$' {
					for _, o := range od {
						tags = append(tags, "op:"+o.Key)
					}
				} else {
					tags = append(tags, "op:literal")
				}
			}
			c := run.Case{Req: matchReq(doc, q), Impl: impl, Nontrivial: impl == `{"ok":true}` || impl == `{"ok":false}`, Tags: tags}
			c.Accept = acceptUnmodelled(impl)
			var viols []run.Violation
			if len(impl) > 8 && impl[:8] == `{"panic"` {
				viols = append(viols, run.Violation{Property: "C20", What: "mongokit.Match panics", Witness: "match-panic", Req: c.Req, Detail: impl})
			}
			// laws on the implementation
			p := r.Path()
			v := operand(r, false)
			lit := func(op string, val interface{}) bson.D {
				return bson.D{{Key: p, Value: bson.D{{Key: op, Value: val}}}}
			}
			chk := func(name string, lhs, rhs int) {
				if lhs != rhs {
					viols = append(viols, run.Violation{Property: "C10", What: "law " + name + " fails", Witness: "law:" + name,
						Req: `{"d":` + vj.Enc(doc) + `,"p":` + run.JS(p) + `,"v":` + vj.Enc(v) + `,"q":` + vj.Enc(q) + `}`, Detail: fmt.Sprintf("lhs=%d rhs=%d", lhs, rhs)})
				}
			}
			eq, _ := implMatch(doc, lit("$eq", v))
			ne, _ := implMatch(doc, lit("$ne", v))
			chk("ne_is_not_eq", ne, neg(eq))
			gt, _ := implMatch(doc, lit("$gt", v))
			gte, _ := implMatch(doc, lit("$gte", v))
			lt, _ := implMatch(doc, lit("$lt", v))
			lte, _ := implMatch(doc, lit("$lte", v))
			or := func(a, b int) int {
				if a == 1 || b == 1 {
					return 1
				}
				if a < 0 {
					return a
				}
				if b < 0 {
					return b
				}
				return 0
			}
			chk("gte_is_gt_or_eq", gte, or(gt, eq))
			chk("lte_is_lt_or_eq", lte, or(lt, eq))
			// $in as disjunction, $nin negation
			vs := bson.A{v, r.Scalar(), r.Scalar()}[:1+r.N(3)]
			in, _ := implMatch(doc, lit("$in", vs))
			nin, _ := implMatch(doc, lit("$nin", vs))
			chk("nin_is_not_in", nin, neg(in))
			disj := 0
			for _, x := range vs {
				e, _ := implMatch(doc, bson.D{{Key: p, Value: bson.D{{Key: "$eq", Value: x}}}})
				disj = or(disj, e)
			}
			// $in does not type-bracket, $eq does: the law "in = ∨ eq" holds because equal values share a class
			chk("in_is_disj_eq", in, disj)
			// $all (non-empty) is the short-circuit conjunction of the equalities (MongoDB's definition of $all)
			allv, _ := implMatch(doc, lit("$all", vs))
			conj := 1
			for _, x := range vs {
				if e, _ := implMatch(doc, lit("$eq", x)); e != 1 {
					conj = e
					break
				}
			}
			chk("all_is_conj_eq", allv, conj)
			// $nor / $or / $and over sub-filters
			q2 := Filter(r, 1, false)
			qv, _ := implMatch(doc, q)
			q2v, _ := implMatch(doc, q2)
			orv, _ := implMatch(doc, bson.D{{Key: "$or", Value: bson.A{q, q2}}})
			norv, _ := implMatch(doc, bson.D{{Key: "$nor", Value: bson.A{q, q2}}})
			andv, _ := implMatch(doc, bson.D{{Key: "$and", Value: bson.A{q, q2}}})
			chk("nor_is_not_or", norv, neg(orv))
			// short-circuit disjunction / conjunction with error propagation in order
			wantOr := qv
			if qv == 0 {
				wantOr = q2v
			}
			chk("or_is_disj", orv, wantOr)
			wantAnd := qv
			if qv == 1 {
				wantAnd = q2v
			}
			chk("and_is_conj", andv, wantAnd)
			// $not
			od := opDoc(r, 1, false)
			if r.P(40) {
				od = append(od, oneOp(r, 0, false))
			}
			pos, _ := implMatch(doc, bson.D{{Key: p, Value: od}})
			notv, _ := implMatch(doc, bson.D{{Key: p, Value: bson.D{{Key: "$not", Value: od}}}})
			chk("not_is_negation", notv, neg(pos))
			// document = $and of its entries
			if len(q) > 1 {
				parts := bson.A{}
				for _, e := range q {
					parts = append(parts, bson.D{e})
				}
				asAnd, _ := implMatch(doc, bson.D{{Key: "$and", Value: parts}})
				chk("doc_is_and", qv, asAnd)
			}
			c.Viols = append(viols, shapedViol...)
			_ = bsonkit.Missing
			return []run.Case{c}
		},
	})
}
