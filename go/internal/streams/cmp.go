package streams

import (
	"bytes"
	"fmt"
	"math"
	"math/big"

	"go.mongodb.org/mongo-driver/bson"
	"go.mongodb.org/mongo-driver/bson/primitive"

	"github.com/256dpi/lungo/bsonkit"

	"verifharness/internal/gen"
	"verifharness/internal/run"
	"verifharness/internal/vj"
)

// Stream "cmp" (C12): triples of values; model/impl correspondence on bsonkit.Compare and
// the order laws + exact numeric oracle evaluated on the implementation's own answers.

func implCmp(a, b interface{}) (res int, panicked string) {
	defer func() {
		if p := recover(); p != nil {
			panicked = fmt.Sprint(p)
		}
	}()
	return sign(bsonkit.Compare(a, b)), ""
}

func sign(n int) int {
	if n < 0 {
		return -1
	} else if n > 0 {
		return 1
	}
	return 0
}

func cmpReply(a, b interface{}) string {
	r, p := implCmp(a, b)
	if p != "" {
		return `{"panic":` + run.JS(p) + `}`
	}
	return fmt.Sprintf(`{"ok":%d}`, r)
}

func cmpReq(a, b interface{}) string {
	return `{"op":"cmp","a":` + vj.Enc(a) + `,"b":` + vj.Enc(b) + `}`
}

// exact numeric oracle, independent of bsonkit: kind 0 NaN, 1 -Inf, 2 finite, 3 +Inf.
func exactOf(v interface{}) (int, *big.Rat, bool) {
	switch x := v.(type) {
	case int32:
		return 2, new(big.Rat).SetInt64(int64(x)), true
	case int64:
		return 2, new(big.Rat).SetInt64(x), true
	case float64:
		if math.IsNaN(x) {
			return 0, nil, true
		}
		if math.IsInf(x, 1) {
			return 3, nil, true
		}
		if math.IsInf(x, -1) {
			return 1, nil, true
		}
		return 2, new(big.Rat).SetFloat64(x), true
	case primitive.Decimal128:
		if x.IsNaN() {
			return 0, nil, true
		}
		if x.IsInf() > 0 {
			return 3, nil, true
		}
		if x.IsInf() < 0 {
			return 1, nil, true
		}
		bi, exp, err := x.BigInt()
		if err != nil {
			return 0, nil, false
		}
		q := new(big.Rat).SetInt(bi)
		p := new(big.Int).Exp(big.NewInt(10), big.NewInt(int64(abs(exp))), nil)
		if exp >= 0 {
			q.Mul(q, new(big.Rat).SetInt(p))
		} else {
			q.Quo(q, new(big.Rat).SetInt(p))
		}
		return 2, q, true
	}
	return 0, nil, false
}

func abs(n int) int {
	if n < 0 {
		return -n
	}
	return n
}

func exactCmp(a, b interface{}) (int, bool) {
	ka, qa, ok1 := exactOf(a)
	kb, qb, ok2 := exactOf(b)
	if !ok1 || !ok2 {
		return 0, false
	}
	if ka != kb {
		if ka < kb {
			return -1, true
		}
		return 1, true
	}
	if ka != 2 {
		return 0, true
	}
	return qa.Cmp(qb), true
}

// scalarOrder is an independent statement of the documented order inside the scalar classes other than numbers:
// timestamps by (T, I), dates by their millisecond value, false < true, strings / ObjectIDs bytewise,
// binaries by (length, subtype, bytes).
func scalarOrder(a, b interface{}) (int, bool) {
	sign := func(less, greater bool) int {
		switch {
		case less:
			return -1
		case greater:
			return 1
		}
		return 0
	}
	switch x := a.(type) {
	case primitive.Timestamp:
		if y, ok := b.(primitive.Timestamp); ok {
			if x.T != y.T {
				return sign(x.T < y.T, x.T > y.T), true
			}
			return sign(x.I < y.I, x.I > y.I), true
		}
	case primitive.DateTime:
		if y, ok := b.(primitive.DateTime); ok {
			return sign(x < y, x > y), true
		}
	case bool:
		if y, ok := b.(bool); ok {
			return sign(!x && y, x && !y), true
		}
	case string:
		if y, ok := b.(string); ok {
			return sign(x < y, x > y), true
		}
	case primitive.ObjectID:
		if y, ok := b.(primitive.ObjectID); ok {
			c := bytes.Compare(x[:], y[:])
			return sign(c < 0, c > 0), true
		}
	case primitive.Binary:
		if y, ok := b.(primitive.Binary); ok {
			if len(x.Data) != len(y.Data) {
				return sign(len(x.Data) < len(y.Data), len(x.Data) > len(y.Data)), true
			}
			if x.Subtype != y.Subtype {
				return sign(x.Subtype < y.Subtype, x.Subtype > y.Subtype), true
			}
			c := bytes.Compare(x.Data, y.Data)
			return sign(c < 0, c > 0), true
		}
	}
	return 0, false
}

func typeTag(v interface{}) string {
	switch v.(type) {
	case nil:
		return "null"
	case int32:
		return "i32"
	case int64:
		return "i64"
	case float64:
		return "f64"
	case primitive.Decimal128:
		return "dec"
	case string:
		return "str"
	case bson.D:
		return "doc"
	case bson.A:
		return "arr"
	case primitive.Binary:
		return "bin"
	case primitive.ObjectID:
		return "oid"
	case bool:
		return "bool"
	case primitive.DateTime:
		return "date"
	case primitive.Timestamp:
		return "ts"
	case primitive.Regex:
		return "regex"
	case bsonkit.MissingType:
		return "missing"
	}
	return "other"
}

var classRank = map[string]int{"null": 0, "missing": 0, "i32": 1, "i64": 1, "f64": 1, "dec": 1, "str": 2, "doc": 3, "arr": 4,
	"bin": 5, "oid": 6, "bool": 7, "date": 8, "ts": 9, "regex": 10}

// mutate returns a value close to v (differs late, in length, or equal under Compare).
func mutate(r *gen.R, v interface{}) interface{} {
	switch x := v.(type) {
	case bson.A:
		c := append(bson.A{}, x...)
		switch r.N(4) {
		case 0:
			return append(c, r.Scalar())
		case 1:
			if len(c) > 0 {
				return c[:len(c)-1]
			}
		case 2:
			if len(c) > 0 {
				c[len(c)-1] = mutate(r, c[len(c)-1])
			}
		}
		return c
	case bson.D:
		c := append(bson.D{}, x...)
		switch r.N(4) {
		case 0:
			return append(c, bson.E{Key: gen.Keys[r.N(len(gen.Keys))], Value: r.Scalar()})
		case 1:
			if len(c) > 0 {
				return c[:len(c)-1]
			}
		case 2:
			if len(c) > 0 {
				c[len(c)-1].Value = mutate(r, c[len(c)-1].Value)
			}
		}
		return c
	case int32, int64, float64, primitive.Decimal128:
		if r.P(50) {
			return r.Number()
		}
		return r.SmallNumber()
	case string:
		return gen.Strings[r.N(len(gen.Strings))]
	case primitive.Binary:
		return r.Scalar()
	}
	return r.Scalar()
}

func cmpValue(r *gen.R) interface{} {
	if r.P(4) {
		// the members of the null class: explicit null and the value of an absent field
		if r.P(50) {
			return bsonkit.Missing
		}
		return nil
	}
	switch r.N(10) {
	case 0, 1, 2, 3:
		return r.Number()
	case 4:
		return r.SmallNumber()
	case 5:
		return r.Scalar()
	default:
		return r.Value(3, true)
	}
}

func init() {
	run.Register(&run.Stream{
		Name: "cmp",
		Rule: "triples (a,b,c): numeric edge pool (2^31, 2^53, 2^63 neighbourhoods, non-finite doubles/decimals), nested docs/arrays and late/length mutations of a; " +
			"each triple yields the pairs (a,b),(b,c),(a,c),(b,a); non-trivial = distinct canonical line whose operands are of the same class (comparison passed the class test)",
		Gen: func(r *gen.R, idx int) []run.Case {
			a := cmpValue(r)
			var b, c interface{}
			if r.P(50) {
				b = mutate(r, a)
			} else {
				b = cmpValue(r)
			}
			if r.P(50) {
				c = mutate(r, b)
			} else {
				c = cmpValue(r)
			}
			pairs := [][2]interface{}{{a, b}, {b, c}, {a, c}, {b, a}}
			var cases []run.Case
			for _, p := range pairs {
				ta, tb := typeTag(p[0]), typeTag(p[1])
				same := classRank[ta] == classRank[tb]
				tags := []string{}
				if same {
					tags = append(tags, "same_class")
					if classRank[ta] == 1 {
						if ta != tb {
							tags = append(tags, "numeric_mixed:"+ta+"/"+tb)
						} else {
							tags = append(tags, "numeric_same")
						}
					}
				} else {
					tags = append(tags, "different_class")
				}
				cases = append(cases, run.Case{Req: cmpReq(p[0], p[1]), Impl: cmpReply(p[0], p[1]), Nontrivial: same, Tags: tags})
			}
			// monitors on the implementation's own answers
			var viols []run.Violation
			req := `{"a":` + vj.Enc(a) + `,"b":` + vj.Enc(b) + `,"c":` + vj.Enc(c) + `}`
			add := func(what, witness string) {
				viols = append(viols, run.Violation{Property: "C12", What: what, Witness: witness, Req: req})
			}
			ab, p1 := implCmp(a, b)
			ba, p2 := implCmp(b, a)
			bc, p3 := implCmp(b, c)
			ac, p4 := implCmp(a, c)
			aa, p5 := implCmp(a, a)
			if p1+p2+p3+p4+p5 != "" {
				add("Compare panics", "panic:"+typeTag(a)+","+typeTag(b)+","+typeTag(c))
			} else {
				tt := typeTag(a) + "," + typeTag(b) + "," + typeTag(c)
				if aa != 0 {
					add("not reflexive", "refl:"+typeTag(a))
				}
				if ab != -ba {
					add("not antisymmetric", "antisym:"+typeTag(a)+","+typeTag(b))
				}
				if ab <= 0 && bc <= 0 && ac > 0 || ab >= 0 && bc >= 0 && ac < 0 || (ab == 0 && bc == 0 && ac != 0) {
					add("not transitive", "trans:"+tt)
				}
				if ab == 0 && bc != ac {
					add("equal values not interchangeable", "congr:"+tt)
				}
				ra, rb := classRank[typeTag(a)], classRank[typeTag(b)]
				if ra < rb && ab != -1 || ra > rb && ab != 1 {
					add("class order violated", "rank:"+typeTag(a)+","+typeTag(b))
				}
				if want, ok := scalarOrder(a, b); ok && want != ab {
					add(fmt.Sprintf("order inside the class not as documented: got %d want %d", ab, want), "order:"+typeTag(a))
				}
				if ra == 1 && rb == 1 {
					if want, ok := exactCmp(a, b); ok && want != ab {
						add(fmt.Sprintf("numeric order not exact: got %d want %d", ab, want), "exact:"+typeTag(a)+","+typeTag(b))
					}
				}
			}
			if len(viols) > 0 {
				cases[0].Viols = viols
			}
			return cases
		},
	})
}
