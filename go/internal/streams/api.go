package streams

import (
	"context"
	"encoding/json"
	"errors"
	"fmt"
	"reflect"
	"regexp"
	"sort"
	"strconv"
	"strings"
	"time"

	"go.mongodb.org/mongo-driver/bson"
	"go.mongodb.org/mongo-driver/bson/primitive"
	"go.mongodb.org/mongo-driver/mongo"
	"go.mongodb.org/mongo-driver/mongo/options"

	"github.com/256dpi/lungo"
	"github.com/256dpi/lungo/bsonkit"
	"github.com/256dpi/lungo/mongokit"

	"verifharness/internal/run"
	"verifharness/internal/vj"
)

// Stream "api" (C01, C02, C07, C08, C13, C15, C19, C20): generated call histories through the
// real driver API (lungo.Open on a MemoryStore) against the stateful sequential model
// (lean/Driver/OpsApi.lean). This file: the call representation, its request encoding, the
// execution on the real side with canonical replies, and the canonical dump of engine.Catalog().
// Monitors: api_run.go (runner) and api_index.go (C15 index coherence, C07 would-be collections);
// generators: api_gen.go and api_gen_idx.go (index scenarios).

// apiBulk is one write model of a BulkWrite call.
type apiBulk struct {
	T          string // insertOne replaceOne updateOne updateMany deleteOne deleteMany
	Doc        bson.D
	Q          bson.D
	U          bson.D
	Repl       bson.D
	Upsert     bool
	Filters    []bson.D
	HasFilters bool
}

// apiCall is one driver call with all its arguments.
type apiCall struct {
	M          string
	DB, Coll   string
	Doc        bson.D
	Docs       []bson.D
	Ordered    bool
	Q          bson.D
	U          bson.D
	Repl       bson.D
	Sort       bson.D
	HasSort    bool
	Proj       bson.D
	HasProj    bool
	Skip       int64
	HasSkip    bool
	Limit      int64
	HasLimit   bool
	Upsert     bool
	After      bool
	Filters    []bson.D
	HasFilters bool
	Field      string
	Models     []apiBulk
	Keys       bson.D
	Name       string
	HasName    bool
	Unique     bool
	Partial    bson.D
	HasPartial bool
	TTL        int32
	HasTTL     bool
	Now        int64
}

func encDocList(l []bson.D) string {
	var sb strings.Builder
	sb.WriteByte('[')
	for i, d := range l {
		if i > 0 {
			sb.WriteByte(',')
		}
		sb.WriteString(vj.Enc(d))
	}
	sb.WriteByte(']')
	return sb.String()
}

// expiryNs mirrors IndexView.CreateOne: no option → 0, 0 s → 1 ns, n s → n·10⁹ ns.
func (c *apiCall) expiryNs() int64 {
	if !c.HasTTL {
		return 0
	}
	if c.TTL == 0 {
		return 1
	}
	return int64(c.TTL) * int64(time.Second)
}

// req renders the model request line (field names of Driver.OpsApi.callOf). extra is appended
// verbatim before the closing brace (history key, step).
func (c *apiCall) req(oids []interface{}, extra string) string {
	var sb strings.Builder
	sb.WriteString(`{"op":"api.call","m":` + run.JS(c.M))
	switch c.M {
	case "dropDatabase", "listCollections":
		sb.WriteString(`,"db":` + run.JS(c.DB))
	case "listDatabases", "expire":
	default:
		sb.WriteString(`,"h":[` + run.JS(c.DB) + `,` + run.JS(c.Coll) + `]`)
	}
	opt := func() {
		if c.HasSort {
			sb.WriteString(`,"sort":` + vj.Enc(c.Sort))
		}
		if c.HasProj {
			sb.WriteString(`,"proj":` + vj.Enc(c.Proj))
		}
	}
	filters := func(has bool, fs []bson.D) {
		if has {
			sb.WriteString(`,"filters":` + encDocList(fs))
		}
	}
	switch c.M {
	case "insertOne":
		sb.WriteString(`,"doc":` + vj.Enc(c.Doc))
	case "insertMany":
		sb.WriteString(`,"docs":` + encDocList(c.Docs) + `,"ordered":` + strconv.FormatBool(c.Ordered))
	case "find", "findOne", "count":
		sb.WriteString(`,"q":` + vj.Enc(c.Q))
		if c.M != "count" {
			opt()
		}
		if c.HasSkip {
			sb.WriteString(`,"skip":` + strconv.FormatInt(c.Skip, 10))
		}
		if c.HasLimit && c.M != "findOne" {
			sb.WriteString(`,"limit":` + strconv.FormatInt(c.Limit, 10))
		}
	case "estCount", "listIndexes", "dropAllIndexes", "createCollection", "dropCollection", "dropDatabase":
	case "distinct":
		sb.WriteString(`,"field":` + run.JS(c.Field) + `,"q":` + vj.Enc(c.Q))
	case "updateOne", "updateMany":
		sb.WriteString(`,"q":` + vj.Enc(c.Q) + `,"u":` + vj.Enc(c.U) + `,"upsert":` + strconv.FormatBool(c.Upsert))
		filters(c.HasFilters, c.Filters)
	case "replaceOne":
		sb.WriteString(`,"q":` + vj.Enc(c.Q) + `,"repl":` + vj.Enc(c.Repl) + `,"upsert":` + strconv.FormatBool(c.Upsert))
	case "deleteOne", "deleteMany":
		sb.WriteString(`,"q":` + vj.Enc(c.Q))
	case "findOneAndDelete":
		sb.WriteString(`,"q":` + vj.Enc(c.Q))
		opt()
	case "findOneAndReplace":
		sb.WriteString(`,"q":` + vj.Enc(c.Q) + `,"repl":` + vj.Enc(c.Repl) + `,"upsert":` + strconv.FormatBool(c.Upsert) + `,"after":` + strconv.FormatBool(c.After))
		opt()
	case "findOneAndUpdate":
		sb.WriteString(`,"q":` + vj.Enc(c.Q) + `,"u":` + vj.Enc(c.U) + `,"upsert":` + strconv.FormatBool(c.Upsert) + `,"after":` + strconv.FormatBool(c.After))
		opt()
		filters(c.HasFilters, c.Filters)
	case "bulkWrite":
		sb.WriteString(`,"ordered":` + strconv.FormatBool(c.Ordered) + `,"models":[`)
		for i, m := range c.Models {
			if i > 0 {
				sb.WriteByte(',')
			}
			sb.WriteString(`{"t":` + run.JS(m.T))
			switch m.T {
			case "insertOne":
				sb.WriteString(`,"doc":` + vj.Enc(m.Doc))
			case "replaceOne":
				sb.WriteString(`,"q":` + vj.Enc(m.Q) + `,"repl":` + vj.Enc(m.Repl) + `,"upsert":` + strconv.FormatBool(m.Upsert))
			case "updateOne", "updateMany":
				sb.WriteString(`,"q":` + vj.Enc(m.Q) + `,"u":` + vj.Enc(m.U) + `,"upsert":` + strconv.FormatBool(m.Upsert))
				filters(m.HasFilters, m.Filters)
			default:
				sb.WriteString(`,"q":` + vj.Enc(m.Q))
			}
			sb.WriteByte('}')
		}
		sb.WriteByte(']')
	case "createIndex":
		sb.WriteString(`,"keys":` + vj.Enc(c.Keys) + `,"unique":` + strconv.FormatBool(c.Unique) + `,"expiry":` + strconv.FormatInt(c.expiryNs(), 10))
		if c.HasName {
			sb.WriteString(`,"name":` + run.JS(c.Name))
		}
		if c.HasPartial {
			sb.WriteString(`,"partial":` + vj.Enc(c.Partial))
		}
		if c.HasTTL {
			sb.WriteString(`,"ttl":` + strconv.FormatInt(int64(c.TTL), 10)) // harness-only (replay)
		}
	case "dropIndex":
		sb.WriteString(`,"name":` + run.JS(c.Name))
	case "dropIndexByKey":
		sb.WriteString(`,"key":` + vj.Enc(c.Keys))
	case "listCollections", "listDatabases":
		sb.WriteString(`,"q":` + vj.Enc(c.Q))
	case "expire":
		sb.WriteString(`,"now":` + strconv.FormatInt(c.Now, 10))
	}
	sb.WriteString(`,"oids":[`)
	for i, o := range oids {
		if i > 0 {
			sb.WriteByte(',')
		}
		sb.WriteString(vj.Enc(o))
	}
	sb.WriteString(`]` + extra + `}`)
	return sb.String()
}

// ---- execution on the real driver ----

type apiEnv struct {
	client lungo.IClient
	engine *lungo.Engine
	// lastFind is the decoded result of the most recent successful find (held by the C03 monitor)
	lastFind []bson.D
}

func findOpts(c *apiCall) *options.FindOptions {
	o := options.Find()
	if c.HasSort {
		o.SetSort(c.Sort)
	}
	if c.HasProj {
		o.SetProjection(c.Proj)
	}
	if c.HasSkip {
		o.SetSkip(c.Skip)
	}
	if c.HasLimit {
		o.SetLimit(c.Limit)
	}
	return o
}

func openAPIEnv(store lungo.Store) (*apiEnv, error) {
	if store == nil {
		store = lungo.NewMemoryStore()
	}
	client, engine, err := lungo.Open(nil, lungo.Options{Store: store})
	if err != nil {
		return nil, err
	}
	return &apiEnv{client: client, engine: engine}, nil
}

func errClass(err error) string {
	if lungo.IsUniquenessError(err) {
		return "dup"
	}
	return "err"
}

func errReply(err error) string { return `{"err":"` + errClass(err) + `"}` }

func encVals(vs []interface{}) string {
	var sb strings.Builder
	sb.WriteByte('[')
	for i, v := range vs {
		if i > 0 {
			sb.WriteByte(',')
		}
		sb.WriteString(vj.Enc(v))
	}
	sb.WriteByte(']')
	return sb.String()
}

func toIfaces(fs []bson.D) []interface{} {
	out := make([]interface{}, 0, len(fs))
	for _, f := range fs {
		out = append(out, f)
	}
	return out
}

func singleReply(res lungo.ISingleResult) string {
	var d bson.D
	err := res.Decode(&d)
	if err == mongo.ErrNoDocuments {
		return `{"ok":{"doc":null}}`
	}
	if err != nil {
		return errReply(err)
	}
	return `{"ok":{"doc":` + vj.Enc(d) + `}}`
}

func updateReply(res *mongo.UpdateResult, err error) string {
	if err != nil {
		return errReply(err)
	}
	ups := "null"
	if res.UpsertedCount > 0 || res.UpsertedID != nil {
		ups = vj.Enc(res.UpsertedID)
	}
	return fmt.Sprintf(`{"ok":{"matched":%d,"modified":%d,"upserted":%s}}`, res.MatchedCount, res.ModifiedCount, ups)
}

const unitReply = `{"ok":{"unit":true}}`

func unitOr(err error) string {
	if err != nil {
		return errReply(err)
	}
	return unitReply
}

// exec runs the call on the real driver and returns the canonical reply; a panic is returned
// as reply {"panic":"go"} with its text in panicked.
func (e *apiEnv) exec(c *apiCall) (reply string, panicked string) {
	defer func() {
		if p := recover(); p != nil {
			reply = `{"panic":"go"}`
			panicked = fmt.Sprint(p)
			if panicked == "" {
				panicked = "panic"
			}
		}
	}()
	ctx := context.Background()
	db := e.client.Database(c.DB)
	coll := db.Collection(c.Coll)
	switch c.M {
	case "insertOne":
		res, err := coll.InsertOne(ctx, c.Doc)
		if err != nil {
			return errReply(err), ""
		}
		return `{"ok":{"id":` + vj.Enc(res.InsertedID) + `}}`, ""
	case "insertMany":
		res, err := coll.InsertMany(ctx, toIfaces(c.Docs), options.InsertMany().SetOrdered(c.Ordered))
		if res == nil {
			return errReply(err), ""
		}
		cls := "null"
		if err != nil {
			cls = `"` + errClass(err) + `"`
		}
		return `{"ok":{"err":` + cls + `,"ids":` + encVals(res.InsertedIDs) + `}}`, ""
	case "find":
		e.lastFind = nil
		csr, err := coll.Find(ctx, c.Q, findOpts(c))
		if err != nil {
			return errReply(err), ""
		}
		var out []bson.D
		if err := csr.All(ctx, &out); err != nil {
			return errReply(err), ""
		}
		e.lastFind = out
		return `{"ok":{"docs":` + encDocList(out) + `}}`, ""
	case "findOne":
		o := options.FindOne()
		if c.HasSort {
			o.SetSort(c.Sort)
		}
		if c.HasProj {
			o.SetProjection(c.Proj)
		}
		if c.HasSkip {
			o.SetSkip(c.Skip)
		}
		return singleReply(coll.FindOne(ctx, c.Q, o)), ""
	case "count":
		o := options.Count()
		if c.HasSkip {
			o.SetSkip(c.Skip)
		}
		if c.HasLimit {
			o.SetLimit(c.Limit)
		}
		n, err := coll.CountDocuments(ctx, c.Q, o)
		if err != nil {
			return errReply(err), ""
		}
		return fmt.Sprintf(`{"ok":{"n":%d}}`, n), ""
	case "estCount":
		n, err := coll.EstimatedDocumentCount(ctx)
		if err != nil {
			return errReply(err), ""
		}
		return fmt.Sprintf(`{"ok":{"n":%d}}`, n), ""
	case "distinct":
		vs, err := coll.Distinct(ctx, c.Field, c.Q)
		if err != nil {
			return errReply(err), ""
		}
		return `{"ok":{"vals":` + encVals(vs) + `}}`, ""
	case "updateOne", "updateMany":
		o := options.Update().SetUpsert(c.Upsert)
		if c.HasFilters {
			o.SetArrayFilters(options.ArrayFilters{Filters: toIfaces(c.Filters)})
		}
		if c.M == "updateOne" {
			return updateReply(coll.UpdateOne(ctx, c.Q, c.U, o)), ""
		}
		return updateReply(coll.UpdateMany(ctx, c.Q, c.U, o)), ""
	case "replaceOne":
		return updateReply(coll.ReplaceOne(ctx, c.Q, c.Repl, options.Replace().SetUpsert(c.Upsert))), ""
	case "deleteOne", "deleteMany":
		var res *mongo.DeleteResult
		var err error
		if c.M == "deleteOne" {
			res, err = coll.DeleteOne(ctx, c.Q)
		} else {
			res, err = coll.DeleteMany(ctx, c.Q)
		}
		if err != nil {
			return errReply(err), ""
		}
		return fmt.Sprintf(`{"ok":{"n":%d}}`, res.DeletedCount), ""
	case "findOneAndDelete":
		o := options.FindOneAndDelete()
		if c.HasSort {
			o.SetSort(c.Sort)
		}
		if c.HasProj {
			o.SetProjection(c.Proj)
		}
		return singleReply(coll.FindOneAndDelete(ctx, c.Q, o)), ""
	case "findOneAndReplace":
		o := options.FindOneAndReplace().SetUpsert(c.Upsert)
		if c.After {
			o.SetReturnDocument(options.After)
		}
		if c.HasSort {
			o.SetSort(c.Sort)
		}
		if c.HasProj {
			o.SetProjection(c.Proj)
		}
		return singleReply(coll.FindOneAndReplace(ctx, c.Q, c.Repl, o)), ""
	case "findOneAndUpdate":
		o := options.FindOneAndUpdate().SetUpsert(c.Upsert)
		if c.After {
			o.SetReturnDocument(options.After)
		}
		if c.HasSort {
			o.SetSort(c.Sort)
		}
		if c.HasProj {
			o.SetProjection(c.Proj)
		}
		if c.HasFilters {
			o.SetArrayFilters(options.ArrayFilters{Filters: toIfaces(c.Filters)})
		}
		return singleReply(coll.FindOneAndUpdate(ctx, c.Q, c.U, o)), ""
	case "bulkWrite":
		var models []mongo.WriteModel
		for _, m := range c.Models {
			models = append(models, m.model())
		}
		res, err := coll.BulkWrite(ctx, models, options.BulkWrite().SetOrdered(c.Ordered))
		if res == nil {
			return errReply(err), ""
		}
		return bulkReply(res, err), ""
	case "createIndex":
		o := options.Index()
		any := false
		if c.HasName {
			o.SetName(c.Name)
			any = true
		}
		if c.Unique {
			o.SetUnique(true)
			any = true
		}
		if c.HasPartial {
			o.SetPartialFilterExpression(c.Partial)
			any = true
		}
		if c.HasTTL {
			o.SetExpireAfterSeconds(c.TTL)
			any = true
		}
		im := mongo.IndexModel{Keys: c.Keys}
		if any {
			im.Options = o
		}
		name, err := coll.Indexes().CreateOne(ctx, im)
		if err != nil {
			return errReply(err), ""
		}
		return `{"ok":{"name":` + run.JS(name) + `}}`, ""
	case "dropIndex":
		_, err := coll.Indexes().DropOne(ctx, c.Name)
		return unitOr(err), ""
	case "dropAllIndexes":
		_, err := coll.Indexes().DropAll(ctx)
		return unitOr(err), ""
	case "dropIndexByKey":
		_, err := coll.Indexes().DropOneWithKey(ctx, c.Keys)
		return unitOr(err), ""
	case "listIndexes":
		csr, err := coll.Indexes().List(ctx)
		if err != nil {
			return errReply(err), ""
		}
		var out []bson.D
		if err := csr.All(ctx, &out); err != nil {
			return errReply(err), ""
		}
		return `{"ok":{"docs":` + encDocList(out) + `}}`, ""
	case "createCollection":
		return unitOr(db.CreateCollection(ctx, c.Coll)), ""
	case "dropCollection":
		return unitOr(coll.Drop(ctx)), ""
	case "dropDatabase":
		return unitOr(db.Drop(ctx)), ""
	case "listCollections":
		names, err := db.ListCollectionNames(ctx, c.Q)
		if err != nil {
			return errReply(err), ""
		}
		return namesReply(names), ""
	case "listDatabases":
		names, err := e.client.ListDatabaseNames(ctx, c.Q)
		if err != nil {
			return errReply(err), ""
		}
		return namesReply(names), ""
	case "expire":
		before := totalDocs(e.engine.Catalog())
		txn, err := e.engine.Begin(nil, true)
		if err != nil {
			return errReply(err), ""
		}
		if err := txn.Expire(); err != nil {
			e.engine.Abort(txn)
			return errReply(err), ""
		}
		if err := e.engine.Commit(txn); err != nil {
			return errReply(err), ""
		}
		return fmt.Sprintf(`{"ok":{"n":%d}}`, before-totalDocs(e.engine.Catalog())), ""
	}
	return `{"bad":"unknown method"}`, ""
}

func totalDocs(c *lungo.Catalog) int {
	n := 0
	for h, ns := range c.Namespaces {
		if h != lungo.Oplog {
			n += len(ns.Documents.List)
		}
	}
	return n
}

func namesReply(names []string) string {
	b, _ := json.Marshal(names)
	if names == nil {
		b = []byte("[]")
	}
	return `{"ok":{"names":` + string(b) + `}}`
}

func (m *apiBulk) model() mongo.WriteModel {
	switch m.T {
	case "insertOne":
		return mongo.NewInsertOneModel().SetDocument(m.Doc)
	case "replaceOne":
		return mongo.NewReplaceOneModel().SetFilter(m.Q).SetReplacement(m.Repl).SetUpsert(m.Upsert)
	case "updateOne":
		x := mongo.NewUpdateOneModel().SetFilter(m.Q).SetUpdate(m.U).SetUpsert(m.Upsert)
		if m.HasFilters {
			x.SetArrayFilters(options.ArrayFilters{Filters: toIfaces(m.Filters)})
		}
		return x
	case "updateMany":
		x := mongo.NewUpdateManyModel().SetFilter(m.Q).SetUpdate(m.U).SetUpsert(m.Upsert)
		if m.HasFilters {
			x.SetArrayFilters(options.ArrayFilters{Filters: toIfaces(m.Filters)})
		}
		return x
	case "deleteOne":
		return mongo.NewDeleteOneModel().SetFilter(m.Q)
	default:
		return mongo.NewDeleteManyModel().SetFilter(m.Q)
	}
}

func bulkReply(res *mongo.BulkWriteResult, err error) string {
	var sb strings.Builder
	sb.WriteString(fmt.Sprintf(`{"ok":{"deleted":%d,"errors":[`, res.DeletedCount))
	var wes mongo.WriteErrors
	if err != nil {
		if !errors.As(err, &wes) {
			return errReply(err)
		}
	}
	for i, we := range wes {
		if i > 0 {
			sb.WriteByte(',')
		}
		sb.WriteString(fmt.Sprintf(`[%d,"%s"]`, we.Index, errClass(errors.New(we.Message))))
	}
	sb.WriteString(fmt.Sprintf(`],"inserted":%d,"matched":%d,"modified":%d,"upserted":%d,"upsertedIds":[`,
		res.InsertedCount, res.MatchedCount, res.ModifiedCount, res.UpsertedCount))
	keys := make([]int64, 0, len(res.UpsertedIDs))
	for k := range res.UpsertedIDs {
		keys = append(keys, k)
	}
	sort.Slice(keys, func(i, j int) bool { return keys[i] < keys[j] })
	for i, k := range keys {
		if i > 0 {
			sb.WriteByte(',')
		}
		sb.WriteString(fmt.Sprintf(`[%d,%s]`, k, vj.Enc(res.UpsertedIDs[k])))
	}
	sb.WriteString(`]}}`)
	return sb.String()
}

// ---- canonical dump of the committed catalog ----

func sortedHandles(c *lungo.Catalog) []lungo.Handle {
	hs := make([]lungo.Handle, 0, len(c.Namespaces))
	for h := range c.Namespaces {
		hs = append(hs, h)
	}
	sort.Slice(hs, func(i, j int) bool {
		if hs[i][0] != hs[j][0] {
			return hs[i][0] < hs[j][0]
		}
		return hs[i][1] < hs[j][1]
	})
	return hs
}

// canonEvent replaces the clock-dependent parts of an oplog event: `_id.ts`/clusterTime by the
// ordinal k, wallTime by date 0; removedFields (Go map order) are sorted.
func canonEvent(ev bson.D, k int) bson.D {
	ts := primitive.Timestamp{T: 0, I: uint32(k)}
	out := make(bson.D, 0, len(ev))
	for _, e := range ev {
		switch e.Key {
		case "_id":
			out = append(out, bson.E{Key: "_id", Value: bson.D{{Key: "ts", Value: ts}}})
		case "clusterTime":
			out = append(out, bson.E{Key: "clusterTime", Value: ts})
		case "wallTime":
			out = append(out, bson.E{Key: "wallTime", Value: primitive.DateTime(0)})
		case "updateDescription":
			ud, _ := e.Value.(bson.D)
			nud := make(bson.D, 0, len(ud))
			for _, f := range ud {
				if f.Key == "removedFields" {
					if a, ok := f.Value.(bson.A); ok {
						ss := make([]string, 0, len(a))
						for _, x := range a {
							s, _ := x.(string)
							ss = append(ss, s)
						}
						sort.Strings(ss)
						na := make(bson.A, 0, len(ss))
						for _, s := range ss {
							na = append(na, s)
						}
						nud = append(nud, bson.E{Key: f.Key, Value: na})
						continue
					}
				}
				nud = append(nud, f)
			}
			out = append(out, bson.E{Key: e.Key, Value: nud})
		default:
			out = append(out, e)
		}
	}
	return out
}

// apiDump renders the catalog exactly as Driver.dumpJ renders the model state (keys in
// alphabetical order, as Lean's Json.mkObj prints them).
func apiDump(c *lungo.Catalog) (out string) {
	defer func() {
		if p := recover(); p != nil {
			out = `{"dump-panic":` + run.JS(fmt.Sprint(p)) + `}`
		}
	}()
	var sb strings.Builder
	sb.WriteString(`{"ok":[`)
	for i, h := range sortedHandles(c) {
		if i > 0 {
			sb.WriteByte(',')
		}
		ns := c.Namespaces[h]
		where := make(map[bsonkit.Doc]int, len(ns.Documents.List))
		for j, d := range ns.Documents.List {
			where[d] = j
		}
		sb.WriteString(`{"docs":[`)
		for j, d := range ns.Documents.List {
			if j > 0 {
				sb.WriteByte(',')
			}
			if h == lungo.Oplog {
				sb.WriteString(vj.Enc(canonEvent(*d, j+1)))
			} else {
				sb.WriteString(vj.Enc(*d))
			}
		}
		sb.WriteString(`],"h":[` + run.JS(h[0]) + `,` + run.JS(h[1]) + `],"indexes":[`)
		names := make([]string, 0, len(ns.Indexes))
		for n := range ns.Indexes {
			names = append(names, n)
		}
		sort.Strings(names)
		for j, n := range names {
			if j > 0 {
				sb.WriteByte(',')
			}
			ix := ns.Indexes[n]
			cfg := ix.Config()
			partial := "null"
			if cfg.Partial != nil {
				partial = vj.Enc(*cfg.Partial)
			}
			var pos []int
			for _, d := range ix.List() {
				p, ok := where[d]
				if !ok {
					p = -1
				}
				pos = append(pos, p)
			}
			sort.Ints(pos)
			ps := make([]string, 0, len(pos))
			for _, p := range pos {
				ps = append(ps, strconv.Itoa(p))
			}
			sb.WriteString(`{"expiry":` + strconv.FormatInt(int64(cfg.Expiry), 10) + `,"key":` + vj.Enc(*cfg.Key) +
				`,"members":[` + strings.Join(ps, ",") + `],"name":` + run.JS(n) + `,"partial":` + partial +
				`,"unique":` + strconv.FormatBool(cfg.Unique) + `}`)
		}
		sb.WriteString(`]}`)
	}
	sb.WriteString(`]}`)
	return sb.String()
}

// ---- reply comparison ----

func parseJSON(s string) (interface{}, bool) {
	d := json.NewDecoder(strings.NewReader(s))
	d.UseNumber()
	var v interface{}
	if err := d.Decode(&v); err != nil {
		return nil, false
	}
	return v, true
}

func jsonEqual(a, b string) bool {
	if a == b {
		return true
	}
	a, b = canonNaNs(a), canonNaNs(b)
	if a == b {
		return true
	}
	va, ok1 := parseJSON(a)
	vb, ok2 := parseJSON(b)
	return ok1 && ok2 && reflect.DeepEqual(va, vb)
}

// tagged-JSON document helpers (parsed form {"d":[[k,v]…]})
func tdFields(v interface{}) []interface{} {
	m, ok := v.(map[string]interface{})
	if !ok {
		return nil
	}
	fs, _ := m["d"].([]interface{})
	return fs
}

func tdGet(v interface{}, key string) interface{} {
	for _, f := range tdFields(v) {
		p, _ := f.([]interface{})
		if len(p) == 2 && p[0] == key {
			return p[1]
		}
	}
	return nil
}

func tdSet(v interface{}, key string, val interface{}) {
	for _, f := range tdFields(v) {
		p, _ := f.([]interface{})
		if len(p) == 2 && p[0] == key {
			p[1] = val
		}
	}
}

// normDump parses a dump and removes the order the Go maps decide: consecutive "drop" events
// (dropDatabase walks a map) and consecutive "delete" events (Expire walks a map) are stably
// sorted by namespace; timestamps are renumbered by position.
func normDump(s string) (interface{}, bool) {
	v, ok := parseJSON(canonNaNs(s))
	if !ok {
		return nil, false
	}
	top, _ := v.(map[string]interface{})
	nss, _ := top["ok"].([]interface{})
	for _, n := range nss {
		nm, _ := n.(map[string]interface{})
		h, _ := nm["h"].([]interface{})
		if len(h) != 2 || h[0] != "local" || h[1] != "oplog" {
			continue
		}
		evs, _ := nm["docs"].([]interface{})
		opOf := func(e interface{}) string { s, _ := tdGet(e, "operationType").(string); return s }
		nsOf := func(e interface{}) string {
			ns := tdGet(e, "ns")
			db, _ := tdGet(ns, "db").(string)
			coll, _ := tdGet(ns, "coll").(string)
			return db + "\x00" + coll
		}
		for i := 0; i < len(evs); {
			op := opOf(evs[i])
			j := i + 1
			if op == "drop" || op == "delete" {
				for j < len(evs) && opOf(evs[j]) == op {
					j++
				}
				run := evs[i:j]
				sort.SliceStable(run, func(a, b int) bool { return nsOf(run[a]) < nsOf(run[b]) })
			}
			i = j
		}
		for i, e := range evs {
			ts := map[string]interface{}{"T": []interface{}{json.Number("0"), json.Number(strconv.Itoa(i + 1))}}
			tdSet(e, "clusterTime", ts)
			tdSet(tdGet(e, "_id"), "ts", ts)
		}
	}
	return v, true
}

func dumpEqual(a, b string) bool {
	if a == b {
		return true
	}
	va, ok1 := normDump(a)
	vb, ok2 := normDump(b)
	return ok1 && ok2 && reflect.DeepEqual(va, vb)
}

// dumpDiff describes the first difference of two dumps (for replay output).
func dumpDiff(impl, mod string) string {
	va, ok1 := normDump(impl)
	vb, ok2 := normDump(mod)
	if !ok1 || !ok2 {
		return "unparsable dump: impl " + clip(impl, 300) + " model " + clip(mod, 300)
	}
	js := func(v interface{}) string { b, _ := json.Marshal(v); return clip(string(b), 700) }
	la, _ := va.(map[string]interface{})["ok"].([]interface{})
	lb, _ := vb.(map[string]interface{})["ok"].([]interface{})
	byH := func(l []interface{}) map[string]map[string]interface{} {
		m := map[string]map[string]interface{}{}
		for _, n := range l {
			nm, _ := n.(map[string]interface{})
			m[js(nm["h"])] = nm
		}
		return m
	}
	ma, mb := byH(la), byH(lb)
	var out []string
	for h, na := range ma {
		nb, ok := mb[h]
		if !ok {
			out = append(out, "namespace "+h+" only in impl: "+js(na))
			continue
		}
		for _, part := range []string{"docs", "indexes"} {
			xa, _ := na[part].([]interface{})
			xb, _ := nb[part].([]interface{})
			for i := 0; i < len(xa) || i < len(xb); i++ {
				var ea, eb interface{} = "<none>", "<none>"
				if i < len(xa) {
					ea = xa[i]
				}
				if i < len(xb) {
					eb = xb[i]
				}
				if !reflect.DeepEqual(ea, eb) {
					out = append(out, fmt.Sprintf("%s %s[%d]: impl %s | model %s", h, part, i, js(ea), js(eb)))
					break
				}
			}
		}
	}
	for h, nb := range mb {
		if _, ok := ma[h]; !ok {
			out = append(out, "namespace "+h+" only in model: "+js(nb))
		}
	}
	sort.Strings(out)
	return strings.Join(out, "\n    ")
}

// distinctEqual compares two {"ok":{"vals":[…]}} replies position by position modulo
// bsonkit.Compare = 0 (Distinct keeps an unspecified representative of equal values).
func distinctEqual(a, b string) bool {
	vals := func(s string) (bson.A, bool) {
		v, ok := parseJSON(s)
		if !ok {
			return nil, false
		}
		m, _ := v.(map[string]interface{})
		o, _ := m["ok"].(map[string]interface{})
		raw, ok := o["vals"]
		if !ok {
			return nil, false
		}
		x, err := vj.FromRaw(raw)
		if err != nil {
			return nil, false
		}
		arr, ok := x.(bson.A)
		return arr, ok
	}
	va, ok1 := vals(a)
	vb, ok2 := vals(b)
	if !ok1 || !ok2 || len(va) != len(vb) {
		return false
	}
	for i := range va {
		if bsonkit.Compare(va[i], vb[i]) != 0 {
			return false
		}
	}
	return true
}

// histState is shared by the cases of one history: after an unmodelled step or the first
// disagreement the model state is no longer comparable and later cases are accepted.
// histState carries what the comparison of one history needs. errClassLoose is set for histories that create an index
// whose partial filter cannot be evaluated (unknown operator): mongokit.Collection visits its indexes in Go map order, so
// WHICH rejection is reported (duplicate key vs. filter error) for a document that two indexes reject for different
// reasons is not deterministic in the implementation; both are rejections, and only the class of the error differs.
type histState struct {
	poisoned      bool
	errClassLoose bool
}

// hasUnknownOperator reports whether a filter document uses an operator the matcher does not know.
func hasUnknownOperator(v interface{}) bool {
	switch x := v.(type) {
	case bson.D:
		for _, e := range x {
			if strings.HasPrefix(e.Key, "$") && mongokit.TopLevelQueryOperators[e.Key] == nil && mongokit.ExpressionQueryOperators[e.Key] == nil {
				return true
			}
			if hasUnknownOperator(e.Value) {
				return true
			}
		}
	case bson.A:
		for _, e := range x {
			if hasUnknownOperator(e) {
				return true
			}
		}
	}
	return false
}

// looseErrClass decides errClassLoose for a history.
func looseErrClass(steps []apiStep) bool {
	for _, st := range steps {
		if st.call != nil && st.call.Partial != nil && hasUnknownOperator(st.call.Partial) {
			return true
		}
	}
	return false
}

func (h *histState) accept(impl string, kind string) func(string) bool {
	return func(m string) bool {
		if h.poisoned {
			return true
		}
		if strings.Contains(m, `"unmodelled`) {
			h.poisoned = true
			return true
		}
		ok := false
		switch {
		case kind == "dump":
			ok = dumpEqual(impl, m)
		case strings.HasPrefix(impl, `{"panic"`):
			ok = strings.HasPrefix(m, `{"panic"`)
		default:
			ok = jsonEqual(impl, m) || (kind == "distinct" && distinctEqual(impl, m))
			if !ok && h.errClassLoose {
				// compare with the error CLASS erased (also inside insertMany / bulkWrite replies)
				loose := func(s string) string { return strings.ReplaceAll(s, `"dup"`, `"err"`) }
				ok = jsonEqual(loose(impl), loose(m))
			}
		}
		if !ok {
			h.poisoned = true
		}
		return ok
	}
}

var oidRe = regexp.MustCompile(`\{"o":"([0-9a-f]{24})"\}`)

var poolOids = map[primitive.ObjectID]bool{
	{0, 0, 0, 0, 0, 0, 0, 0, 0, 0, 0, 1}: true, {0, 0, 0, 0, 0, 0, 0, 0, 0, 0, 0, 2}: true, {1, 0, 0, 0, 0, 0, 0, 0, 0, 0, 0, 0}: true,
}

// dummyOid is the spare generated id handed to the model after the observed ones: a failing
// insert peeks at it without consuming it (Txn.insert/bulk keep ν on failure).
var dummyOid = primitive.ObjectID{0xff, 0xff, 0xff, 0xff, 0xff, 0xff, 0xff, 0xff, 0xff, 0xff, 0xff, 0xff}

// isPoolOid reports whether the ObjectID is one of the generator's fixed ids.
func isPoolOid(o primitive.ObjectID) bool { return poolOids[o] }

// canonGenOids renames every non-pool ObjectID by order of first appearance.
func canonGenOids(s string) string {
	seen := map[string]int{}
	return oidRe.ReplaceAllStringFunc(s, func(m string) string {
		hex := m[6:30]
		o, err := primitive.ObjectIDFromHex(hex)
		if err != nil || isPoolOid(o) {
			return m
		}
		k, ok := seen[hex]
		if !ok {
			k = len(seen) + 1
			seen[hex] = k
		}
		return fmt.Sprintf(`{"o":"gen%d"}`, k)
	})
}
