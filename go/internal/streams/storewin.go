package streams

// storewin.go — stream "storewin" (C05, also C04): the store-window scenarios of stream "sched"
// only.  A writer is parked inside the store write of its commit (pseudo points store.enter /
// store.exit of the fault-injecting Store wrapper), or its store fails / panics, while readers
// (find, Engine.Catalog()) and other writers run; half of the scenarios use a real lungo.FileStore
// on a temp file, which is loaded again at the end.  Monitors (sched.CheckPersistence, Property
// "C05"): visible-before-persisted, failed-commit-visible, reload-differs; the C04 history checker,
// the C16 monitors and the model validation run as in "sched".

import (
	"verifharness/internal/gen"
	"verifharness/internal/run"
	"verifharness/internal/sched"
)

func init() {
	run.Register(&run.Stream{
		Name:   "storewin",
		Rule:   "nontrivial = another actor ran while a writer was parked between commit.store and commit.published, or a store failure/panic was injected",
		Gen:    storewinGen,
		Corpus: storewinCorpus,
		Replay: schedReplay,
	})
}

func storewinGen(r *gen.R, idx int) []run.Case {
	sc := genScenarioKind(r, "store")
	// genScenarioKind draws its own fault switches; make store faults frequent here
	sc.AllowStore = r.P(60)
	sc.FileStore = r.P(50)
	return []run.Case{schedCase(sc, directedFor(r, sc))}
}

func storewinCorpus() []run.Case {
	var out []run.Case
	scs, directed := corpusScenarios()
	for i, sc := range scs {
		if sc.Kind != "store" {
			continue
		}
		r := gen.New(79, 0, uint64(i))
		var ch sched.Chooser = &sched.Rand{Next: r.N, Stay: 30, Flt: 30}
		if d, ok := directed[i]; ok {
			ch = &sched.Directed{Steps: d, Then: &sched.Rand{Next: r.N, Stay: 90}}
		}
		out = append(out, schedCase(sc, ch))
	}
	return out
}
