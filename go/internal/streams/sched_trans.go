package streams

import (
	"encoding/json"
	"fmt"
	"strings"

	"verifharness/internal/model"
	"verifharness/internal/sched"
)

// ---- model tracker: an incremental view of the Lean transition system through `sched.enabled` ----

type mActor struct {
	Pc  string `json:"pc"`
	K   string `json:"k"`
	Res string `json:"res"`
	Ok  bool   `json:"ok"`
}

type mDigest struct {
	Alive  bool     `json:"alive"`
	Mutex  *int     `json:"mutex"`
	Token  int      `json:"token"`
	Txn    *int     `json:"txn"`
	Actors []mActor `json:"actors"`
	Sess   []struct {
		Txn      *int `json:"txn"`
		Starting bool `json:"starting"`
		Ended    bool `json:"ended"`
		Mutex    *int `json:"mutex"`
	} `json:"sess"`
	RelPanic bool `json:"relPanic"`
	Commits  int  `json:"commits"`
}

type tracker struct {
	p       *model.Proc
	n       int
	steps   []string // JSON schedule items committed so far
	dig     mDigest
	enabled map[int]map[string]bool
	queries int
	err     error
}

func newTracker(p *model.Proc, n int) *tracker {
	t := &tracker{p: p, n: n}
	t.refresh()
	return t
}

func (t *tracker) refresh() {
	req := fmt.Sprintf(`{"op":"sched.enabled","n":%d,"schedule":[%s]}`, t.n, strings.Join(t.steps, ","))
	t.queries++
	rep, err := t.p.Ask(req)
	if err != nil {
		t.err = err
		return
	}
	var r struct {
		Ok struct {
			Digest  mDigest           `json:"digest"`
			Enabled []json.RawMessage `json:"enabled"`
		} `json:"ok"`
		Bad string `json:"bad"`
	}
	if e := json.Unmarshal([]byte(rep), &r); e != nil {
		t.err = fmt.Errorf("model reply: %v: %.200s", e, rep)
		return
	}
	if len(r.Ok.Digest.Actors) == 0 {
		t.err = fmt.Errorf("model reply without digest: %.200s", rep)
		return
	}
	t.dig = r.Ok.Digest
	t.enabled = map[int]map[string]bool{}
	for _, raw := range r.Ok.Enabled {
		var pair []json.RawMessage
		if json.Unmarshal(raw, &pair) != nil || len(pair) != 2 {
			continue
		}
		var a int
		var cs []string
		_ = json.Unmarshal(pair[0], &a)
		_ = json.Unmarshal(pair[1], &cs)
		m := map[string]bool{}
		for _, c := range cs {
			m[c] = true
		}
		t.enabled[a] = m
	}
}

func (t *tracker) pc(a int) string {
	if a < len(t.dig.Actors) {
		return t.dig.Actors[a].Pc
	}
	return "?"
}

func (t *tracker) can(a int, choice string) bool { return t.enabled[a][choice] }

// commit appends a non-call step that is known to be enabled.
func (t *tracker) commit(a int, choice string) {
	t.steps = append(t.steps, fmt.Sprintf(`[%d,%q]`, a, choice))
	t.refresh()
}

// call issues a call step; it reports false (and leaves the state unchanged) if the model refuses.
func (t *tracker) call(a int, callJSON string) bool {
	before := t.pc(a)
	t.steps = append(t.steps, fmt.Sprintf(`[%d,%s]`, a, callJSON))
	t.refresh()
	if t.pc(a) == before && before == "idle" {
		t.steps = t.steps[:len(t.steps)-1]
		t.refresh()
		return false
	}
	return true
}

func callJSON(ci sched.CallInfo) string {
	switch ci.Call {
	case "useTx":
		s := "null"
		if ci.Sess != 0 {
			s = fmt.Sprint(ci.Sess)
		}
		return fmt.Sprintf(`{"call":"useTx","lock":%v,"sess":%s}`, ci.Lock, s)
	case "begin":
		return fmt.Sprintf(`{"call":"begin","lock":%v}`, ci.Lock)
	case "commit", "abort", "close":
		return fmt.Sprintf(`{"call":%q}`, ci.Call)
	case "sessStart", "sessCommit", "sessAbort", "sessEnd":
		return fmt.Sprintf(`{"call":%q,"sid":%d}`, ci.Call, ci.Sess)
	case "crit":
		return fmt.Sprintf(`{"call":"crit","kind":%q}`, ci.Crit)
	}
	return ""
}

// ---- translation of a recorded trace into a model schedule ----

// expectation attached to a position of the final schedule
type schedProbe struct {
	Idx   int    `json:"i"` // index into the schedule
	Actor int    `json:"a"`
	Want  bool   `json:"-"`
	Why   string `json:"why"`
}

type obsCheck struct {
	After int  `json:"after"` // number of schedule steps executed before the observation
	Alive bool `json:"alive"`
	Txn   bool `json:"txn"`
	Token int  `json:"token"`
	Mutex bool `json:"mutex"`
}

type resCheck struct {
	After int    `json:"after"`
	Actor int    `json:"a"`
	Cls   string `json:"cls"`
}

// translation is the result of mapping a trace to the model.
type translation struct {
	N         int
	Steps     []string     // schedule items (JSON), including probes
	Scripts   [][]string   // per client actor: the calls it issued (JSON)
	Probes    []schedProbe // steps that must be DISABLED in the model
	Obs       []obsCheck
	Res       []resCheck
	Diverged  string // non-empty: the translation stopped; the offending step is the last schedule item
	DivPc     string
	BeginOrd  bool // divergence is the tolerated begin-order difference
	Queries   int
	Unmodeled int   // calls outside the model vocabulary
	At        []int // trace index at which each step was placed (debugging)
}

type trState struct {
	t        *tracker
	tr       *translation
	trace    []sched.Record
	byActor  map[int][]int // indices into trace of the actor's event/ret/call records
	pos      int           // current index in trace
	pending  map[int]bool
	ctxDead  map[int]bool
	store    map[int]string         // outcome of the actor's pending Store call
	curCall  map[int]sched.CallInfo // top-level call info (for implied sub-calls)
	inModel  map[int]bool           // the actor's current (sub)call exists in the model
	shared   bool
	nProbes  int
	critDone map[int]int // actor → Seq+1 of the next.oplog record whose section was already issued
}

func (s *trState) diverge(a int, why string) {
	if s.tr.Diverged != "" {
		return
	}
	pc := s.t.pc(a)
	s.tr.Diverged = fmt.Sprintf("trace #%d actor %d at model pc %s: %s", s.pos, a, pc, why)
	s.tr.DivPc = pc
	s.markBeginOrder()
}

// markBeginOrder: in a scenario that shares a session, a divergence while some model actor sits in
// the OLD position of Begin's session read (holding e.mutex, at bSessLock/bSessRead) is the known
// difference between the fixed code and a model with the old step order.
func (s *trState) markBeginOrder() {
	if !s.shared {
		return
	}
	for i, a := range s.t.dig.Actors {
		// the signature of the old order: an actor at the session read that HOLDS e.mutex
		if (a.Pc == "bSessLock" || a.Pc == "bSessRead") && s.t.dig.Mutex != nil && *s.t.dig.Mutex == i {
			s.tr.BeginOrd = true
		}
	}
}

// nextRec finds the next event/ret record of actor a after trace index from (events of unmodelled
// points are skipped).
func (s *trState) nextRec(a, from int) *sched.Record {
	for _, i := range s.byActor[a] {
		if i <= from {
			continue
		}
		r := &s.trace[i]
		switch r.Kind {
		case "event":
			if rule, ok := hookMap[r.Point]; ok && rule.Target != nil {
				return r
			}
		case "ret", "call":
			return r
		}
	}
	return nil
}

// lookahead helpers for the choice at uCb: what does the actor do after its callback?
func (s *trState) cbChoiceOwn(a int) string {
	sawCommit := false
	for _, i := range s.byActor[a] {
		if i <= s.pos {
			continue
		}
		r := &s.trace[i]
		if r.Kind == "ret" {
			if r.Res != nil && r.Res.Cls == "panic" && !sawCommit {
				return "cbPanic"
			}
			break
		}
		if r.Kind != "event" {
			continue
		}
		switch r.Point {
		case "commit.locked":
			sawCommit = true
		case "commit.store":
			return "cbWrite"
		case "commit.return":
			if sawCommit {
				return "cbNoop"
			}
		case "abort.locked":
			if !sawCommit {
				// error or panic: decided by the result
				for _, j := range s.byActor[a] {
					if j > i && s.trace[j].Kind == "ret" {
						if s.trace[j].Res != nil && s.trace[j].Res.Cls == "panic" {
							return "cbPanic"
						}
						return "cbErr"
					}
				}
				return "cbErr"
			}
		}
	}
	if sawCommit {
		return "cbNoop"
	}
	return "cbErr"
}

func (s *trState) cbChoiceRet(a int, read bool) string {
	for _, i := range s.byActor[a] {
		if i <= s.pos {
			continue
		}
		r := &s.trace[i]
		if r.Kind == "ret" && r.Res != nil {
			switch {
			case r.Res.Cls == "panic":
				return "cbPanic"
			case r.Res.Cls == "dup", r.Res.Cls == "nodoc":
				return "cbNoop" // write error inside the result, the callback itself succeeded
			case r.Res.Cls != "ok":
				return "cbErr"
			case r.Res.Wrote && !read:
				return "cbWrite"
			}
			return "cbNoop"
		}
	}
	return "cbNoop"
}

// choices returns the candidate labels for the step of actor a out of pc (first enabled wins).
func (s *trState) choices(a int, pc string, ev *sched.Record) []string {
	switch pc {
	case "bAcquire":
		ok := true
		if ev != nil && len(ev.Args) == 1 {
			if b, isB := ev.Args[0].(bool); isB {
				ok = b
			}
		}
		if ok {
			return []string{"tok"}
		}
		var cs []string
		if s.ctxDead[a] {
			cs = append(cs, "cancel")
		}
		return append(cs, "dying", "timeout")
	case "cStore":
		if c := s.store[a]; c != "" {
			return []string{c}
		}
		return []string{"storeOk"}
	case "uCb":
		return []string{s.cbChoiceOwn(a)}
	case "uCbSess":
		return []string{s.cbChoiceRet(a, false)}
	case "uCbRead":
		return []string{s.cbChoiceRet(a, true)}
	}
	return []string{"go"}
}

func inSet(x string, xs []string) bool {
	for _, y := range xs {
		if x == y {
			return true
		}
	}
	return false
}

// stepOnce tries to take one step of actor a out of its current pc; it reports whether a step was committed.
func (s *trState) stepOnce(a int, ev *sched.Record) bool {
	pc := s.t.pc(a)
	for _, c := range s.choices(a, pc, ev) {
		if s.t.can(a, c) {
			s.t.commit(a, c)
			s.tr.Steps = append(s.tr.Steps, fmt.Sprintf(`[%d,%q]`, a, c))
			return true
		}
	}
	// Engine.Close waits for the expiry goroutine, which leaves its select once the tomb is dying
	if pc == "clWait" && s.t.pc(0) == "xWait" && s.t.can(0, "dying") {
		s.t.commit(0, "dying")
		s.tr.Steps = append(s.tr.Steps, `[0,"dying"]`)
		return true
	}
	return false
}

// settle advances actor a eagerly (everything but observed acquisitions) towards its next record.
func (s *trState) settle(a int) bool {
	progressed := false
	for iter := 0; iter < 24 && s.tr.Diverged == "" && s.t.err == nil; iter++ {
		pc := s.t.pc(a)
		goal := s.nextRec(a, s.pos)
		if goal == nil {
			break
		}
		if pc == "idle" {
			// a silent e.mutex section (stream.oplog()) lies between the actor's release and the hook
			// that reports it: issue it as early as the model allows
			if goal.Kind == "event" && hookMap[goal.Point].Implied == "crit:read" && s.critDone[a] != goal.Seq+1 {
				if !s.issue(a, impliedCall("crit:read", s.curCall[a])) {
					break
				}
				s.critDone[a] = goal.Seq + 1
				progressed = true
				continue
			}
			break
		}
		var target []string
		switch goal.Kind {
		case "event":
			target = hookMap[goal.Point].Target
		case "ret":
			target = []string{"idle"}
		case "call":
			target = []string{"idle"}
		}
		if inSet(pc, target) {
			break
		}
		if hookedAcq[pc] {
			break
		}
		if pc == "kLock" && goal.Kind == "event" && goal.Point == "watch.locked" {
			break
		}
		if !s.stepOnce(a, goal) {
			s.pending[a] = true
			return progressed
		}
		progressed = true
	}
	delete(s.pending, a)
	return progressed
}

// settleAll retries the pending eager steps of every actor until nothing moves.
func (s *trState) settleAll(first int) {
	if first > 0 {
		s.settle(first)
	}
	for round := 0; round < 8; round++ {
		moved := false
		for a := 1; a <= s.tr.N; a++ {
			if s.pending[a] && s.settle(a) {
				moved = true
			}
		}
		if !moved {
			return
		}
	}
}

// advance brings actor a to one of the target pcs, taking acquisitions too (event time).
func (s *trState) advance(a int, target []string, ev *sched.Record) bool {
	for iter := 0; iter < 24; iter++ {
		if s.t.err != nil {
			return false
		}
		pc := s.t.pc(a)
		if inSet(pc, target) {
			delete(s.pending, a)
			return true
		}
		if pc == "idle" {
			return false
		}
		if !s.stepOnce(a, ev) {
			// report the refused step in the schedule so that the model's reply shows it
			c := s.choices(a, pc, ev)[0]
			s.tr.Steps = append(s.tr.Steps, fmt.Sprintf(`[%d,%q]`, a, c))
			return false
		}
	}
	return false
}

func (s *trState) issue(a int, ci sched.CallInfo) bool {
	cj := callJSON(ci)
	if cj == "" {
		return false
	}
	if !s.t.call(a, cj) {
		s.tr.Steps = append(s.tr.Steps, fmt.Sprintf(`[%d,%s]`, a, cj))
		return false
	}
	s.tr.Steps = append(s.tr.Steps, fmt.Sprintf(`[%d,%s]`, a, cj))
	s.tr.Scripts[a-1] = append(s.tr.Scripts[a-1], cj)
	s.inModel[a] = true
	return true
}

func impliedCall(implied string, top sched.CallInfo) sched.CallInfo {
	if strings.HasPrefix(implied, "crit:") {
		return sched.CallInfo{Call: "crit", Crit: implied[5:]}
	}
	return sched.CallInfo{Call: implied, Sess: top.Sess}
}

// translate maps the trace of an outcome to a model schedule, validating it step by step.
func translate(p *model.Proc, o *sched.Outcome) *translation {
	tr := &translation{N: o.N, Scripts: make([][]string, o.N)}
	s := &trState{t: newTracker(p, o.N), tr: tr, trace: o.Trace, byActor: map[int][]int{}, pending: map[int]bool{},
		ctxDead: map[int]bool{}, store: map[int]string{}, curCall: map[int]sched.CallInfo{}, inModel: map[int]bool{},
		shared: o.Sc.Shared, critDone: map[int]int{}}
	for i, r := range o.Trace {
		if r.Actor > 0 && (r.Kind == "event" || r.Kind == "ret" || r.Kind == "call") {
			s.byActor[r.Actor] = append(s.byActor[r.Actor], i)
		}
	}
	for i := range o.Trace {
		for len(tr.At) < len(tr.Steps) {
			tr.At = append(tr.At, i-1)
		}
		if tr.Diverged != "" || s.t.err != nil {
			break
		}
		s.pos = i
		r := &o.Trace[i]
		a := r.Actor
		switch r.Kind {
		case "call":
			ci, _ := r.Call.(sched.CallInfo)
			// finish an implied sub-call that is still on its way back
			if s.t.pc(a) != "idle" {
				if !s.advance(a, []string{"idle"}, nil) {
					s.diverge(a, "previous call cannot finish before the next one is issued")
					break
				}
			}
			if r.Op < len(o.Sc.Actors[a-1]) {
				op := o.Sc.Actors[a-1][r.Op]
				s.ctxDead[a] = op.Fault == "precancel"
			}
			if !ci.Sub {
				s.curCall[a] = ci
			}
			if ci.Call == "none" || ci.Call == "" {
				s.inModel[a] = false
				tr.Unmodeled++
				break
			}
			if !s.issue(a, ci) {
				s.diverge(a, "model refuses call "+callJSON(ci))
				break
			}
			s.settleAll(a)
		case "release":
			if r.Fault == "storeFail" || r.Fault == "storePanic" {
				s.store[a] = r.Fault
			} else if r.Point == "commit.store" {
				s.store[a] = "storeOk"
			}
			s.settleAll(a)
		case "cancel":
			s.ctxDead[a] = true
		case "event":
			rule, ok := hookMap[r.Point]
			if !ok || rule.Target == nil {
				break
			}
			if r.Point == "next.oplog" && s.critDone[a] == r.Seq+1 {
				// the section was placed eagerly; it must be over by now
				if s.t.pc(a) != "idle" && !s.advanceCrit(a) {
					s.diverge(a, "stream.oplog() section not enabled")
				}
				s.settleAll(0)
				break
			}
			if s.t.pc(a) == "idle" {
				if rule.Implied == "" {
					if r.Point == "close.return" {
						break
					}
					s.diverge(a, "hook "+r.Point+" fired while the model actor is idle")
					break
				}
				if !s.issue(a, impliedCall(rule.Implied, s.curCall[a])) {
					s.diverge(a, "model refuses implied call "+rule.Implied)
					break
				}
				if r.Point == "next.oplog" {
					// the section is over when the hook fires: lock, body
					if !s.advanceCrit(a) {
						s.diverge(a, "stream.oplog() section not enabled")
					}
					s.settleAll(0)
					break
				}
			} else if rule.Implied != "" && !inSet(s.t.pc(a), rule.Target) && (s.t.pc(a) == "after") {
				// a sub-call follows directly (deferred AbortTransaction after CommitTransaction)
				if !s.advance(a, []string{"idle"}, nil) {
					s.diverge(a, "sub-call cannot finish")
					break
				}
				if !s.issue(a, impliedCall(rule.Implied, s.curCall[a])) {
					s.diverge(a, "model refuses implied call "+rule.Implied)
					break
				}
			}
			if !s.advance(a, rule.Target, r) {
				s.diverge(a, "hook "+r.Point+fmt.Sprint(r.Args)+" not reachable/enabled in the model")
				break
			}
			if !r.Parked {
				// pass-through point: the actor keeps running
				s.settleAll(a)
			} else {
				s.settleAll(0)
			}
		case "ret":
			if s.t.pc(a) != "idle" {
				if !s.advance(a, []string{"idle"}, r) {
					s.diverge(a, "call returned but the model actor cannot finish")
					break
				}
			}
			if r.Final && s.inModel[a] && r.Res != nil && s.curCall[a].Op != "wtx" && s.curCall[a].Op != "usess" && s.curCall[a].Call != "crit" && a < len(s.t.dig.Actors) && resComparable(r.Res.Cls) {
				got := modelRes(s.t.dig.Actors[a].Res)
				tr.Res = append(tr.Res, resCheck{After: len(tr.Steps), Actor: a, Cls: implRes(r.Res.Cls)})
				if got != implRes(r.Res.Cls) {
					s.diverge(a, fmt.Sprintf("call result differs: impl %s model %s", implRes(r.Res.Cls), got))
					break
				}
			}
			if r.Final {
				s.inModel[a] = false
				s.curCall[a] = sched.CallInfo{}
			}
			s.settleAll(0)
		case "blocked", "stall":
			if r.Kind == "stall" {
				break
			}
			pc := s.t.pc(a)
			if pc == "idle" {
				break
			}
			c := s.choices(a, pc, nil)[0]
			if pc == "bAcquire" {
				c = "tok"
			}
			tr.Probes = append(tr.Probes, schedProbe{Idx: len(tr.Steps), Actor: a, Why: "blocked at " + r.Site + " / model pc " + pc})
			tr.Steps = append(tr.Steps, fmt.Sprintf(`[%d,%q]`, a, c))
			if s.t.can(a, c) {
				s.diverge(a, "the code is blocked ("+r.Site+") where the model's step "+c+" is enabled")
			}
			if pc == "bAcquire" && tr.Diverged == "" && s.t.can(a, "dying") {
				// the engine is closed: a token waiter must leave its wait (whatever context it has)
				tr.Probes = append(tr.Probes, schedProbe{Idx: len(tr.Steps), Actor: a, Why: "still queued for the token after Close / model: dying enabled"})
				tr.Steps = append(tr.Steps, fmt.Sprintf(`[%d,"dying"]`, a))
				s.diverge(a, "the code is still queued for the token where the model's step dying is enabled (engine closed)")
			}
		case "quiesce":
			if r.Obs == nil {
				break
			}
			d := &s.t.dig
			oc := obsCheck{After: len(tr.Steps), Alive: r.Obs.Alive, Txn: r.Obs.HasTx, Token: r.Obs.Token, Mutex: r.Obs.Mutex}
			tr.Obs = append(tr.Obs, oc)
			if d.Alive != oc.Alive || (d.Txn != nil) != oc.Txn || d.Token != oc.Token || (d.Mutex != nil) != oc.Mutex {
				s.divergeObs(fmt.Sprintf("observed alive=%v txn=%v token=%d mutex=%v, model alive=%v txn=%v token=%d mutex=%v",
					oc.Alive, oc.Txn, oc.Token, oc.Mutex, d.Alive, d.Txn != nil, d.Token, d.Mutex != nil))
			}
		}
	}
	if s.t.err != nil && tr.Diverged == "" {
		tr.Diverged = "model process: " + s.t.err.Error()
	}
	tr.Queries = s.t.queries
	return tr
}

func (s *trState) divergeObs(why string) {
	if s.tr.Diverged == "" {
		s.tr.Diverged = fmt.Sprintf("trace #%d: %s", s.pos, why)
		s.tr.DivPc = "obs"
		s.markBeginOrder()
	}
}

// advanceCrit runs a short e.mutex section (kLock, kBody) to completion.
func (s *trState) advanceCrit(a int) bool {
	return s.advance(a, []string{"idle"}, nil)
}

// request renders the final sched.run request line.
func (tr *translation) request() string {
	var scripts []string
	for _, sc := range tr.Scripts {
		scripts = append(scripts, "["+strings.Join(sc, ",")+"]")
	}
	return fmt.Sprintf(`{"op":"sched.run","n":%d,"actors":[%s],"schedule":[%s]}`, tr.N, strings.Join(scripts, ","), strings.Join(tr.Steps, ","))
}

// impl renders the implementation-side expectation (what the model's reply is checked against).
func (tr *translation) impl() string {
	b, _ := json.Marshal(map[string]interface{}{
		"steps": len(tr.Steps), "disabled": tr.Probes, "obs": len(tr.Obs), "results": tr.Res, "diverged": tr.Diverged,
	})
	return string(b)
}

// accept checks a sched.run reply against the translation: every step enabled except the probes,
// digests equal to the observed flags, call results equal.
func (tr *translation) accept(reply string) bool {
	if tr.Diverged != "" {
		return false
	}
	var r struct {
		Ok struct {
			Steps []struct {
				Enabled   bool    `json:"enabled"`
				OffScript bool    `json:"offScript"`
				Digest    mDigest `json:"digest"`
			} `json:"steps"`
		} `json:"ok"`
	}
	if json.Unmarshal([]byte(reply), &r) != nil || len(r.Ok.Steps) != len(tr.Steps) {
		return false
	}
	want := make([]bool, len(tr.Steps))
	for i := range want {
		want[i] = true
	}
	for _, p := range tr.Probes {
		if p.Idx < len(want) {
			want[p.Idx] = false
		}
	}
	for i, st := range r.Ok.Steps {
		if st.Enabled != want[i] || st.OffScript {
			return false
		}
	}
	for _, oc := range tr.Obs {
		if oc.After == 0 || oc.After > len(r.Ok.Steps) {
			continue
		}
		d := r.Ok.Steps[oc.After-1].Digest
		if d.Alive != oc.Alive || (d.Txn != nil) != oc.Txn || d.Token != oc.Token || (d.Mutex != nil) != oc.Mutex {
			return false
		}
		if d.RelPanic {
			return false
		}
	}
	for _, rc := range tr.Res {
		if rc.After == 0 || rc.After > len(r.Ok.Steps) {
			continue
		}
		d := r.Ok.Steps[rc.After-1].Digest
		if rc.Actor < len(d.Actors) && modelRes(d.Actors[rc.Actor].Res) != rc.Cls {
			return false
		}
	}
	return true
}
