package streams

import (
	"bytes"
	"context"
	"fmt"
	"reflect"

	"go.mongodb.org/mongo-driver/bson"
	"go.mongodb.org/mongo-driver/bson/primitive"
	"go.mongodb.org/mongo-driver/mongo"
	"go.mongodb.org/mongo-driver/mongo/options"

	"github.com/256dpi/lungo"
	"github.com/256dpi/lungo/bsonkit"
)

// Stream "alias", probes of the bytes family (alias_bytes.go) added for:
//
//	repeated hand-outs   values one object hands out REPEATEDLY do not share storage with each other: an
//	                     earlier result is kept untouched while the next one is obtained from the same
//	                     object, and must then be unchanged and still usable: resume tokens of several
//	                     events (and resuming after token k delivers event k+1 first), documents decoded
//	                     at cursor position i, single results of consecutive FindOne calls, two Distinct
//	                     calls, InsertedIDs / UpsertedIDs against later mutations of the arguments and of
//	                     the results          stale-earlier-result:<what> / result-bytes-shared:<what>
//	engine-level API     engine.Begin → txn.Insert / Replace / Update with caller-owned bsonkit.Doc
//	                     arguments → Commit; then every container position of ONE argument at a time is
//	                     overwritten (full capacity): stored documents, index contents and oplog events
//	                     stay as they are                 engine-api-shares-memory:<method>:<argument>
//	                     (Result.Matched / Modified / Upserted of the engine level ARE the stored
//	                     documents — the driver layer copies them on the way out — so they are not
//	                     overwritten here; nothing in the API documents an ownership transfer for arguments)

// repeated: the probes of the first kind. Runs on collection 0 after the other bytes probes.
func (x *aliasBytesRun) repeated() {
	ctx := context.Background()
	coll := x.s.coll(0)
	r := x.g.r

	// ---- resume tokens of several events
	x.safely("ResumeTokens", func() {
		cs, err := coll.Watch(ctx, mongo.Pipeline{})
		if err != nil {
			return
		}
		defer cs.Close(ctx)
		k := 3 + r.N(3)
		for i := 0; i < k; i++ {
			_, _ = coll.InsertOne(ctx, bson.D{{Key: "_id", Value: int32(200 + i)}, {Key: "u", Value: int32(200 + i)}, {Key: "rt", Value: bson.A{int32(i), x.g.bin()}}})
		}
		x.rebase()
		var toks []bson.Raw
		var copies [][]byte
		var events []string
		for i := 0; i < k && cs.TryNext(ctx); i++ {
			tok := cs.ResumeToken()
			toks = append(toks, tok)
			copies = append(copies, append([]byte{}, tok...))
			var ev bson.D
			_ = cs.Decode(&ev)
			events = append(events, canonOf(ev))
			// every token fetched so far still is what it was
			for j := range toks {
				if !bytes.Equal(toks[j], copies[j]) {
					x.bad("result-bytes-shared:ResumeToken", fmt.Sprintf("token %d changed when token %d was fetched", j, i))
					copies[j] = append([]byte{}, toks[j]...)
				}
			}
		}
		for j := 0; j+1 < len(toks); j++ {
			cs2, err := coll.Watch(ctx, mongo.Pipeline{}, options.ChangeStream().SetResumeAfter(toks[j]))
			if err != nil {
				x.bad("stale-earlier-result:ResumeToken", fmt.Sprintf("token %d (kept while %d later events were read) is refused: %v", j, len(toks)-1-j, err))
				continue
			}
			var ev bson.D
			if !cs2.TryNext(ctx) || cs2.Decode(&ev) != nil || canonOf(ev) != events[j+1] {
				x.bad("stale-earlier-result:ResumeToken", fmt.Sprintf("resuming after token %d does not deliver event %d first: %s", j, j+1, clip(canonOf(ev), 200)))
			}
			_ = cs2.Close(ctx)
		}
		x.checkDB("mutation-reaches-db:Watch:result", "resume tokens")
	})

	// ---- documents decoded at earlier cursor positions
	x.safely("CursorKeep", func() {
		csr, err := coll.Find(ctx, bson.D{}, options.Find().SetSort(bson.D{{Key: "_id", Value: int32(-1)}}))
		if err != nil {
			return
		}
		var raws []bson.Raw
		var docs []*bson.D
		var maps []bson.M
		var snapR [][]byte
		var snapD, snapM []string
		for csr.Next(ctx) {
			var raw bson.Raw
			d := &bson.D{}
			m := bson.M{}
			if csr.Decode(&raw) != nil || csr.Decode(d) != nil || csr.Decode(&m) != nil {
				break
			}
			raws, docs, maps = append(raws, raw), append(docs, d), append(maps, m)
			snapR, snapD, snapM = append(snapR, append([]byte{}, raw...)), append(snapD, canonOf(*d)), append(snapM, canonOf(m))
		}
		_ = csr.Close(ctx)
		for i := range raws {
			if !bytes.Equal(raws[i], snapR[i]) || canonOf(*docs[i]) != snapD[i] || canonOf(maps[i]) != snapM[i] {
				x.bad("stale-earlier-result:Cursor", fmt.Sprintf("what was decoded at position %d changed while the cursor advanced to the end (%d positions)", i, len(raws)))
			}
		}
		for i := 0; i < len(raws); i++ {
			for j := i + 1; j < len(raws); j++ {
				if len(raws[i]) > 0 && len(raws[j]) > 0 && &raws[i][0] == &raws[j][0] {
					x.bad("result-bytes-shared:Cursor", fmt.Sprintf("positions %d and %d decode into the same backing array", i, j))
				}
			}
		}
	})

	// ---- single results of consecutive FindOne calls
	x.safely("FindOneTwice", func() {
		sr1 := coll.FindOne(ctx, bson.D{}, options.FindOne().SetSort(bson.D{{Key: "_id", Value: int32(1)}}))
		raw1, err := sr1.Raw()
		if err != nil {
			return
		}
		snap1 := append([]byte{}, raw1...)
		var d1 bson.D
		_ = sr1.Decode(&d1)
		c1 := canonOf(d1)
		sr2 := coll.FindOne(ctx, bson.D{}, options.FindOne().SetSort(bson.D{{Key: "_id", Value: int32(-1)}}))
		raw2, _ := sr2.Raw()
		var d2 bson.D
		_ = sr2.Decode(&d2)
		_, _ = coll.UpdateOne(ctx, bson.D{{Key: "_id", Value: bsonkit.Get(&d1, "_id")}}, bson.D{{Key: "$set", Value: bson.D{{Key: "touched", Value: bson.A{int32(1)}}}}})
		x.rebase()
		if !bytes.Equal(raw1, snap1) || canonOf(d1) != c1 {
			x.bad("stale-earlier-result:FindOne", "the bytes / document of the first FindOne changed after a second FindOne and an update of the document")
		}
		var again bson.D
		if err := sr1.Decode(&again); err != nil || canonOf(again) != c1 {
			x.bad("stale-earlier-result:FindOne", fmt.Sprintf("the first result decodes differently after a second FindOne and an update (err %v)", err))
		}
		if len(raw1) > 0 && len(raw2) > 0 && &raw1[0] == &raw2[0] {
			x.bad("result-bytes-shared:FindOne", "two FindOne results return the same backing array")
		}
		aliasScribble(&d2)
		if canonOf(d1) != c1 {
			x.bad("result-bytes-shared:FindOne", "overwriting the second decoded document changed the first")
		}
	})

	// ---- Distinct twice
	for _, f := range []string{"aa", "ab", "arr", "n.e"} {
		f := f
		x.safely("DistinctTwice", func() {
			v1, err := coll.Distinct(ctx, f, bson.D{})
			if err != nil {
				return
			}
			c1 := canonOf(v1)
			v2, _ := coll.Distinct(ctx, f, bson.D{})
			if canonOf(v1) != c1 {
				x.bad("stale-earlier-result:Distinct", fmt.Sprintf("the values of Distinct(%q) changed when it was called again", f))
			}
			aliasScribble(&v2)
			for _, v := range v2 {
				if b, ok := v.(primitive.Binary); ok {
					for i := range b.Data {
						b.Data[i] ^= 0xff
					}
				}
			}
			if canonOf(v1) != c1 {
				x.bad("result-bytes-shared:Distinct", fmt.Sprintf("overwriting the values of the second Distinct(%q) changed the first", f))
			}
			x.checkDB("distinct-shares-memory", fmt.Sprintf("second Distinct(%q) overwritten", f))
		})
	}

	// ---- InsertedIDs / UpsertedIDs
	x.safely("InsertedIDs", func() {
		mkID := func(i int) interface{} {
			switch i % 3 {
			case 0:
				return bson.D{{Key: "k", Value: int32(300 + i)}, {Key: "s", Value: bson.A{int32(i), bson.D{{Key: "z", Value: "q"}}}}}
			case 1:
				return primitive.Binary{Subtype: 0, Data: []byte{byte(i), 7, 9}}
			}
			return bson.D{{Key: "b", Value: primitive.Binary{Subtype: 128, Data: []byte{1, byte(i)}}}}
		}
		var docs []interface{}
		var owned []*bson.D
		for i := 0; i < 3; i++ {
			d := bson.D{{Key: "_id", Value: mkID(i)}, {Key: "u", Value: int32(300 + i)}}
			owned = append(owned, &d)
			docs = append(docs, &d)
		}
		res, err := coll.InsertMany(ctx, docs)
		if err != nil || res == nil {
			return
		}
		x.rebase()
		c1 := canonOf(res.InsertedIDs)
		// the caller changes its documents afterwards
		for _, d := range owned {
			if b, ok := (*d)[0].Value.(primitive.Binary); ok {
				for i := range b.Data {
					b.Data[i] ^= 0xff
				}
			}
			aliasScribble(d)
		}
		if canonOf(res.InsertedIDs) != c1 {
			x.bad("result-bytes-shared:InsertedIDs", "the InsertedIDs changed when the caller overwrote the documents it had inserted")
			c1 = canonOf(res.InsertedIDs)
		}
		x.checkDB("mutation-reaches-db:InsertMany:arg", "inserted documents overwritten by the caller")
		res2, _ := coll.InsertMany(ctx, []interface{}{bson.D{{Key: "_id", Value: mkID(7)}, {Key: "u", Value: int32(307)}}})
		x.rebase()
		if canonOf(res.InsertedIDs) != c1 {
			x.bad("stale-earlier-result:InsertedIDs", "the InsertedIDs of the first InsertMany changed during the second")
		}
		aliasScribble(&res.InsertedIDs)
		for _, v := range res.InsertedIDs {
			if b, ok := v.(primitive.Binary); ok {
				for i := range b.Data {
					b.Data[i] ^= 0xff
				}
			}
		}
		x.checkDB("mutation-reaches-db:InsertMany:result", "InsertedIDs overwritten")
		if res2 != nil && len(res2.InsertedIDs) == 1 && canonOf(res2.InsertedIDs[0]) != canonOf(mkID(7)) {
			x.bad("result-bytes-shared:InsertedIDs", "overwriting the first InsertedIDs changed the second")
		}
	})
	x.safely("UpsertedIDs", func() {
		f1 := bson.D{{Key: "_id", Value: bson.D{{Key: "k", Value: int32(400)}, {Key: "s", Value: bson.A{int32(1), bson.D{{Key: "z", Value: "q"}}}}}}}
		f2 := bson.D{{Key: "_id", Value: primitive.Binary{Subtype: 0, Data: []byte{4, 0, 1}}}}
		models := []mongo.WriteModel{
			mongo.NewUpdateOneModel().SetFilter(f1).SetUpdate(bson.D{{Key: "$set", Value: bson.D{{Key: "u", Value: int32(400)}}}}).SetUpsert(true),
			mongo.NewReplaceOneModel().SetFilter(f2).SetReplacement(bson.D{{Key: "u", Value: int32(401)}}).SetUpsert(true),
		}
		res, err := coll.BulkWrite(ctx, models)
		if err != nil || res == nil || len(res.UpsertedIDs) == 0 {
			return
		}
		x.rebase()
		c1 := canonOf(res.UpsertedIDs)
		aliasScribble(&f1, &f2)
		if b, ok := f2[0].Value.(primitive.Binary); ok {
			for i := range b.Data {
				b.Data[i] ^= 0xff
			}
		}
		if canonOf(res.UpsertedIDs) != c1 {
			x.bad("result-bytes-shared:UpsertedIDs", "the UpsertedIDs changed when the caller overwrote its filters")
		}
		x.checkDB("mutation-reaches-db:BulkWrite:arg", "upsert filters overwritten by the caller")
		for _, v := range res.UpsertedIDs {
			if b, ok := v.(primitive.Binary); ok {
				for i := range b.Data {
					b.Data[i] ^= 0xff
				}
			}
		}
		aliasScribble(&res.UpsertedIDs)
		x.checkDB("mutation-reaches-db:BulkWrite:result", "UpsertedIDs overwritten")
	})
}

// engineAPI: the probes of the second kind, on namespace 1 through engine.Begin / Transaction.
func (x *aliasBytesRun) engineAPI() {
	eng := x.s.engine
	h := lungo.Handle{aliasNS[1][0], aliasNS[1][1]}
	ctx := context.Background()
	r := x.g.r
	_, _ = x.s.coll(1).Indexes().CreateOne(ctx, mongo.IndexModel{Keys: bson.D{{Key: "a", Value: int32(1)}}})
	_, _ = x.s.coll(1).Indexes().CreateOne(ctx, mongo.IndexModel{Keys: bson.D{{Key: "k.s", Value: int32(-1)}}, Options: options.Index().SetPartialFilterExpression(bson.D{{Key: "a", Value: bson.D{{Key: "$exists", Value: true}}}})})

	// spare: a document with spare capacity behind its fields (append within capacity)
	spare := func(d bson.D) *bson.D {
		out := make(bson.D, len(d), len(d)+2)
		copy(out, d)
		return &out
	}
	arr := func(vs ...interface{}) bson.A {
		out := make(bson.A, len(vs), len(vs)+2)
		copy(out, vs)
		return out
	}
	nested := func(i int) bson.D {
		return bson.D{{Key: "s", Value: arr(int32(i), bson.D{{Key: "z", Value: "q"}}, x.g.bin())}, {Key: "d", Value: bson.D{{Key: "l", Value: arr(int32(i))}}}}
	}
	// run: one transaction; then the arguments are overwritten ONE AT A TIME
	run := func(method string, f func(txn *lungo.Transaction) error, args map[string][]interface{}) {
		x.safely("engine:"+method, func() {
			txn, err := eng.Begin(nil, true)
			if err != nil {
				x.notes = append(x.notes, "engine:"+method+":begin-failed")
				return
			}
			if err := f(txn); err != nil {
				eng.Abort(txn)
				x.notes = append(x.notes, "engine:"+method+":err")
				return
			}
			if err := eng.Commit(txn); err != nil {
				x.notes = append(x.notes, "engine:"+method+":commit-failed")
				return
			}
			x.rebase()
			for _, name := range []string{"documents", "filter", "replacement", "update", "arrayFilters", "sort"} {
				vals, ok := args[name]
				if !ok {
					continue
				}
				// first every container position (documents, arrays, maps), then the bytes of binaries
				// (bsonkit.Clone documents that it shares Binary data; Transaction.* document nothing)
				walked := aliasNewWalker(false).roots(vals...) // before anything is overwritten
				for _, bytesOnly := range []bool{false, true} {
					aliasScribbleSel(walked, bytesOnly)
					w := "engine-api-shares-memory:" + method + ":" + name
					what := "the containers of its " + name
					if bytesOnly {
						w += ":binary"
						what = "the bytes of the binaries in its " + name
					}
					if now := aliasDump(eng, false); now != x.base {
						detail := "after the caller overwrote " + what + " the catalog reads differently"
						for _, hh := range sortedHandles(eng.Catalog()) {
							if is := indexIssues(eng.Catalog().Namespaces[hh]); len(is) > 0 {
								detail += "; index-incoherent:" + is[0].reason + " " + clip(is[0].detail, 120)
							}
						}
						x.bad(w, detail)
						x.base = now
					}
				}
			}
		})
	}

	// Insert: documents with and without _id, nested containers
	d1 := spare(bson.D{{Key: "_id", Value: bson.D{{Key: "k", Value: int32(1)}, {Key: "s", Value: arr(int32(1))}}}, {Key: "a", Value: arr(int32(1), int32(2))}, {Key: "k", Value: nested(1)}})
	d2 := spare(bson.D{{Key: "a", Value: arr(int32(3))}, {Key: "k", Value: nested(2)}, {Key: "bin", Value: x.g.bin()}})
	d3 := spare(bson.D{{Key: "_id", Value: int32(3)}, {Key: "a", Value: int32(4)}, {Key: "k", Value: nested(3)}})
	run("Insert", func(txn *lungo.Transaction) error {
		res, err := txn.Insert(h, bsonkit.List{d1, d2, d3}, r.P(50))
		if err == nil && res.Error != nil {
			return res.Error
		}
		return err
	}, map[string][]interface{}{"documents": {d1, d2, d3}})

	// Replace: matched, and upserted through the filter
	rq := spare(bson.D{{Key: "_id", Value: int32(3)}})
	rr := spare(bson.D{{Key: "a", Value: arr(int32(5), int32(6))}, {Key: "k", Value: nested(4)}})
	run("Replace", func(txn *lungo.Transaction) error { _, err := txn.Replace(h, rq, nil, rr, false); return err },
		map[string][]interface{}{"filter": {rq}, "replacement": {rr}})
	uq := spare(bson.D{{Key: "_id", Value: bson.D{{Key: "k", Value: int32(10)}, {Key: "s", Value: arr(int32(1))}}}})
	ur := spare(bson.D{{Key: "a", Value: arr(int32(7))}, {Key: "k", Value: nested(5)}})
	run("Replace:upsert", func(txn *lungo.Transaction) error { _, err := txn.Replace(h, uq, nil, ur, true); return err },
		map[string][]interface{}{"filter": {uq}, "replacement": {ur}})

	// Update: operand documents ($set of containers, $push $each), array filters, sort; and an upsert
	// whose document comes from the filter's equalities and the operands
	uf := spare(bson.D{{Key: "a", Value: bson.D{{Key: "$exists", Value: true}}}})
	uu := spare(bson.D{{Key: "$set", Value: bson.D{{Key: "set", Value: arr(int32(1), bson.D{{Key: "y", Value: int32(1)}})}, {Key: "k.d", Value: nested(6)}}},
		{Key: "$push", Value: bson.D{{Key: "a2", Value: bson.D{{Key: "$each", Value: arr(bson.D{{Key: "e", Value: arr(int32(1))}}, x.g.bin())}}}}}})
	us := spare(bson.D{{Key: "_id", Value: int32(1)}})
	run("Update", func(txn *lungo.Transaction) error { _, err := txn.Update(h, uf, us, uu, 0, 0, false, nil); return err },
		map[string][]interface{}{"filter": {uf}, "update": {uu}, "sort": {us}})
	af := bsonkit.List{spare(bson.D{{Key: "e", Value: bson.D{{Key: "$gte", Value: int32(1)}}}})}
	au := spare(bson.D{{Key: "$set", Value: bson.D{{Key: "a.$[e]", Value: arr(int32(9), bson.D{{Key: "w", Value: int32(1)}})}}}})
	run("Update:arrayFilters", func(txn *lungo.Transaction) error {
		_, err := txn.Update(h, &bson.D{{Key: "_id", Value: int32(3)}}, nil, au, 0, 1, false, af)
		return err
	}, map[string][]interface{}{"update": {au}, "arrayFilters": {af}})
	pq := spare(bson.D{{Key: "_id", Value: bson.D{{Key: "k", Value: int32(20)}, {Key: "s", Value: arr(int32(2))}}}, {Key: "a", Value: arr(int32(8))}})
	pu := spare(bson.D{{Key: "$set", Value: bson.D{{Key: "k", Value: nested(7)}}}, {Key: "$setOnInsert", Value: bson.D{{Key: "soi", Value: arr(int32(1))}}}})
	run("Update:upsert", func(txn *lungo.Transaction) error { _, err := txn.Update(h, pq, nil, pu, 0, 1, true, nil); return err },
		map[string][]interface{}{"filter": {pq}, "update": {pu}})

	// Bulk: the same argument kinds through Operation
	bd := spare(bson.D{{Key: "_id", Value: bson.D{{Key: "k", Value: int32(30)}}}, {Key: "a", Value: arr(int32(11))}})
	bu := spare(bson.D{{Key: "$set", Value: bson.D{{Key: "bset", Value: arr(int32(1))}}}})
	bf := spare(bson.D{{Key: "_id", Value: int32(3)}})
	run("Bulk", func(txn *lungo.Transaction) error {
		_, err := txn.Bulk(h, []lungo.Operation{{Opcode: lungo.Insert, Document: bd}, {Opcode: lungo.Update, Filter: bf, Document: bu, Limit: 1}}, true)
		return err
	}, map[string][]interface{}{"documents": {bd}, "update": {bu}, "filter": {bf}})

	// the driver still reads what the engine stored
	if _, vals := aliasReadAll(x.s); len(vals) == 0 {
		x.notes = append(x.notes, "engine:read-failed")
	}
}

// aliasScribbleSel overwrites either every container position except byte slices (bytesOnly =
// false) or only the byte slices (binary data) reachable from the values.
func aliasScribbleSel(w *aliasWalker, bytesOnly bool) int {
	sel := &aliasWalker{}
	for _, c := range w.conts {
		isBytes := c.Kind() == reflect.Slice && c.Type().Elem().Kind() == reflect.Uint8
		if isBytes == bytesOnly {
			sel.conts = append(sel.conts, c)
		}
	}
	if !bytesOnly {
		sel.fields = w.fields
	}
	return aliasMutate(sel)
}

// engineListings: listings handed out below the driver — Transaction.ListIndexes / ListCollections /
// ListDatabases and mongokit.Index.Config() of the committed catalog's indexes. The caller edits the
// returned key / partialFilterExpression / specification documents in place; the committed indexes
// stay what they were: same catalog dump, same listing through the driver, a partial unique index
// still rejects duplicates, DropOneWithKey still finds its index.
func (x *aliasBytesRun) engineListings() {
	eng := x.s.engine
	ctx := context.Background()
	coll := x.s.coll(2)
	h := lungo.Handle{aliasNS[2][0], aliasNS[2][1]}
	x.safely("engine:listings", func() {
		_, _ = coll.InsertMany(ctx, []interface{}{
			bson.D{{Key: "_id", Value: int32(1)}, {Key: "p", Value: int32(1)}, {Key: "q", Value: int32(1)}, {Key: "f", Value: int32(1)}},
			bson.D{{Key: "_id", Value: int32(2)}, {Key: "p", Value: int32(1)}, {Key: "q", Value: int32(1)}, {Key: "f", Value: int32(0)}},
		})
		keyPU := bson.D{{Key: "p", Value: int32(1)}, {Key: "q", Value: int32(-1)}}
		_, _ = coll.Indexes().CreateOne(ctx, mongo.IndexModel{Keys: keyPU, Options: options.Index().SetUnique(true).SetName("pu").
			SetPartialFilterExpression(bson.D{{Key: "f", Value: bson.D{{Key: "$gt", Value: int32(0)}}}, {Key: "g", Value: bson.D{{Key: "$in", Value: bson.A{int32(1), nil}}}}})})
		keyDrop := bson.D{{Key: "dk", Value: int32(1)}, {Key: "dl", Value: int32(1)}}
		_, _ = coll.Indexes().CreateOne(ctx, mongo.IndexModel{Keys: keyDrop, Options: options.Index().SetName("dropme")})
		x.rebase()
		driverList := func() string {
			var ds []bson.D
			if csr, err := coll.Indexes().List(ctx); err == nil {
				_ = csr.All(ctx, &ds)
			}
			return canonOf(ds)
		}
		want := driverList()
		check := func(what string) {
			w := "engine-api-shares-memory:" + what
			x.checkDB(w, what+" results edited in place")
			if got := driverList(); got != want {
				x.bad(w, "the driver lists other index specifications after the "+what+" results were edited: "+clip(got, 300)+" was "+clip(want, 300))
				want = got
			}
		}
		// Transaction.ListIndexes (unlocked and locked transactions)
		for _, lock := range []bool{false, true} {
			txn, err := eng.Begin(nil, lock)
			if err != nil {
				continue
			}
			list, err := txn.ListIndexes(h)
			if lock {
				eng.Abort(txn)
			}
			if err != nil {
				continue
			}
			for _, spec := range list {
				// in-place edits of the key and filter documents first (directions, operands), then everything
				if k, ok := bsonkit.Get(spec, "key").(bson.D); ok {
					for i := range k {
						k[i].Value = int32(-7)
						k[i].Key = "edited"
					}
				}
				if p, ok := bsonkit.Get(spec, "partialFilterExpression").(bson.D); ok && len(p) > 0 {
					p[0].Key = "edited"
					if inner, ok := p[0].Value.(bson.D); ok && len(inner) > 0 {
						inner[0].Value = int32(-100)
					}
				}
			}
			check("ListIndexes")
			aliasScribble(&list)
			check("ListIndexes")
		}
		// mongokit.Index.Config() of the committed catalog
		if ns := eng.Catalog().Namespaces[h]; ns != nil {
			for _, ix := range ns.Indexes {
				cfg := ix.Config()
				if cfg.Key != nil {
					for i := range *cfg.Key {
						(*cfg.Key)[i].Key, (*cfg.Key)[i].Value = "edited", int32(-7)
					}
				}
				if cfg.Partial != nil && len(*cfg.Partial) > 0 {
					(*cfg.Partial)[0].Key = "edited"
					if inner, ok := (*cfg.Partial)[0].Value.(bson.D); ok && len(inner) > 0 {
						inner[0].Value = int32(-100)
					}
				}
				aliasScribble(cfg.Key, cfg.Partial)
			}
			check("IndexConfig")
		}
		// Transaction.ListCollections / ListDatabases
		if txn, err := eng.Begin(nil, false); err == nil {
			if list, err := txn.ListCollections(lungo.Handle{h[0], ""}, &bson.D{}); err == nil {
				aliasScribble(&list)
				check("ListCollections")
			}
			if list, err := txn.ListDatabases(&bson.D{}); err == nil {
				aliasScribble(&list)
				check("ListDatabases")
			}
			var names1 []string
			if n, err := x.s.client.Database(h[0]).ListCollectionNames(ctx, bson.D{}); err == nil {
				names1 = n
			}
			if len(names1) == 0 {
				x.bad("engine-api-shares-memory:ListCollections", "the driver lists no collections after the engine-level listing was edited")
			}
		}
		// enforcement: the partial unique index still rejects a duplicate inside its filter and ignores one outside
		if _, err := coll.InsertOne(ctx, bson.D{{Key: "_id", Value: int32(3)}, {Key: "p", Value: int32(1)}, {Key: "q", Value: int32(2)}, {Key: "f", Value: int32(2)}, {Key: "g", Value: int32(1)}}); err != nil {
			x.bad("engine-api-shares-memory:ListIndexes", "a first document inside the partial unique index's filter is rejected after the listings were edited: "+err.Error())
		}
		if _, err := coll.InsertOne(ctx, bson.D{{Key: "_id", Value: int32(4)}, {Key: "p", Value: int32(1)}, {Key: "q", Value: int32(2)}, {Key: "f", Value: int32(5)}, {Key: "g", Value: nil}}); err == nil || !lungo.IsUniquenessError(err) {
			x.bad("engine-api-shares-memory:ListIndexes", fmt.Sprintf("a duplicate inside the partial unique index's filter is not rejected as such after the listings were edited (err %v)", err))
		}
		if _, err := coll.InsertOne(ctx, bson.D{{Key: "_id", Value: int32(5)}, {Key: "p", Value: int32(1)}, {Key: "q", Value: int32(2)}, {Key: "f", Value: int32(-1)}}); err != nil {
			x.bad("engine-api-shares-memory:ListIndexes", "a document outside the partial unique index's filter is rejected after the listings were edited: "+err.Error())
		}
		if _, err := coll.Indexes().DropOneWithKey(ctx, keyDrop); err != nil {
			x.bad("engine-api-shares-memory:ListIndexes", "DropOneWithKey no longer finds the index by its key after the listings were edited: "+err.Error())
		}
		if _, err := coll.Indexes().DropOneWithKey(ctx, keyPU); err != nil {
			x.bad("engine-api-shares-memory:ListIndexes", "DropOneWithKey no longer finds the partial unique index by its key: "+err.Error())
		}
	})
}
