package streams

import (
	"encoding/json"
	"strings"
	"time"

	"go.mongodb.org/mongo-driver/bson"

	"github.com/256dpi/lungo/bsonkit"

	"verifharness/internal/run"
	"verifharness/internal/vj"
)

// request decoding helpers for Replay functions

type reqObj map[string]interface{}

func parseReq(req string) (reqObj, error) {
	d := json.NewDecoder(strings.NewReader(req))
	d.UseNumber()
	var m map[string]interface{}
	if err := d.Decode(&m); err != nil {
		return nil, err
	}
	return m, nil
}

func (r reqObj) val(k string) interface{} {
	v, err := vj.FromRaw(r[k])
	if err != nil {
		panic(err)
	}
	return v
}

func (r reqObj) doc(k string) bson.D {
	d, _ := r.val(k).(bson.D)
	return d
}

func (r reqObj) docs(k string) bsonkit.List {
	var l bsonkit.List
	if arr, ok := r[k].([]interface{}); ok {
		for _, x := range arr {
			v, err := vj.FromRaw(x)
			if err != nil {
				panic(err)
			}
			d := v.(bson.D)
			l = append(l, &d)
		}
	}
	return l
}

func (r reqObj) str(k string) string   { s, _ := r[k].(string); return s }
func (r reqObj) boolean(k string) bool { b, _ := r[k].(bool); return b }

func init() {
	run.Streams["cmp"].Replay = func(req string) string {
		r, err := parseReq(req)
		if err != nil {
			return ""
		}
		return cmpReply(r.val("a"), r.val("b"))
	}
	run.Streams["match"].Replay = func(req string) string {
		r, err := parseReq(req)
		if err != nil {
			return ""
		}
		return matchReply(r.doc("d"), r.doc("q"))
	}
	run.Streams["apply"].Replay = func(req string) string {
		r, err := parseReq(req)
		if err != nil {
			return ""
		}
		start := time.Now()
		return applyCanon(implApply(r.doc("d"), r.doc("u"), r.boolean("upsert"), r.docs("filters")), start)
	}
}
