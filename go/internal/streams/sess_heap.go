package streams

import (
	"hash"
	"hash/fnv"
	"strconv"
	"unsafe"

	"go.mongodb.org/mongo-driver/bson"
	"go.mongodb.org/mongo-driver/bson/primitive"

	"github.com/256dpi/lungo"
	"github.com/256dpi/lungo/bsonkit"
)

// Heap fingerprint of a snapshot root (stream "sess", C03 `snapshot_immutable` at the level of
// the sharing graph): the raw bytes of every backing array reachable from the root — the
// document lists up to their CAPACITY, every document's element array up to its capacity
// (keys, interface words of the values), nested documents/arrays and binary payloads. Go's
// collector does not move heap objects, so as long as nobody writes into an object that is
// reachable from the snapshot the fingerprint is constant; a write into the spare capacity of
// a shared slice (an `append` on an un-cloned list) changes it although no dump can see it.

func sessHashRaw(h hash.Hash64, p unsafe.Pointer, n int) {
	if p == nil || n <= 0 {
		return
	}
	h.Write(unsafe.Slice((*byte)(p), n))
}

func sessHashVal(h hash.Hash64, v interface{}) {
	switch x := v.(type) {
	case bson.D:
		sessHashD(h, x)
	case bson.A:
		sessHashRaw(h, unsafe.Pointer(unsafe.SliceData(x)), cap(x)*int(unsafe.Sizeof(interface{}(nil))))
		for _, e := range x {
			sessHashVal(h, e)
		}
	case primitive.Binary:
		sessHashRaw(h, unsafe.Pointer(unsafe.SliceData(x.Data)), cap(x.Data))
	case string:
		sessHashRaw(h, unsafe.Pointer(unsafe.StringData(x)), len(x))
	}
}

func sessHashD(h hash.Hash64, d bson.D) {
	sessHashRaw(h, unsafe.Pointer(unsafe.SliceData(d)), cap(d)*int(unsafe.Sizeof(bson.E{})))
	for _, e := range d {
		sessHashRaw(h, unsafe.Pointer(unsafe.StringData(e.Key)), len(e.Key))
		sessHashVal(h, e.Value)
	}
}

func sessHashList(h hash.Hash64, l bsonkit.List) {
	sessHashRaw(h, unsafe.Pointer(unsafe.SliceData(l)), cap(l)*int(unsafe.Sizeof(uintptr(0))))
	for _, d := range l {
		if d == nil {
			continue
		}
		// the slice header the pointer refers to, then the elements
		sessHashRaw(h, unsafe.Pointer(d), int(unsafe.Sizeof(*d)))
		sessHashD(h, *d)
	}
}

// sessHeapHash fingerprints everything reachable from a catalog (namespaces in handle order).
func sessHeapHash(c *lungo.Catalog) (out string) {
	defer func() {
		if p := recover(); p != nil {
			out = "heap-panic"
		}
	}()
	if c == nil {
		return "nil"
	}
	h := fnv.New64a()
	for _, hd := range sessSortedHandles(c) {
		ns := c.Namespaces[hd]
		h.Write([]byte(hd[0] + "\x00" + hd[1] + "\x00"))
		// the namespace object itself and its Set header
		sessHashRaw(h, unsafe.Pointer(ns), int(unsafe.Sizeof(*ns)))
		sessHashRaw(h, unsafe.Pointer(ns.Documents), int(unsafe.Sizeof(*ns.Documents)))
		sessHashList(h, ns.Documents.List)
	}
	return strconv.FormatUint(h.Sum64(), 16)
}

func sessHeapHashList(l bsonkit.List) (out string) {
	defer func() {
		if p := recover(); p != nil {
			out = "heap-panic"
		}
	}()
	h := fnv.New64a()
	sessHashList(h, l)
	return strconv.FormatUint(h.Sum64(), 16)
}
