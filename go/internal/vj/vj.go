// Package vj converts between lungo's standard BSON values and the tagged JSON
// encoding of the line protocol (see lean/Lungo/Model/Json.lean).
package vj

import (
	"encoding/hex"
	"encoding/json"
	"fmt"
	"math"
	"strconv"
	"strings"

	"go.mongodb.org/mongo-driver/bson"
	"go.mongodb.org/mongo-driver/bson/primitive"

	"github.com/256dpi/lungo/bsonkit"
)

// Enc renders a value as tagged JSON text.
func Enc(v interface{}) string {
	var sb strings.Builder
	enc(&sb, v)
	return sb.String()
}

func jstr(s string) string {
	b, _ := json.Marshal(s)
	return string(b)
}

func enc(sb *strings.Builder, v interface{}) {
	switch x := v.(type) {
	case nil, primitive.Null:
		sb.WriteString("null")
	case bsonkit.MissingType:
		sb.WriteString(`{"m":1}`)
	case int32:
		sb.WriteString(`{"i":` + strconv.FormatInt(int64(x), 10) + `}`)
	case int64:
		sb.WriteString(`{"l":` + strconv.FormatInt(x, 10) + `}`)
	case float64:
		sb.WriteString(fmt.Sprintf(`{"f":"%016x"}`, math.Float64bits(x)))
	case primitive.Decimal128:
		h, l := x.GetBytes()
		sb.WriteString(fmt.Sprintf(`{"D":["%016x","%016x"]}`, h, l))
	case string:
		sb.WriteString(jstr(x))
	case bson.D:
		sb.WriteString(`{"d":[`)
		for i, e := range x {
			if i > 0 {
				sb.WriteByte(',')
			}
			sb.WriteByte('[')
			sb.WriteString(jstr(e.Key))
			sb.WriteByte(',')
			enc(sb, e.Value)
			sb.WriteByte(']')
		}
		sb.WriteString(`]}`)
	case *bson.D:
		if x == nil {
			sb.WriteString("null")
		} else {
			enc(sb, *x)
		}
	case bson.A:
		sb.WriteByte('[')
		for i, e := range x {
			if i > 0 {
				sb.WriteByte(',')
			}
			enc(sb, e)
		}
		sb.WriteByte(']')
	case primitive.Binary:
		sb.WriteString(fmt.Sprintf(`{"b":[%d,"%s"]}`, x.Subtype, hex.EncodeToString(x.Data)))
	case primitive.ObjectID:
		sb.WriteString(`{"o":"` + x.Hex() + `"}`)
	case bool:
		if x {
			sb.WriteString("true")
		} else {
			sb.WriteString("false")
		}
	case primitive.DateTime:
		sb.WriteString(`{"t":` + strconv.FormatInt(int64(x), 10) + `}`)
	case primitive.Timestamp:
		sb.WriteString(fmt.Sprintf(`{"T":[%d,%d]}`, x.T, x.I))
	case primitive.Regex:
		sb.WriteString(`{"r":[` + jstr(x.Pattern) + `,` + jstr(x.Options) + `]}`)
	default:
		panic(fmt.Sprintf("vj: cannot encode %T", v))
	}
}

// EncDocs renders a list of documents as a JSON array.
func EncDocs(l bsonkit.List) string {
	var sb strings.Builder
	sb.WriteByte('[')
	for i, d := range l {
		if i > 0 {
			sb.WriteByte(',')
		}
		enc(&sb, *d)
	}
	sb.WriteByte(']')
	return sb.String()
}

// Dec parses tagged JSON back into a value.
func Dec(s string) (interface{}, error) {
	var raw interface{}
	d := json.NewDecoder(strings.NewReader(s))
	d.UseNumber()
	if err := d.Decode(&raw); err != nil {
		return nil, err
	}
	return FromRaw(raw)
}

func num(x interface{}) (int64, error) {
	n, ok := x.(json.Number)
	if !ok {
		return 0, fmt.Errorf("expected number")
	}
	return strconv.ParseInt(n.String(), 10, 64)
}

// FromRaw converts decoded JSON (with json.Number) into a value.
func FromRaw(raw interface{}) (interface{}, error) {
	switch x := raw.(type) {
	case nil:
		return nil, nil
	case bool:
		return x, nil
	case string:
		return x, nil
	case []interface{}:
		a := make(bson.A, 0, len(x))
		for _, e := range x {
			v, err := FromRaw(e)
			if err != nil {
				return nil, err
			}
			a = append(a, v)
		}
		return a, nil
	case map[string]interface{}:
		if len(x) != 1 {
			return nil, fmt.Errorf("bad tagged value")
		}
		for tag, val := range x {
			switch tag {
			case "m":
				return bsonkit.Missing, nil
			case "i":
				n, err := num(val)
				return int32(n), err
			case "l":
				n, err := num(val)
				return n, err
			case "f":
				u, err := strconv.ParseUint(val.(string), 16, 64)
				return math.Float64frombits(u), err
			case "D":
				p := val.([]interface{})
				h, err := strconv.ParseUint(p[0].(string), 16, 64)
				if err != nil {
					return nil, err
				}
				l, err := strconv.ParseUint(p[1].(string), 16, 64)
				return primitive.NewDecimal128(h, l), err
			case "d":
				fs := val.([]interface{})
				d := make(bson.D, 0, len(fs))
				for _, f := range fs {
					p := f.([]interface{})
					v, err := FromRaw(p[1])
					if err != nil {
						return nil, err
					}
					d = append(d, bson.E{Key: p[0].(string), Value: v})
				}
				return d, nil
			case "b":
				p := val.([]interface{})
				st, err := num(p[0])
				if err != nil {
					return nil, err
				}
				data, err := hex.DecodeString(p[1].(string))
				return primitive.Binary{Subtype: byte(st), Data: data}, err
			case "o":
				return primitive.ObjectIDFromHex(val.(string))
			case "t":
				n, err := num(val)
				return primitive.DateTime(n), err
			case "T":
				p := val.([]interface{})
				t, err := num(p[0])
				if err != nil {
					return nil, err
				}
				i, err := num(p[1])
				return primitive.Timestamp{T: uint32(t), I: uint32(i)}, err
			case "r":
				p := val.([]interface{})
				return primitive.Regex{Pattern: p[0].(string), Options: p[1].(string)}, nil
			}
			return nil, fmt.Errorf("unknown tag %q", tag)
		}
	}
	return nil, fmt.Errorf("bad value %T", raw)
}
