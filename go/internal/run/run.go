// Package run is the correspondence-check engine: it shards generated cases over
// the cores, runs the real code in-process, pipes the same request lines to the Lean
// model and diffs canonical replies; property monitors run on the implementation side.
package run

import (
	"crypto/sha1"
	"encoding/json"
	"fmt"
	"os"
	"runtime"
	"runtime/debug"
	"sort"
	"sync"
	"time"

	"verifharness/internal/gen"
	"verifharness/internal/model"
)

// Violation is a property failure observed on the implementation (monitor) side.
type Violation struct {
	Property string `json:"property"`
	What     string `json:"what"`
	Witness  string `json:"witness"` // canonical witness id, matched against known_findings.jsonl
	Req      string `json:"req"`
	Detail   string `json:"detail,omitempty"`
}

// Case is one generated case, already executed on the implementation.
type Case struct {
	Req        string      // request line for the model ("" = no model comparison)
	Impl       string      // canonical reply of the implementation
	Nontrivial bool        // reached a non-default branch (stream-specific rule)
	Tags       []string    // distribution tags
	Viols      []Violation // monitor failures
	// Accept, if set, decides whether a model reply matches (default: string equality with Impl).
	Accept func(modelReply string) bool
}

// Stream generates cases.
type Stream struct {
	Name string
	Rule string
	// Gen produces the idx-th case of a shard; it may return several cases (e.g. law instances).
	Gen func(r *gen.R, idx int) []Case
	// Corpus returns fixed cases that run first (past failures, lifted tables).
	Corpus func() []Case
	// Replay re-executes one request line on the implementation and returns its canonical reply.
	Replay func(req string) string
	// SpecProperty, if set, says that the model side of this stream is the REFERENCE SEMANTICS of that
	// property (not the executable model of the code): a disagreement is then itself a failing input of
	// the property and is reported as a violation (witness SpecWitness, default "<stream>:spec-disagrees").
	SpecProperty string
	SpecWitness  func(c Case, modelReply string) string
}

// NoModel disables the model comparison (monitors only).
var NoModel bool

// Streams is the registry.
var Streams = map[string]*Stream{}

// Register adds a stream.
func Register(s *Stream) { Streams[s.Name] = s }

// Disagreement is a model/implementation difference.
type Disagreement struct {
	Req   string `json:"req"`
	Impl  string `json:"impl"`
	Model string `json:"model"`
}

// Result is written as JSON for the check script.
type Result struct {
	Stream             string         `json:"stream"`
	Seed               uint64         `json:"seed"`
	Evaluations        int            `json:"evaluations"`
	DistinctNontrivial int            `json:"distinct_nontrivial"`
	Rule               string         `json:"rule"`
	Samples            []string       `json:"samples"`
	Distribution       map[string]int `json:"distribution"`
	Disagreements      []Disagreement `json:"disagreements"`
	NDisagreements     int            `json:"n_disagreements"`
	Violations         []Violation    `json:"violations"`
	NViolations        int            `json:"n_violations"`
	WallS              float64        `json:"wall_s"`
	ModelCompared      int            `json:"model_compared"`
}

// Safe runs f and converts a panic into a canonical reply.
func Safe(f func() string) (out string) {
	defer func() {
		if p := recover(); p != nil {
			_ = debug.Stack()
			out = `{"panic":` + jsonStr(fmt.Sprint(p)) + `}`
		}
	}()
	return f()
}

func jsonStr(s string) string {
	b, _ := json.Marshal(s)
	return string(b)
}

// JS exposes JSON string quoting.
func JS(s string) string { return jsonStr(s) }

// Exec runs a stream with n cases over all cores and returns the result.
func Exec(s *Stream, seed uint64, n int, shards int) *Result {
	start := time.Now()
	if shards <= 0 {
		shards = runtime.NumCPU()
	}
	res := &Result{Stream: s.Name, Seed: seed, Rule: s.Rule, Distribution: map[string]int{}}
	var mu sync.Mutex
	seen := map[[20]byte]bool{}
	// keep at most 5 violations per witness class (and 2000 in total), so that a frequent class — for instance a listed
	// known finding — cannot crowd out a different one
	perWitness := map[string]int{}
	keep := func(w string) bool {
		if perWitness[w] >= 5 || len(res.Violations) >= 2000 {
			return false
		}
		perWitness[w]++
		return true
	}

	record := func(c Case, modelReply string, compared bool) {
		mu.Lock()
		defer mu.Unlock()
		res.Evaluations++
		for _, t := range c.Tags {
			res.Distribution[t]++
		}
		h := sha1.Sum([]byte(c.Req + "\x00" + c.Impl))
		if !seen[h] {
			seen[h] = true
			if c.Nontrivial {
				res.DistinctNontrivial++
				if len(res.Samples) < 5 {
					res.Samples = append(res.Samples, c.Req+" => "+c.Impl)
				}
			}
		}
		if compared {
			res.ModelCompared++
			ok := modelReply == c.Impl
			if c.Accept != nil {
				ok = c.Accept(modelReply)
			}
			if !ok {
				res.NDisagreements++
				if len(res.Disagreements) < 20 {
					res.Disagreements = append(res.Disagreements, Disagreement{Req: c.Req, Impl: c.Impl, Model: modelReply})
				}
				if s.SpecProperty != "" {
					w := s.Name + ":spec-disagrees"
					if s.SpecWitness != nil {
						w = s.SpecWitness(c, modelReply)
					}
					res.NViolations++
					if keep(w) {
						res.Violations = append(res.Violations, Violation{Property: s.SpecProperty, What: "the implementation's answer differs from the reference semantics (" + s.Name + ")",
							Witness: w, Req: c.Req, Detail: "impl: " + c.Impl + "\nspec: " + modelReply})
					}
				}
			}
		}
		for _, v := range c.Viols {
			res.NViolations++
			if keep(v.Property + "\x00" + v.Witness) {
				res.Violations = append(res.Violations, v)
			}
		}
	}

	runCases := func(p *model.Proc, cases []Case) {
		for _, c := range cases {
			reply := ""
			compared := false
			if c.Req != "" && p != nil {
				r, err := p.Ask(c.Req)
				if err != nil {
					r = `{"bad":"model process failed"}`
				}
				reply = r
				compared = true
			}
			record(c, reply, compared)
		}
	}

	// corpus first (single shard)
	if s.Corpus != nil {
		var p *model.Proc
		if !NoModel {
			var err error
			p, err = model.Start()
			if err != nil {
				fmt.Fprintln(os.Stderr, "cannot start model:", err)
				os.Exit(3)
			}
		}
		runCases(p, s.Corpus())
		if p != nil {
			p.Close()
		}
	}

	var wg sync.WaitGroup
	per := (n + shards - 1) / shards
	for sh := 0; sh < shards; sh++ {
		wg.Add(1)
		go func(sh int) {
			defer wg.Done()
			var p *model.Proc
			if !NoModel {
				var err error
				p, err = model.Start()
				if err != nil {
					fmt.Fprintln(os.Stderr, "cannot start model:", err)
					os.Exit(3)
				}
				defer p.Close()
			}
			for i := 0; i < per; i++ {
				r := gen.New(seed, uint64(sh), uint64(i))
				runCases(p, s.Gen(r, i))
			}
		}(sh)
	}
	wg.Wait()
	res.WallS = time.Since(start).Seconds()
	sort.Slice(res.Violations, func(i, j int) bool { return res.Violations[i].Witness < res.Violations[j].Witness })
	return res
}

// Write stores the result as JSON.
func (r *Result) Write(path string) error {
	b, err := json.MarshalIndent(r, "", " ")
	if err != nil {
		return err
	}
	return os.WriteFile(path, b, 0644)
}
