// Package model talks to the compiled Lean model (lungo_model) over its line protocol.
package model

import (
	"bufio"
	"fmt"
	"io"
	"os"
	"os/exec"
)

// Proc is one running model process.
type Proc struct {
	cmd *exec.Cmd
	in  io.WriteCloser
	out *bufio.Reader
}

// Path returns the model binary location (env LUNGO_MODEL or the lake build output).
func Path() string {
	if p := os.Getenv("LUNGO_MODEL"); p != "" {
		return p
	}
	return "/verif/lean/.lake/build/bin/lungo_model"
}

// Start launches a model process.
func Start() (*Proc, error) {
	cmd := exec.Command(Path())
	in, err := cmd.StdinPipe()
	if err != nil {
		return nil, err
	}
	out, err := cmd.StdoutPipe()
	if err != nil {
		return nil, err
	}
	cmd.Stderr = os.Stderr
	if err := cmd.Start(); err != nil {
		return nil, err
	}
	return &Proc{cmd: cmd, in: in, out: bufio.NewReaderSize(out, 1<<20)}, nil
}

// Ask sends one request line and returns the reply line (without newline).
func (p *Proc) Ask(line string) (string, error) {
	if _, err := io.WriteString(p.in, line+"\n"); err != nil {
		return "", err
	}
	reply, err := p.out.ReadString('\n')
	if err != nil {
		return "", fmt.Errorf("model died: %v", err)
	}
	return reply[:len(reply)-1], nil
}

// Close terminates the process.
func (p *Proc) Close() {
	_ = p.in.Close()
	_ = p.cmd.Wait()
}
