// Package gen holds the single PRNG and the collision-rich value/document generators
// (DESIGN appendix I). Every case derives from (seed, shard, index) alone.
package gen

import (
	"math"

	"go.mongodb.org/mongo-driver/bson"
	"go.mongodb.org/mongo-driver/bson/primitive"
)

// R is a splitmix64 PRNG. Hint is an optional per-case bias object set by a stream (e.g. the
// document whose paths/values generated conditions should refer to).
type R struct {
	s    uint64
	Hint interface{}
}

// New derives a generator from seed, shard and index.
func New(seed, shard, index uint64) *R {
	r := &R{s: seed*0x9E3779B97F4A7C15 ^ shard*0xBF58476D1CE4E5B9 ^ index*0x94D049BB133111EB ^ 0x2545F4914F6CDD1D}
	r.U64()
	r.U64()
	return r
}

// U64 returns the next 64 random bits.
func (r *R) U64() uint64 {
	r.s += 0x9E3779B97F4A7C15
	z := r.s
	z = (z ^ (z >> 30)) * 0xBF58476D1CE4E5B9
	z = (z ^ (z >> 27)) * 0x94D049BB133111EB
	return z ^ (z >> 31)
}

// N returns a number in [0, n).
func (r *R) N(n int) int {
	if n <= 0 {
		return 0
	}
	return int(r.U64() % uint64(n))
}

// P returns true with probability pct/100.
func (r *R) P(pct int) bool { return r.N(100) < pct }

// Pick returns one of the strings.
func (r *R) Pick(xs []string) string { return xs[r.N(len(xs))] }

func mustDec(s string) primitive.Decimal128 {
	d, err := primitive.ParseDecimal128(s)
	if err != nil {
		panic(err)
	}
	return d
}

// Ints is the integer edge pool.
var Ints = []int64{0, 1, -1, 2, -2, 3, 5, 7, 10, 100, 1<<31 - 1, -(1 << 31), 1 << 31, 1<<53 - 1, 1 << 53, 1<<53 + 1, -(1 << 53) - 1,
	1 << 60, 1<<60 + 1, 1<<63 - 1, -(1 << 63), 1<<62 + 1, 4611686018427387904}

// Floats is the double edge pool.
var Floats = []float64{0, math.Copysign(0, -1), 1, -1, 2, 3, 0.1, 0.5, 1.5, -1.5, 2.5, 1e-320, 5e-324, 1 << 53, 1<<53 + 2, 1 << 60, 1 << 63, -(1 << 63),
	9223372036854774784, 1.7976931348623157e308, math.Inf(1), math.Inf(-1), math.NaN(), math.Float64frombits(0x7ff8000000000001),
	math.Float64frombits(0xfff8000000000000), 1e22, 1e23, 123456789.125, 4611686018427387904, 2147483647, 2147483648, -2147483648, 9007199254740993}

// Decs is the Decimal128 edge pool.
var Decs = []primitive.Decimal128{
	mustDec("0"), mustDec("-0"), mustDec("1"), mustDec("1.0"), mustDec("1.00"), mustDec("-1"), mustDec("0.1"), mustDec("0.5"), mustDec("2"), mustDec("3"),
	mustDec("1152921504606847000"), mustDec("1152921504606846976"), mustDec("9223372036854775807.5"), mustDec("9223372036854775808"),
	mustDec("-9223372036854775808"), mustDec("9007199254740993"), mustDec("9007199254740992"),
	mustDec("9999999999999999999999999999999999"), mustDec("1E6111"), mustDec("1E-6176"), mustDec("0.1000000000000000055511151231257827"),
	mustDec("Infinity"), mustDec("-Infinity"), mustDec("NaN"), primitive.NewDecimal128(0x7c00000000000001, 5), // NaN with payload
	primitive.NewDecimal128(0x6000000000000000, 7), // "11" combination form: reads as coefficient 0
	mustDec("1E+3"), mustDec("1000"), mustDec("2147483648"), mustDec("1.5"), mustDec("-1.5"), mustDec("5E-324"),
	mustDec("4.940656458412465441765687928682214E-324"), mustDec("1.7976931348623157E+308"),
}

// Strings is the string pool.
var Strings = []string{"", "a", "b", "ab", "aé", "az", "10", "2", "A", "a\x00", "日本", "abc"}

var oids = []primitive.ObjectID{
	{0, 0, 0, 0, 0, 0, 0, 0, 0, 0, 0, 1}, {0, 0, 0, 0, 0, 0, 0, 0, 0, 0, 0, 2}, {1, 0, 0, 0, 0, 0, 0, 0, 0, 0, 0, 0},
}

var bins = []primitive.Binary{
	{Subtype: 0, Data: []byte{}}, {Subtype: 0, Data: []byte{1}}, {Subtype: 1, Data: []byte{1}}, {Subtype: 0, Data: []byte{2}},
	{Subtype: 0, Data: []byte{1, 2}}, {Subtype: 128, Data: []byte{0}}, {Subtype: 0, Data: []byte{255, 1}},
}

// Number returns a random number of any of the four types, biased to collisions.
func (r *R) Number() interface{} {
	switch r.N(4) {
	case 0:
		n := Ints[r.N(len(Ints))]
		if n >= math.MinInt32 && n <= math.MaxInt32 {
			return int32(n)
		}
		return int32(r.N(7) - 3)
	case 1:
		return Ints[r.N(len(Ints))]
	case 2:
		if r.P(15) {
			// a random double around an integer edge
			n := Ints[r.N(len(Ints))]
			return math.Nextafter(float64(n), float64(r.N(3)-1)*math.MaxFloat64)
		}
		return Floats[r.N(len(Floats))]
	default:
		return Decs[r.N(len(Decs))]
	}
}

// SmallNumber returns small colliding numbers of all four types (1, 1.0, NumberLong(1), Decimal("1.0") …).
func (r *R) SmallNumber() interface{} {
	n := r.N(5) - 1
	switch r.N(4) {
	case 0:
		return int32(n)
	case 1:
		return int64(n)
	case 2:
		if r.P(20) {
			return float64(n) + 0.5
		}
		return float64(n)
	default:
		return mustDec([]string{"-1", "0", "1", "2", "3", "1.0", "2.00"}[r.N(7)])
	}
}

// Scalar returns a random non-container value. now is the wall clock in ms (dates cluster around it).
func (r *R) Scalar() interface{} {
	switch r.N(16) {
	case 0:
		return nil
	case 1, 2, 3:
		return r.SmallNumber()
	case 4, 5:
		return r.Number()
	case 6, 7:
		return Strings[r.N(len(Strings))]
	case 8:
		return oids[r.N(len(oids))]
	case 9:
		return bins[r.N(len(bins))]
	case 10:
		return r.P(50)
	case 11:
		return primitive.DateTime([]int64{0, 1, -1, 1000, 1600000000000, 4102444800000}[r.N(6)])
	case 12:
		if r.P(30) {
			// far-apart seconds and counters (differences beyond 2^31 / 2^63 when packed)
			ts := []uint32{0, 1, 0x3FFFFFFF, 0x40000000, 0x7FFFFFFF, 0x80000000, 0x90000000, 0xFFFFFFFE, 0xFFFFFFFF}
			return primitive.Timestamp{T: ts[r.N(len(ts))], I: ts[r.N(len(ts))]}
		}
		return primitive.Timestamp{T: uint32(r.N(3)), I: uint32(r.N(3))}
	case 13:
		return primitive.Regex{Pattern: []string{"a", "b", "^a"}[r.N(3)], Options: []string{"", "i"}[r.N(2)]}
	default:
		return r.SmallNumber()
	}
}

// Keys is the field-name alphabet.
var Keys = []string{"a", "b", "c", "x"}

// Value returns a random value of nesting depth at most depth.
// nestedArr allows arrays directly inside arrays (outside the C10 core domain).
func (r *R) Value(depth int, nestedArr bool) interface{} {
	if depth <= 0 || r.P(55) {
		return r.Scalar()
	}
	if r.P(50) {
		return r.Doc(depth-1, nestedArr, false)
	}
	return r.Arr(depth-1, nestedArr)
}

// Arr returns a random array.
func (r *R) Arr(depth int, nestedArr bool) bson.A {
	n := r.N(5)
	a := make(bson.A, 0, n)
	for i := 0; i < n; i++ {
		var v interface{}
		switch {
		case depth > 0 && r.P(30):
			v = r.Doc(depth-1, nestedArr, false)
		case depth > 0 && nestedArr && r.P(15):
			v = r.Arr(depth-1, nestedArr)
		default:
			v = r.Scalar()
		}
		a = append(a, v)
	}
	return a
}

// Doc returns a random document; withID adds an _id from a small pool.
func (r *R) Doc(depth int, nestedArr, withID bool) bson.D {
	n := r.N(4)
	if depth > 1 {
		n = 1 + r.N(4)
	}
	d := make(bson.D, 0, n+1)
	if withID {
		d = append(d, bson.E{Key: "_id", Value: r.ID()})
	}
	used := map[string]bool{}
	for i := 0; i < n; i++ {
		k := Keys[r.N(len(Keys))]
		if used[k] {
			continue
		}
		used[k] = true
		d = append(d, bson.E{Key: k, Value: r.Value(depth, nestedArr)})
	}
	return d
}

// ID returns an _id from a small colliding pool.
func (r *R) ID() interface{} {
	switch r.N(10) {
	case 0:
		return int64(r.N(6))
	case 1:
		return float64(r.N(6))
	case 2:
		return Strings[r.N(4)]
	case 3:
		return oids[r.N(len(oids))]
	default:
		return int32(r.N(6))
	}
}

// Path returns a dotted path over the small alphabet.
func (r *R) Path() string {
	segs := []string{"a", "b", "c", "x", "0", "1", "5", "a", "b"}
	n := 1 + r.N(3)
	if r.P(50) {
		n = 1
	}
	p := Keys[r.N(len(Keys))]
	for i := 1; i < n; i++ {
		p += "." + segs[r.N(len(segs))]
	}
	return p
}
