package sched

import (
	"fmt"
	"strings"
)

// CheckRMW is the C04 checker for driver calls that are a read-modify-write: a queue "pop"
// (FindOneAndDelete / FindOneAndUpdate with filter {state: "ready"} and sort {prio: -1}), a
// competing claim (UpdateOne on one job with the same state filter) and upserts.  Such a call must
// be ONE transaction: its choice is made on the state at its own commit point.  The checker replays
// the queue collection commit by commit (oplog snapshots taken at every commit.published) and checks
//
//	rmw-stale-choice     a successful pop / popu / claim acted on a job that, at its commit point in
//	                     the log order, did not match the filter (not ready any more, or gone), or was
//	                     not the best ready job by priority; or it returned a job the log never touches;
//	                     or two concurrent upserts both inserted / the upsert counter lost an update
//	rmw-duplicate-pop    two successful pops returned the same job
//	rmw-spurious-empty   a pop reported "no documents" although at every commit point between its
//	                     invocation and its return a ready job existed
func CheckRMW(o *Outcome) []Viol {
	if o.Sc.Queue == 0 || o.Deadlocked || o.Stalled {
		return nil
	}
	var out []Viol
	bad := func(w, what, detail string) { out = append(out, Viol{"C04", w, what, detail}) }
	type job struct {
		state string
		prio  int
	}
	q := map[string]*job{}
	for i := 1; i <= o.Sc.Queue; i++ {
		q[fmt.Sprintf("j%d", i)] = &job{"ready", i}
	}
	ready := func() (n int, best string) {
		bp := -1
		for id, j := range q {
			if j.state == "ready" {
				n++
				if j.prio > bp {
					bp, best = j.prio, id
				}
			}
		}
		return
	}
	// calls
	popsBy := map[string][]*HRec{} // returned job → successful pops
	byTag := map[string]*HRec{}
	for i := range o.History {
		h := &o.History[i]
		switch h.Kind {
		case "pop":
			if h.Res.Cls == "ok" && h.Sess == 0 && !h.InWtx {
				popsBy[h.Res.Key] = append(popsBy[h.Res.Key], h)
			}
		case "popu", "claim", "ups", "rups":
			byTag[h.Tag] = h
		}
	}
	for id, ps := range popsBy {
		if len(ps) > 1 {
			bad("rmw-duplicate-pop", "two successful pops returned the same job", fmt.Sprintf("%s: actors %d and %d", id, ps[0].Actor, ps[1].Actor))
		}
	}
	// popu returns the updated document: two popu calls with the same job are duplicates as well
	pu := map[string]*HRec{}
	for i := range o.History {
		h := &o.History[i]
		if h.Kind == "popu" && h.Res.Cls == "ok" && h.Sess == 0 && !h.InWtx {
			if other := pu[h.Res.Key]; other != nil {
				bad("rmw-duplicate-pop", "two successful pops returned the same job", fmt.Sprintf("%s: actors %d and %d", h.Res.Key, other.Actor, h.Actor))
			}
			pu[h.Res.Key] = h
		}
	}
	// commit-by-commit replay of the queue collection
	seen := map[uint64]bool{}
	key := func(e *Ev) uint64 { return uint64(e.T)<<32 | uint64(e.I) }
	for _, e := range o.Oplog0 {
		seen[key(e)] = true
	}
	readyAfter := []int{0}
	readyAfter[0], _ = ready()
	touched := map[string]bool{} // jobs deleted / updated in the log
	apply := func(e *Ev) {
		if e.DB != DB || e.Coll != QueueColl {
			return
		}
		id := strings.Trim(e.Key, `"`)
		switch e.Op {
		case "delete":
			touched[id] = true
			callers := popsBy[id]
			n, best := ready()
			j := q[id]
			switch {
			case j == nil:
				bad("rmw-stale-choice", "a job is deleted that is not in the queue at that commit point", id)
			case len(callers) > 0 && j.state != "ready":
				bad("rmw-stale-choice", "a pop deleted and returned a job that no longer matched the filter at its commit point", fmt.Sprintf("%s was %s (actor %d)", id, j.state, callers[0].Actor))
			case len(callers) > 0 && n > 0 && best != id:
				bad("rmw-stale-choice", "a pop returned a job that was not the best ready one at its commit point", fmt.Sprintf("%s, best was %s (actor %d)", id, best, callers[0].Actor))
			}
			delete(q, id)
		case "update", "replace":
			h := byTag[e.Tag]
			if h == nil {
				return
			}
			switch h.Kind {
			case "popu", "claim":
				touched[id] = true
				n, best := ready()
				j := q[id]
				switch {
				case j == nil:
					bad("rmw-stale-choice", "a job is updated that is not in the queue at that commit point", id)
					return
				case j.state != "ready":
					bad("rmw-stale-choice", "a "+h.Kind+" changed a job that no longer matched the filter at its commit point", fmt.Sprintf("%s was %s (actor %d)", id, j.state, h.Actor))
				case h.Kind == "popu" && n > 0 && best != id:
					bad("rmw-stale-choice", "a pop returned a job that was not the best ready one at its commit point", fmt.Sprintf("%s, best was %s (actor %d)", id, best, h.Actor))
				}
				if h.Res.Key != "" && h.Res.Key != id {
					bad("rmw-stale-choice", "the call reports another job than the log shows", fmt.Sprintf("%s vs %s", h.Res.Key, id))
				}
				if h.Kind == "popu" {
					j.state = "taken"
				} else {
					j.state = "claimed"
				}
			}
		}
	}
	for _, r := range o.Trace {
		if r.Kind != "event" || r.Point != "commit.published" || r.Oplog == nil {
			continue
		}
		for _, e := range r.Oplog {
			if !seen[key(e)] {
				seen[key(e)] = true
				apply(e)
			}
		}
		n, _ := ready()
		readyAfter = append(readyAfter, n)
	}
	// every job a successful call returned was really taken in the log
	for i := range o.History {
		h := &o.History[i]
		if (h.Kind == "pop" || h.Kind == "popu") && h.Res.Cls == "ok" && h.Sess == 0 && !h.InWtx && !touched[h.Res.Key] {
			bad("rmw-stale-choice", "a pop returned a job that the log neither deletes nor updates", fmt.Sprintf("%s (actor %d)", h.Res.Key, h.Actor))
		}
	}
	// "no documents" only if nothing matched at some commit point of the call
	for i := range o.History {
		h := &o.History[i]
		if (h.Kind != "pop" && h.Kind != "popu") || h.Res.Cls != "nodoc" || h.Sess != 0 || h.InWtx {
			continue
		}
		ok := false
		for k := int(h.Pub0); k <= int(h.Pub1) && k < len(readyAfter); k++ {
			if readyAfter[k] == 0 {
				ok = true
			}
		}
		if !ok {
			bad("rmw-spurious-empty", "a pop reported no documents although a ready job existed at every commit point of the call",
				fmt.Sprintf("actor %d op %d, commits [%d,%d], ready jobs %v", h.Actor, h.Op, h.Pub0, h.Pub1, readyAfter))
		}
	}
	// a claim that matched nothing although its job was ready during the whole call is the mirror image
	// upserts: exactly one of the successful calls inserted; the counter holds all of them
	nUps, nIns := int64(0), int64(0)
	for i := range o.History {
		h := &o.History[i]
		if h.Kind == "ups" && h.Res.Cls == "ok" && h.Sess == 0 && !h.InWtx {
			nUps++
			nIns += h.Res.Upserted
		}
	}
	if nUps > 0 {
		if nIns != 1 {
			bad("rmw-stale-choice", "concurrent upserts: not exactly one call inserted", fmt.Sprintf("%d of %d", nIns, nUps))
		}
		want := fmt.Sprintf(`"n":{"$numberLong":"%d"}`, nUps)
		found := false
		for _, d := range o.FinalQ {
			if strings.Contains(d, `"_id":"u"`) && strings.Contains(d, want) {
				found = true
			}
		}
		if !found && o.FinalQ != nil {
			bad("rmw-stale-choice", "the upsert counter does not hold all successful upserts", fmt.Sprintf("want n=%d in %v", nUps, o.FinalQ))
		}
	}
	return out
}
