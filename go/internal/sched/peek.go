package sched

import (
	"reflect"
	"unsafe"

	"github.com/256dpi/lungo"
)

// peek reads the synchronisation state of the engine by reflection (unexported fields): whether
// the tomb is alive, e.txn, the number of tokens in the semaphore and whether e.mutex is locked.
// It is only called at quiescent points (no actor is running), so the reads do not race with
// anything but a goroutine that was just unblocked.
func peek(e *lungo.Engine) (o Obs) {
	defer func() {
		if recover() != nil {
			o = Obs{Alive: true, Token: -1}
		}
	}()
	v := reflect.ValueOf(e).Elem()
	exp := func(f reflect.Value) reflect.Value {
		return reflect.NewAt(f.Type(), unsafe.Pointer(f.UnsafeAddr())).Elem()
	}
	// tomb.Alive()
	tb := exp(v.FieldByName("tomb"))
	res := tb.Addr().MethodByName("Alive").Call(nil)
	o.Alive = res[0].Bool()
	// e.txn
	tx := v.FieldByName("txn")
	o.HasTx = !tx.IsNil()
	o.Txn = tx.Pointer()
	// len(e.token.tokens)
	tok := v.FieldByName("token")
	if !tok.IsNil() {
		o.Token = tok.Elem().FieldByName("tokens").Len()
	}
	// e.mutex: first int32 field found (state word; bit 0 = locked)
	o.Mutex = mutexLocked(v.FieldByName("mutex"))
	return o
}

func mutexLocked(m reflect.Value) bool {
	// sync.Mutex{_ noCopy; mu isync.Mutex{state int32; sema uint32}} (layout differs between Go
	// versions): the first int32 found depth-first is the state word, bit 0 = locked
	if m.Kind() == reflect.Int32 {
		return m.Int()&1 == 1
	}
	if m.Kind() != reflect.Struct {
		return false
	}
	for i := 0; i < m.NumField(); i++ {
		f := m.Field(i)
		if f.Kind() == reflect.Int32 {
			return f.Int()&1 == 1
		}
		if f.Kind() == reflect.Struct && f.NumField() > 0 {
			return mutexLocked(f)
		}
	}
	return false
}

// sessionPeek reads s.txn / s.starting / s.ended of a *lungo.Session.
func sessionPeek(s interface{}) (hasTxn, starting, ended bool) {
	defer func() { _ = recover() }()
	v := reflect.ValueOf(s)
	if v.Kind() == reflect.Ptr {
		v = v.Elem()
	}
	return !v.FieldByName("txn").IsNil(), v.FieldByName("starting").Bool(), v.FieldByName("ended").Bool()
}
