package sched

import (
	"bytes"
	"runtime"
	"strconv"
	"strings"
)

// curGID returns the id of the calling goroutine, parsed from the header line of
// runtime.Stack ("goroutine N [running]:").
func curGID() int64 {
	var buf [64]byte
	n := runtime.Stack(buf[:], false)
	b := buf[:n]
	b = bytes.TrimPrefix(b, []byte("goroutine "))
	i := bytes.IndexByte(b, ' ')
	if i < 0 {
		return -1
	}
	id, err := strconv.ParseInt(string(b[:i]), 10, 64)
	if err != nil {
		return -1
	}
	return id
}

// gState is the scheduler state of one goroutine as printed by runtime.Stack.
type gState struct {
	Wait  string // text between the brackets, without duration ("select", "sync.Mutex.Lock", "running", ...)
	Stack string // the frames below the header
}

// allGoroutines snapshots the state of every goroutine of the process.
var snapBuf = make([]byte, 1<<16) // reused: snapshots are only taken by the controller, under Global

func allGoroutines() map[int64]gState {
	var buf []byte
	for {
		n := runtime.Stack(snapBuf, true)
		if n < len(snapBuf) {
			buf = snapBuf[:n]
			break
		}
		snapBuf = make([]byte, 2*len(snapBuf))
	}
	out := map[int64]gState{}
	for _, blk := range strings.Split(string(buf), "\n\n") {
		if !strings.HasPrefix(blk, "goroutine ") {
			continue
		}
		nl := strings.IndexByte(blk, '\n')
		head, rest := blk, ""
		if nl >= 0 {
			head, rest = blk[:nl], blk[nl+1:]
		}
		head = strings.TrimPrefix(head, "goroutine ")
		sp := strings.IndexByte(head, ' ')
		if sp < 0 {
			continue
		}
		id, err := strconv.ParseInt(head[:sp], 10, 64)
		if err != nil {
			continue
		}
		lb, rb := strings.IndexByte(head, '['), strings.LastIndexByte(head, ']')
		if lb < 0 || rb < lb {
			continue
		}
		w := head[lb+1 : rb]
		if c := strings.IndexByte(w, ','); c >= 0 {
			w = w[:c]
		}
		out[id] = gState{Wait: w, Stack: rest}
	}
	return out
}

// blockedIn reports whether a goroutine state is "parked in a blocking primitive of the code under
// test": a waiting scheduler state whose stack has no frame of the controller's own bookkeeping.
func blockedIn(st gState) (string, bool) {
	switch st.Wait {
	case "sync.Mutex.Lock", "sync.RWMutex.Lock", "sync.RWMutex.RLock", "semacquire", "select", "chan receive",
		"chan send", "sync.Cond.Wait", "sync.WaitGroup.Wait", "select (no cases)", "chan receive (nil chan)":
	default:
		return "", false
	}
	if strings.Contains(st.Stack, "sched.(*Controller).on") || strings.Contains(st.Stack, "sched.(*Controller).note") {
		return "", false
	}
	// name the blocking site by the innermost frame of the code under test
	site := "other"
	for _, ln := range strings.Split(st.Stack, "\n") {
		if strings.HasPrefix(ln, "\t") {
			continue
		}
		switch {
		case strings.Contains(ln, "dbkit.(*Semaphore).Acquire"):
			return "token", true
		case strings.Contains(ln, "lungo.(*Stream).next"):
			return "stream.next:" + st.Wait, true
		case strings.Contains(ln, "tomb.v2.(*Tomb).Wait"):
			return "tomb.wait", true
		case strings.Contains(ln, "github.com/256dpi/lungo."):
			f := ln
			if i := strings.Index(f, "github.com/256dpi/lungo."); i >= 0 {
				f = f[i+len("github.com/256dpi/lungo."):]
			}
			if i := strings.IndexByte(f, '('); i > 0 && !strings.HasPrefix(f, "(") {
				f = f[:i]
			} else if j := strings.LastIndexByte(f, '('); j > 0 {
				f = f[:j]
			}
			// only the synchronisation of the engine, its sessions and streams counts; a wait below any
			// other lungo function (reflection caches, option merging, BSON registries: runtime-internal
			// locks that are taken for an instant) is transient, not a blocked actor
			if strings.HasPrefix(f, "(*Engine)") || strings.HasPrefix(f, "(*Session)") || strings.HasPrefix(f, "(*Stream)") {
				return f + ":" + st.Wait, true
			}
			return "", false
		}
	}
	_ = site
	return "", false
}
