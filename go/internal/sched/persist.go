package sched

import (
	"fmt"
	"sort"
	"strings"

	"github.com/256dpi/lungo"
)

// CheckPersistence holds the C05-labelled monitors of the store window ("committed data is the
// persisted data"): the fault-injecting store wrapper records the contents of db.c after every
// successful store (FaultStore.Persisted) and the contents every failed / panicking store call was
// asked to write (FaultStore.Failed).
//
//	visible-before-persisted  every read (find, Engine.Catalog()) of another actor equals a state that
//	                          was the last PERSISTED one at some instant between its invocation and
//	                          its return — in particular while a writer is parked inside its store
//	                          write (store.enter / store.exit) nobody sees the new catalog; and when
//	                          all calls have returned the visible state is the last persisted one
//	failed-commit-visible     after a failed (or panicking) store the visible state is still the last
//	                          persisted one, later commits succeed, and nothing of the failed
//	                          transaction reappears in any later persisted or visible state
//	reload-differs            with a FileStore: the file, loaded again at the end, equals the visible
//	                          state (every namespace, including the oplog)
func CheckPersistence(o *Outcome) []Viol {
	var out []Viol
	w := o.W
	if w == nil || o.Deadlocked || o.Stalled {
		return nil
	}
	bad := func(wit, what, detail string) { out = append(out, Viol{"C05", wit, what, detail}) }
	w.Store.mu.Lock()
	per := append([][]string(nil), w.Store.Persisted...)
	failed := append([][]string(nil), w.Store.Failed...)
	w.Store.mu.Unlock()
	key := func(docs []string) string {
		s := append([]string(nil), docs...)
		sort.Strings(s)
		return strings.Join(s, "\n")
	}
	isFailed := func(k string) bool {
		for _, f := range failed {
			if key(f) == k {
				return true
			}
		}
		return false
	}
	// reads
	for i := range o.History {
		h := &o.History[i]
		if (h.Kind != "find" && h.Kind != "cat") || h.Res.Cls != "ok" || h.Sess != 0 || h.InWtx || h.Res.Docs == nil {
			continue
		}
		got := key(h.Res.Docs)
		ok := false
		for k := h.Per0; k <= h.Per1 && k < len(per); k++ {
			if k >= 0 && key(per[k]) == got {
				ok = true
				break
			}
		}
		if ok {
			continue
		}
		wit, what := "visible-before-persisted", "a read returned a state that was not the persisted one at any instant of the call"
		if isFailed(got) {
			wit, what = "failed-commit-visible", "a read returned the contents of a transaction whose store failed"
		}
		bad(wit, what, fmt.Sprintf("actor %d %s op %d, persisted states [%d,%d]: %v", h.Actor, h.Kind, h.Op, h.Per0, h.Per1, h.Res.Docs))
	}
	// the quiescent visible state is the last persisted one
	if len(per) > 0 && o.Final != nil {
		if got := key(o.Final); got != key(per[len(per)-1]) {
			wit, what := "visible-before-persisted", "after all calls returned the visible state differs from the last persisted state"
			if isFailed(got) {
				wit, what = "failed-commit-visible", "after all calls returned the visible state is that of a transaction whose store failed"
			}
			bad(wit, what, fmt.Sprintf("visible %v persisted %v", o.Final, per[len(per)-1]))
		}
	}
	// nothing of a failed transaction reappears
	firstFail := map[string]int{} // tag → number of persisted states that existed when the call returned
	for i := range o.History {
		h := &o.History[i]
		if h.Sess != 0 || h.InWtx {
			continue
		}
		switch h.Kind {
		case "ins", "ins3", "inc", "fau":
			if h.Res.Cls == "store" || (h.Res.Cls == "panic" && strings.Contains(h.Res.Panic, "injected store panic")) {
				firstFail[h.Tag] = h.Per1
			}
		}
	}
	for tag, from := range firstFail {
		has := func(docs []string) bool {
			s := strings.Join(docs, "\n")
			return strings.Contains(s, `"`+tag+`"`) || strings.Contains(s, `"`+tag+`#`)
		}
		hit := ""
		for k := from; k < len(per) && hit == ""; k++ {
			if k >= 0 && has(per[k]) {
				hit = fmt.Sprintf("persisted state %d", k)
			}
		}
		if hit == "" && has(o.Final) {
			hit = "final visible state"
		}
		if hit != "" {
			bad("failed-commit-visible", "a write whose store failed reappears later", tag+" in "+hit)
		}
	}
	// a commit after the failure must have succeeded and been persisted: the teardown probe of the C16
	// monitors is such a commit (it runs only if the engine is still alive)
	if len(failed) > 0 && !o.ClosedBy && o.ProbeCls != "" && o.ProbeCls != "ok" {
		bad("failed-commit-visible", "no commit succeeds after a failed store", "probe: "+o.ProbeCls)
	}
	// reload
	if w.FilePath != "" {
		cat, err := lungo.NewFileStore(w.FilePath, 0600).Load()
		if err != nil {
			bad("reload-differs", "the store file cannot be loaded again", err.Error())
		} else {
			vis := w.Engine.Catalog()
			seen := map[lungo.Handle]bool{}
			for h := range vis.Namespaces {
				seen[h] = true
			}
			for h := range cat.Namespaces {
				seen[h] = true
			}
			for h := range seen {
				a, b := key(contentsOf(vis, h)), key(contentsOf(cat, h))
				if a != b {
					bad("reload-differs", "the reloaded store file differs from the visible state", fmt.Sprintf("namespace %s: visible %.300s reloaded %.300s", h.String(), a, b))
					break
				}
			}
		}
	}
	return out
}
