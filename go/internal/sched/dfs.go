package sched

// dfs.go — stateless depth-first enumeration of hook-level interleavings (thorough tier).
//
// Every run re-executes the scripts from scratch under a chooser that follows a prefix of choice
// indices and then always takes option 0; after the run the deepest position with an untried
// alternative is advanced.  Options are ordered "continue the last actor first", so choice index
// > 0 at a position where the last actor could continue is a preemption; a preemption bound
// (CHESS style, 0 = unbounded) keeps the enumeration of larger scripts finite in practice.

type dfsChooser struct {
	prefix  []int
	taken   []int
	widths  []int
	bound   int
	preempt int
}

func (d *dfsChooser) Choose(step int, opts []Choice, last Choice) int {
	// order: the last actor's plain continuation first, then the others in actor order
	order := make([]int, 0, len(opts))
	cont := -1
	for i, o := range opts {
		if o.Actor == last.Actor && o.Kind == "go" {
			cont = i
		}
	}
	if cont >= 0 {
		order = append(order, cont)
	}
	for i := range opts {
		if i != cont {
			order = append(order, i)
		}
	}
	width := len(order)
	if d.bound > 0 && d.preempt >= d.bound && cont >= 0 {
		width = 1
	}
	k := 0
	if step < len(d.prefix) {
		k = d.prefix[step]
		if k >= width {
			k = 0
		}
	}
	if k > 0 && cont >= 0 {
		d.preempt++
	}
	d.taken = append(d.taken, k)
	d.widths = append(d.widths, width)
	return order[k]
}

// Explore enumerates the interleavings of a scenario (at most budget runs); visit is called with
// every outcome and may stop the search by returning false.  It reports the number of runs and
// whether the enumeration was exhaustive (under the preemption bound).
func Explore(sc Scenario, budget, bound int, visit func(*Outcome) bool) (runs int, complete bool) {
	var prefix []int
	for runs < budget {
		ch := &dfsChooser{prefix: prefix, bound: bound}
		o := Run(sc, ch)
		runs++
		if !visit(o) {
			return runs, false
		}
		// next prefix
		i := len(ch.taken) - 1
		for ; i >= 0; i-- {
			if ch.taken[i]+1 < ch.widths[i] {
				break
			}
		}
		if i < 0 {
			return runs, true
		}
		prefix = append(append([]int(nil), ch.taken[:i]...), ch.taken[i]+1)
	}
	return runs, false
}
