package sched

import (
	"context"
	"fmt"
	"os"
	"path/filepath"
	"runtime"
	"strings"
	"sync"
	"time"

	"go.mongodb.org/mongo-driver/bson"

	"github.com/256dpi/lungo"
)

// Global serialises scenarios: the verif hook is process-global.
var Global sync.Mutex

// Scenario is a replayable description of one controlled run.
type Scenario struct {
	Kind        string   `json:"kind"`
	Actors      [][]Op   `json:"actors"`
	Sessions    int      `json:"sessions,omitempty"`
	AllowCancel bool     `json:"cancel,omitempty"`
	AllowStore  bool     `json:"store,omitempty"`
	Schedule    []Choice `json:"schedule,omitempty"`
	Shared      bool     `json:"shared,omitempty"` // one session used by two actors
	MinOplog    int      `json:"minOplog,omitempty"`
	MaxOplog    int      `json:"maxOplog,omitempty"`
	Preload     int      `json:"preload,omitempty"`  // writes before the scenario (old events, see watch)
	EmptyStart  bool     `json:"empty,omitempty"`    // do not seed the counter document (oplog starts empty)
	Watch       bool     `json:"watch,omitempty"`    // record oplog snapshots for the C09 monitors
	Queue       int      `json:"queue,omitempty"`    // preload db.q with this many ready jobs (read-modify-write scenarios)
	ExpireMS    int      `json:"expireMs,omitempty"` // ExpireInterval in ms (0: one hour); such runs are monitors-only
	FileStore   bool     `json:"file,omitempty"`     // a real lungo.FileStore (temp file) under the fault wrapper
	Free        bool     `json:"free,omitempty"`     // free-running stress
	FreeFor     int      `json:"freeMs,omitempty"`   //
}

// Viol is a monitor failure (converted to run.Violation by the streams).
type Viol struct {
	Property string
	Witness  string
	What     string
	Detail   string
}

// Outcome is everything a run produced.
type Outcome struct {
	Sc         Scenario
	Trace      []Record
	Schedule   []Choice
	History    []HRec
	Switches   int
	Deadlocked bool
	Stalled    bool
	Diverged   bool
	Viols      []Viol
	Oplog0     []*Ev    // oplog before the scenario started (seed and preloaded old events)
	Oplog      []*Ev    // final oplog (before the teardown probe)
	Final      []string // final contents of db.c (sorted by _id)
	FinalQ     []string // final contents of db.q
	FinalN     []string // final contents of db.n (nil: the scenario does not use it)
	ClosedBy   bool     // the scenario itself closed the engine
	TornDown   bool     // the controller ended client-held transactions to let token waiters finish (stands for the token timeout)
	ProbeCls   string   // result class of the teardown probe write ("" = not run)
	N          int      // number of client actors
	WallMS     float64
	W          *World
}

func (o *Outcome) viol(prop, witness, what, detail string) {
	o.Viols = append(o.Viols, Viol{prop, witness, what, detail})
}

// Run executes a scenario under the controller with the given chooser, runs the C16 monitors and
// cleans up (hook removed, engine closed).  It holds Global for its whole duration.
func Run(sc Scenario, ch Chooser) *Outcome {
	Global.Lock()
	defer Global.Unlock()
	t0 := time.Now()
	out := &Outcome{Sc: sc, N: len(sc.Actors)}
	if !HooksAvailable {
		out.viol("C16", "no-hooks", "harness built without -tags verif", "")
		return out
	}
	badDDLBegins("") // learn (once, before the hooks are installed) which invalid-name calls reach Begin
	base := runtime.NumGoroutine()
	markLungoBase()
	wo := WorldOptions{Sessions: sc.Sessions, NoSeed: sc.EmptyStart}
	wo.Opts.MinOplogSize, wo.Opts.MaxOplogSize = sc.MinOplog, sc.MaxOplog
	if sc.ExpireMS > 0 {
		// a short expiry interval: the expiry goroutine (not driven by the controller) is mid-iteration
		// with high probability when Close comes
		wo.Opts.ExpireInterval = time.Duration(sc.ExpireMS) * time.Millisecond
	}
	if sc.MaxOplog > 0 {
		// size-driven retention: make the age clause as permissive as the engine allows
		wo.Opts.MinOplogAge = time.Nanosecond
	}
	if sc.Preload > 0 {
		// old events (100 s in the past): the age clause of the retention never protects them
		wo.Catalog = oldCatalog(sc.Preload, 100, !sc.EmptyStart)
		wo.NoSeed = true
	}
	if sc.FileStore {
		dir, err := os.MkdirTemp("", "a16store")
		if err == nil {
			defer os.RemoveAll(dir)
			wo.FilePath = filepath.Join(dir, "db.bson")
		}
	}
	w, err := NewWorld(wo)
	if err != nil {
		out.viol("C16", "setup", "cannot open engine", err.Error())
		return out
	}
	out.W = w
	if sc.Queue > 0 {
		// the job queue of the read-modify-write scenarios
		w.Queue = sc.Queue
		for i := 1; i <= sc.Queue; i++ {
			_, _ = w.Client.Database(DB).Collection(QueueColl).InsertOne(nil, bson.D{{Key: "_id", Value: fmt.Sprintf("j%d", i)}, {Key: "state", Value: "ready"}, {Key: "prio", Value: int64(i)}})
		}
	}
	out.Oplog0 = ReadOplog(w.Engine)
	w.Old = out.Oplog0
	c := NewController(w, sc.Actors, ch)
	c.AllowCancel, c.AllowStore, c.PeekOplog = sc.AllowCancel, sc.AllowStore, sc.Watch || sc.Queue > 0
	setHooks(c.onHook)
	c.Run()
	setHooks(nil)
	w.Store.setHook(nil)
	out.Trace, out.Schedule, out.Switches = c.trace, c.Schedule, c.Switches
	out.Deadlocked, out.Stalled, out.Diverged = c.Deadlocked, c.Stalled, c.Diverged
	for _, r := range c.trace {
		if r.Kind == "call" {
			if ci, ok := r.Call.(CallInfo); ok && ci.Call == "close" {
				out.ClosedBy = true
			}
		}
		if r.Kind == "teardown" {
			out.TornDown = true
		}
	}
	traceMonitors(out)
	if c.Deadlocked || c.Stalled {
		wit := "wedged:" + sc.Kind
		if sc.Shared {
			wit = "shared-session-deadlock"
		}
		if closeCalls(sc) > 1 {
			wit = "close-not-prompt:double-close"
		}
		var where []string
		for _, r := range c.trace {
			if r.Kind == "deadlock" || r.Kind == "stall" {
				where = append(where, fmt.Sprintf("%s actor %d at %s", r.Kind, r.Actor, r.Site))
			}
		}
		out.viol("C16", wit, "actors cannot finish their calls although no schedule element is left", strings.Join(where, "; "))
		c.Abandon()
		done := make(chan struct{})
		go func() { w.Engine.Close(); close(done) }()
		select {
		case <-done:
		case <-time.After(300 * time.Millisecond):
		}
		out.History = w.History
		out.WallMS = float64(time.Since(t0).Microseconds()) / 1000
		return out
	}
	w.mu.Lock()
	out.History = append([]HRec(nil), w.History...)
	w.mu.Unlock()
	monitorsC16(out, c, w, base)
	out.Viols = append(out.Viols, CheckHistory(out)...)
	out.Viols = append(out.Viols, CheckPersistence(out)...)
	out.Viols = append(out.Viols, CheckRMW(out)...)
	out.Viols = append(out.Viols, CheckCatalog(out)...)
	out.WallMS = float64(time.Since(t0).Microseconds()) / 1000
	return out
}

// traceMonitors are the C16 checks that only need the trace (they also run when the scenario ends
// in a deadlock).
func traceMonitors(out *Outcome) {
	// a client that HOLDS a write transaction (StartTransaction / locked Begin returned ok, its
	// Commit/Abort/End not yet called) excludes every other writer: nobody else acquires the token
	// in that interval (sessions shared between actors are left out: there the finishing call may
	// come from another actor)
	if !out.Sc.Shared {
		cur := map[int]CallInfo{}
		holder := 0
		for _, r := range out.Trace {
			switch r.Kind {
			case "call":
				ci, _ := r.Call.(CallInfo)
				if !ci.Sub {
					cur[r.Actor] = ci
				}
				if r.Actor == holder {
					switch ci.Op {
					case "scommit", "sabort", "send", "ecommit", "eabort", "close":
						holder = 0
					}
				}
				if ci.Call == "close" {
					holder = 0
				}
			case "teardown":
				holder = 0 // the controller ended the open client transactions
			case "ret":
				ci := cur[r.Actor]
				if r.Final && r.Res != nil && r.Res.Cls == "ok" && (ci.Op == "sstart" || (ci.Op == "ebegin" && ci.Lock)) {
					holder = r.Actor
				}
			case "event":
				if holder != 0 && r.Actor != holder && r.Point == "sem.acquired" && len(r.Args) == 1 && r.Args[0] == true {
					out.viol("C16", "two-writers", "a second writer acquired the write token while a client held an open write transaction",
						fmt.Sprintf("holder actor %d, intruder actor %d at trace #%d", holder, r.Actor, r.Seq))
					holder = 0
				}
			}
		}
	}
	// a Close call never waits for the expiry goroutine at a quiescent point: with every actor parked
	// or blocked, nothing can keep that goroutine from seeing the dying tomb
	nClose := 0
	for _, acts := range out.Sc.Actors {
		for _, op := range acts {
			if op.Kind == "close" {
				nClose++
			}
		}
	}
	for _, r := range out.Trace {
		if (r.Kind == "blocked" || r.Kind == "deadlock" || r.Kind == "stall") && r.Site == "tomb.wait" {
			wit := "close-not-prompt"
			if nClose > 1 {
				wit = "close-not-prompt:double-close"
			}
			out.viol("C16", wit, "Engine.Close is stuck waiting for the expiry goroutine", fmt.Sprintf("actor %d trace #%d", r.Actor, r.Seq))
			break
		}
	}
	// after Engine.Close has returned, no writer may still be queued for the write token — whatever
	// kind of context it waits with (Background, WithCancel / WithTimeout that never fire)
	closedAt := -1
	closer := map[int]bool{}
	for _, r := range out.Trace {
		switch r.Kind {
		case "call":
			if ci, ok := r.Call.(CallInfo); ok && ci.Call == "close" {
				closer[r.Actor] = true
			}
		case "ret":
			if closer[r.Actor] && r.Final && closedAt < 0 {
				closedAt = r.Seq
			}
		case "blocked", "deadlock":
			if closedAt >= 0 && r.Site == "token" {
				ctx := "WithCancel"
				if r.Actor-1 < len(out.Sc.Actors) && r.Op < len(out.Sc.Actors[r.Actor-1]) {
					switch out.Sc.Actors[r.Actor-1][r.Op].Ctx {
					case "bg":
						ctx = "Background"
					case "timeout":
						ctx = "WithTimeout"
					}
				}
				out.viol("C16", "close-not-prompt:queued-writer", "a writer is still queued for the write token after Engine.Close returned",
					fmt.Sprintf("actor %d (context %s) trace #%d, Close returned at #%d", r.Actor, ctx, r.Seq, closedAt))
				return
			}
		}
	}
}

// monitorsC16 runs the implementation-side checks of "the engine never wedges".
func monitorsC16(out *Outcome, c *Controller, w *World, base int) {
	sc := out.Sc
	// (1) no call panics, except injected panics surfacing to their own caller
	injectedStorePanic := map[int]int{}
	for _, r := range out.Trace {
		if r.Kind == "release" && r.Fault == "storePanic" {
			injectedStorePanic[r.Actor]++
		}
	}
	for _, h := range out.History {
		if h.Res.Cls != "panic" {
			continue
		}
		switch {
		case strings.Contains(h.Res.Panic, "semaphore full"):
			out.viol("C16", "release-panic", "Semaphore.Release panicked", fmt.Sprintf("actor %d op %s", h.Actor, h.Kind))
		case strings.Contains(h.Res.Panic, "injected callback panic"):
		case h.Kind == "badddl" && strings.HasPrefix(h.Res.Panic, "lungo: "):
			// a documented argument check of the driver (e.g. DropOne("")): raised before any lock is taken
		case strings.Contains(h.Res.Panic, "injected store panic") && injectedStorePanic[h.Actor] > 0:
		default:
			out.viol("C16", "panic:"+h.Kind, "a call panicked", h.Res.Panic)
		}
	}
	// (1a) a session helper never leaves its transaction behind
	for _, h := range out.History {
		if h.Kind == "wtx" && h.Res.Leak {
			f := "ok"
			if h.Actor-1 < len(sc.Actors) && h.Op < len(sc.Actors[h.Actor-1]) && sc.Actors[h.Actor-1][h.Op].Fault != "" {
				f = sc.Actors[h.Actor-1][h.Op].Fault
			}
			out.viol("C16", "wedged:wtx-"+f, "WithTransaction was left but the session still holds its write transaction (the writer slot stays taken)", fmt.Sprintf("actor %d: %s", h.Actor, h.Res.Cls))
		}
	}
	// (1b) a plain CRUD call never fails with a transaction-bookkeeping error: that would mean another
	// client's call (or the engine) took its transaction away
	for _, h := range out.History {
		if h.Sess != 0 || h.InWtx {
			continue
		}
		switch h.Kind {
		case "ins", "inc", "fau", "upd0", "dup", "bad", "find":
			switch h.Res.Cls {
			case "noActive", "mismatch", "existing", "nested", "missingTxn":
				out.viol("C16", "spurious-txn-error", "a plain call failed with a transaction bookkeeping error", fmt.Sprintf("actor %d %s: %s", h.Actor, h.Kind, h.Res.Cls))
			}
		}
	}
	// ... and the holder of a write transaction can commit it: Commit of the actor's OWN live handle
	// (ecommit) or of an unshared session's transaction never reports that the transaction is gone
	for _, h := range out.History {
		if (h.Kind == "ecommit" || (h.Kind == "scommit" && !sc.Shared)) && (h.Res.Cls == "noActive" || h.Res.Cls == "mismatch") {
			out.viol("C16", "spurious-txn-error", "the holder of a write transaction could not commit it: someone else ended it", fmt.Sprintf("actor %d %s: %s", h.Actor, h.Kind, h.Res.Cls))
		}
	}
	// (2) at most one write transaction at a time: e.txn never changes from one transaction to
	// another without passing through nil; acquired tokens minus releases stays within {0,1}
	var prev uintptr
	held := 0
	for _, r := range out.Trace {
		switch {
		case r.Kind == "quiesce" && r.Obs != nil:
			if prev != 0 && r.Obs.Txn != 0 && r.Obs.Txn != prev {
				out.viol("C16", "two-writers", "e.txn was replaced while a write transaction was active", fmt.Sprintf("seq %d", r.Seq))
			}
			prev = r.Obs.Txn
			if r.Obs.HasTx && r.Obs.Token != 0 {
				out.viol("C16", "two-writers", "a write transaction exists while the token is available", fmt.Sprintf("seq %d", r.Seq))
			}
		case r.Kind == "teardown":
			// the controller's own Abort released the token (its hook events are not recorded)
			if strings.Contains(r.Site, "aborted=true") && held > 0 {
				held--
			}
		case r.Kind == "event" && r.Point == "sem.acquired" && len(r.Args) == 1 && r.Args[0] == true:
			held++
			if held > 1 {
				out.viol("C16", "two-writers", "two token holders", fmt.Sprintf("seq %d", r.Seq))
			}
		case r.Kind == "event" && r.Point == "sem.release":
			held--
			if held < 0 {
				out.viol("C16", "release-panic", "release without a holder", fmt.Sprintf("seq %d", r.Seq))
				held = 0
			}
		}
	}
	// (3) clean up what clients deliberately hold: open session transactions, direct handles
	endedHolds := false
	for id, s := range w.Sessions {
		hasTxn, starting, ended := sessionPeek(s)
		if ended && hasTxn {
			endedHolds = true
		}
		if starting {
			out.viol("C16", "starting-stuck", "session flag starting still set after all calls returned", fmt.Sprintf("session %d", id))
		}
		if hasTxn && !ended {
			_ = s.AbortTransaction(context.Background())
		}
	}
	w.mu.Lock()
	for id, t := range w.handles {
		w.Engine.Abort(t)
		delete(w.handles, id)
	}
	w.mu.Unlock()
	o := peek(w.Engine)
	anyEnded := false
	for _, s := range w.Sessions {
		if _, _, e := sessionPeek(s); e {
			anyEnded = true
		}
	}
	if o.Alive && (o.HasTx || o.Token != 1 || o.Mutex) {
		wit := "wedged:" + sc.Kind
		if anyEnded || endedHolds {
			wit = "ended-session-holds-slot"
		}
		out.viol("C16", wit, "quiescent engine is not free (txn/token/mutex)", fmt.Sprintf("txn=%v token=%d mutex=%v", o.HasTx, o.Token, o.Mutex))
	}
	// final oplog and contents
	out.Oplog, out.Final = ReadOplog(w.Engine), Contents(w.Engine, lungo.Handle{DB, Coll})
	out.FinalQ = Contents(w.Engine, lungo.Handle{DB, QueueColl})
	if w.Engine.Catalog().Namespaces[lungo.Handle{DB, NColl}] != nil || usesN(sc) {
		out.FinalN = Contents(w.Engine, lungo.Handle{DB, NColl})
	}
	// (4) probe write
	if o.Alive {
		ctx, cancel := context.WithTimeout(context.Background(), time.Second)
		res := make(chan string, 1)
		go func() {
			defer func() {
				if recover() != nil {
					res <- "panic"
				}
			}()
			_, err := w.Client.Database("probe").Collection("p").InsertOne(ctx, bson.D{{Key: "x", Value: 1}})
			res <- Classify(err)
		}()
		cls := "hang"
		select {
		case cls = <-res:
		case <-time.After(1500 * time.Millisecond):
			// no answer although the context expired: either the call ignores its context and hangs inside
			// the engine, or this process was starved (loaded machine) — give it a generous second chance
			select {
			case cls = <-res:
			case <-time.After(10 * time.Second):
			}
		}
		cancel()
		out.ProbeCls = cls
		if cls != "ok" {
			wit := "wedged:" + sc.Kind
			if sc.Shared {
				wit = "shared-session-deadlock"
			} else if anyEnded {
				wit = "ended-session-holds-slot"
			}
			out.viol("C16", wit, "probe InsertOne with a 1 s context failed after all calls returned", cls)
		}
	}
	// (5) Close is prompt, every call then reports ErrEngineClosed, goroutines return to the baseline
	if !promptly(func() { defer func() { _ = recover() }(); w.Engine.Close() }) {
		out.viol("C16", closeWit(sc), "Engine.Close did not return within 200 ms", "")
	}
	probes := map[string]func(ctx context.Context) error{
		"insert": func(ctx context.Context) error {
			_, e := w.Client.Database(DB).Collection(Coll).InsertOne(ctx, bson.D{{Key: "x", Value: 1}})
			return e
		},
		"find": func(ctx context.Context) error {
			_, e := w.Client.Database(DB).Collection(Coll).Find(ctx, bson.D{})
			return e
		},
		"start": func(ctx context.Context) error {
			s, e := w.Client.StartSession()
			if e != nil {
				return e
			}
			return s.StartTransaction()
		},
		"watch": func(ctx context.Context) error { _, e := w.Client.Watch(ctx, bson.A{}); return e },
	}
	for name, f := range probes {
		res := make(chan string, 1)
		f := f
		ok := promptly(func() {
			defer func() {
				if p := recover(); p != nil {
					res <- "panic"
				}
			}()
			ctx, cancel := context.WithTimeout(context.Background(), time.Second)
			defer cancel()
			res <- Classify(f(ctx))
		})
		if !ok {
			out.viol("C16", closeWit(sc), "call after Close did not return within 200 ms", name)
		} else if cls := <-res; cls != "closed" {
			out.viol("C16", closeWit(sc), "call after Close did not report ErrEngineClosed", name+": "+cls)
		}
	}
	// the process-wide count returns to the baseline; when other shards of the harness are busy the
	// count is noisy, so the decisive test is: no goroutine is left inside lungo / tomb code
	leak, where := true, ""
	for i := 0; i < 60; i++ {
		if runtime.NumGoroutine() <= base {
			leak = false
			break
		}
		n := 0
		for id, st := range allGoroutines() {
			if !lungoBase[id] && (strings.Contains(st.Stack, "github.com/256dpi/lungo") || strings.Contains(st.Stack, "tomb.v2")) {
				n++
				where = st.Wait + " " + firstLine(st.Stack)
			}
		}
		if n == 0 {
			leak = false
			break
		}
		time.Sleep(time.Duration(200+i*100) * time.Microsecond)
	}
	if leak {
		out.viol("C16", "goroutine-leak", "goroutines did not return to the baseline after Close",
			fmt.Sprintf("baseline %d now %d: %s", base, runtime.NumGoroutine(), where))
	}
}

func firstLine(s string) string {
	if i := strings.IndexByte(s, '\n'); i >= 0 {
		return s[:i]
	}
	return s
}

// ReadOplog returns the events of local.oplog in order.
func ReadOplog(e *lungo.Engine) []*Ev {
	cat := e.Catalog()
	ns := cat.Namespaces[lungo.Oplog]
	if ns == nil {
		return nil
	}
	var out []*Ev
	for _, d := range ns.Documents.List {
		raw, err := bson.Marshal(*d)
		if err != nil {
			continue
		}
		out = append(out, EvOf(raw))
	}
	return out
}

// Contents returns the canonical documents of a namespace sorted by _id order of the engine.
func Contents(e *lungo.Engine, h lungo.Handle) []string {
	return contentsOf(e.Catalog(), h)
}

// contentsOf returns the canonical, sorted documents of one namespace of a catalog.
func contentsOf(cat *lungo.Catalog, h lungo.Handle) []string {
	if cat == nil {
		return []string{}
	}
	ns := cat.Namespaces[h]
	out := []string{}
	if ns == nil {
		return out
	}
	for _, d := range ns.Documents.List {
		out = append(out, canon(*d))
	}
	sortStrings(out)
	return out
}

func sortStrings(xs []string) {
	for i := 1; i < len(xs); i++ {
		for j := i; j > 0 && xs[j] < xs[j-1]; j-- {
			xs[j], xs[j-1] = xs[j-1], xs[j]
		}
	}
}

// lungoBase: goroutines already inside lungo code when a scenario starts (leftovers of an earlier
// scenario that wedged); they are not counted as leaks of the current one.
var lungoBase = map[int64]bool{}

func markLungoBase() {
	lungoBase = map[int64]bool{}
	for id, st := range allGoroutines() {
		if strings.Contains(st.Stack, "github.com/256dpi/lungo") || strings.Contains(st.Stack, "tomb.v2") {
			lungoBase[id] = true
		}
	}
}

// promptly runs f on its own goroutine and reports whether it returns within 200 ms.  On a loaded
// machine a goroutine can be starved for longer than that, so a late goroutine is only counted as
// "not prompt" if it is seen WAITING (parked in a lock, channel operation, select or sleep); while it
// is runnable or running it gets up to 10 s.
func promptly(f func()) bool {
	done := make(chan struct{})
	gidc := make(chan int64, 1)
	go func() {
		defer close(done)
		gidc <- curGID()
		f()
	}()
	gid := <-gidc
	select {
	case <-done:
		return true
	case <-time.After(200 * time.Millisecond):
	}
	for i := 0; i < 200; i++ {
		select {
		case <-done:
			return true
		default:
		}
		switch st := allGoroutines()[gid]; st.Wait {
		case "", "running", "runnable", "syscall", "IO wait", "GC assist wait", "preempted":
		default:
			// waiting: check once more after a moment (a wake-up may be in flight)
			time.Sleep(20 * time.Millisecond)
			select {
			case <-done:
				return true
			default:
			}
			if st2 := allGoroutines()[gid]; st2.Wait == st.Wait {
				return false
			}
		}
		time.Sleep(50 * time.Millisecond)
	}
	return false
}

func usesN(sc Scenario) bool {
	for _, s := range sc.Actors {
		for _, op := range s {
			switch op.Kind {
			case "ccoll", "insn", "insu", "findn", "updall", "crix", "dropn":
				return true
			}
		}
	}
	return false
}

func closeCalls(sc Scenario) int {
	n := 0
	for _, acts := range sc.Actors {
		for _, op := range acts {
			if op.Kind == "close" {
				n++
			}
		}
	}
	return n
}

func closeWit(sc Scenario) string {
	if closeCalls(sc) > 1 {
		return "close-not-prompt:double-close"
	}
	return "close-not-prompt"
}
