package sched

import (
	"reflect"
	"time"
	"unsafe"

	"go.mongodb.org/mongo-driver/bson"
	"go.mongodb.org/mongo-driver/bson/primitive"

	"github.com/256dpi/lungo"
	"github.com/256dpi/lungo/bsonkit"
	"github.com/256dpi/lungo/mongokit"
)

// peekOplog reads e.catalog's oplog WITHOUT taking e.mutex.  It is called from hook points at which
// the calling goroutine itself holds e.mutex (commit.published, watch.locked), or when nothing runs.
func peekOplog(e *lungo.Engine) []*Ev {
	defer func() { _ = recover() }()
	v := reflect.ValueOf(e).Elem().FieldByName("catalog")
	cat, _ := reflect.NewAt(v.Type(), unsafe.Pointer(v.UnsafeAddr())).Elem().Interface().(*lungo.Catalog)
	if cat == nil {
		return nil
	}
	ns := cat.Namespaces[lungo.Oplog]
	if ns == nil {
		return nil
	}
	out := make([]*Ev, 0, len(ns.Documents.List))
	for _, d := range ns.Documents.List {
		raw, err := bson.Marshal(*d)
		if err != nil {
			continue
		}
		out = append(out, EvOf(raw))
	}
	return out
}

// oldCatalog builds a catalog whose oplog holds n OLD events (timestamps shifted into the past by
// ageSeconds, so the age clause of the retention never protects them): n inserts into db.c made on
// a scratch engine, then the oplog is rebuilt by hand with shifted _id.ts / clusterTime.
func oldCatalog(n int, ageSeconds uint32, seed bool) *lungo.Catalog {
	ms := lungo.NewMemoryStore()
	client, engine, err := lungo.Open(nil, lungo.Options{Store: ms, ExpireInterval: time.Hour})
	if err != nil {
		return nil
	}
	coll := client.Database(DB).Collection(Coll)
	if seed {
		_, _ = coll.InsertOne(nil, bson.D{{Key: "_id", Value: "ctr"}, {Key: "n", Value: int64(0)}})
	}
	for i := 0; i < n; i++ {
		_, _ = coll.InsertOne(nil, bson.D{{Key: "_id", Value: "old" + string(rune('a'+i))}, {Key: "tag", Value: "old"}})
	}
	engine.Close()
	cat, _ := ms.Load()
	old := cat.Namespaces[lungo.Oplog]
	fresh := mongokit.NewCollection(false)
	for _, d := range old.Documents.List {
		c := bsonkit.Clone(d)
		if ts, ok := bsonkit.Get(c, "_id.ts").(primitive.Timestamp); ok {
			ts.T -= ageSeconds
			_, _ = bsonkit.Put(c, "_id.ts", ts, false)
			_, _ = bsonkit.Put(c, "clusterTime", ts, false)
		}
		_, _ = fresh.Insert(c)
	}
	out := cat.Clone()
	out.Namespaces[lungo.Oplog] = fresh
	return out
}
