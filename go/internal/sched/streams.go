package sched

import (
	"context"
	"fmt"
	"strings"

	"go.mongodb.org/mongo-driver/bson"
	"go.mongodb.org/mongo-driver/bson/primitive"
	"go.mongodb.org/mongo-driver/mongo/options"

	"github.com/256dpi/lungo"
)

// ErrNoStream is reported for a stream op on an empty slot (Watch failed earlier).
var ErrNoStream = fmt.Errorf("no stream in slot")

// Stream returns the stream stored in a slot.
func (w *World) Stream(slot int) lungo.IChangeStream {
	w.mu.Lock()
	defer w.mu.Unlock()
	return w.streams[slot]
}

// EvOf summarises a change event document.
func EvOf(raw bson.Raw) *Ev {
	var d struct {
		ID struct {
			TS interface{} `bson:"ts"`
		} `bson:"_id"`
		Op string `bson:"operationType"`
		NS struct {
			DB   string `bson:"db"`
			Coll string `bson:"coll"`
		} `bson:"ns"`
		Key  bson.Raw `bson:"documentKey"`
		Full bson.Raw `bson:"fullDocument"`
	}
	_ = bson.Unmarshal(raw, &d)
	e := &Ev{Op: d.Op, DB: d.NS.DB, Coll: d.NS.Coll}
	if ts, ok := d.ID.TS.(primitive.Timestamp); ok {
		e.T, e.I = ts.T, ts.I
	}
	if d.Key != nil {
		if v, err := d.Key.LookupErr("_id"); err == nil {
			e.Key = v.String()
		}
	}
	if d.Full != nil {
		if v, err := d.Full.LookupErr("last"); err == nil {
			e.Tag, _ = v.StringValueOK()
		} else if v, err := d.Full.LookupErr("tag"); err == nil {
			e.Tag, _ = v.StringValueOK()
		} else if v, err := d.Full.LookupErr("by"); err == nil {
			e.Tag, _ = v.StringValueOK()
		}
	}
	return e
}

// watchSkipped reports whether a watch op has no usable start position (then no call is made).
func (w *World) watchSkipped(op Op) bool {
	kind, arg := op.Start, 0
	if i := strings.IndexByte(op.Start, ':'); i > 0 {
		kind = op.Start[:i]
		fmt.Sscanf(op.Start[i+1:], "%d", &arg)
	}
	w.mu.Lock()
	defer w.mu.Unlock()
	switch kind {
	case "resume", "after":
		return w.tokens[arg] == nil
	case "old", "oldtime":
		return arg >= len(w.Old)
	}
	return false
}

func (w *World) streamOp(ctx context.Context, a *actor, op Op, res *OpResult) error {
	switch op.Kind {
	case "watch":
		o := options.ChangeStream()
		kind, arg := op.Start, 0
		if i := strings.IndexByte(op.Start, ':'); i > 0 {
			kind = op.Start[:i]
			fmt.Sscanf(op.Start[i+1:], "%d", &arg)
		}
		w.mu.Lock()
		tok, tm := w.tokens[arg], w.times[arg]
		w.mu.Unlock()
		switch kind {
		case "old", "oldtime":
			// hand-made position: the arg-th event of the oplog that existed before the scenario
			if arg >= len(w.Old) {
				res.Cls = "skipped"
				return nil
			}
			ts := primitive.Timestamp{T: w.Old[arg].T, I: w.Old[arg].I}
			res.Start = w.Old[arg].ID()
			if kind == "old" {
				o.SetResumeAfter(bson.D{{Key: "ts", Value: ts}})
			} else {
				o.SetStartAtOperationTime(&ts)
			}
		case "resume":
			if tok == nil {
				res.Cls = "skipped"
				return nil
			}
			res.Start = fmt.Sprintf("%d.%d", tm.T, tm.I)
			o.SetResumeAfter(tok)
		case "after":
			if tok == nil {
				res.Cls = "skipped"
				return nil
			}
			res.Start = fmt.Sprintf("%d.%d", tm.T, tm.I)
			o.SetStartAfter(tok)
		case "time":
			// at the cluster time of the last event delivered on the slot
			t := tm
			res.Start = fmt.Sprintf("%d.%d", tm.T, tm.I)
			o.SetStartAtOperationTime(&t)
		case "time0":
			o.SetStartAtOperationTime(&primitive.Timestamp{T: 1, I: 0})
		}
		db, coll := DB, Coll
		if op.DB != "" {
			db = op.DB
		}
		if op.Coll != "" {
			coll = op.Coll
		}
		var s lungo.IChangeStream
		var err error
		switch op.Scope {
		case "db":
			s, err = w.Client.Database(db).Watch(ctx, bson.A{}, o)
		case "coll":
			s, err = w.Client.Database(db).Collection(coll).Watch(ctx, bson.A{}, o)
		default:
			s, err = w.Client.Watch(ctx, bson.A{}, o)
		}
		if err == nil {
			w.mu.Lock()
			w.streams[op.Stream] = s
			w.mu.Unlock()
		}
		return err
	case "next", "trynext":
		s := w.Stream(op.Stream)
		if s == nil {
			res.Cls = "skipped"
			return nil
		}
		if op.Kind == "next" {
			res.Has = s.Next(ctx)
		} else {
			res.Has = s.TryNext(ctx)
		}
		if res.Has {
			var raw bson.Raw
			if err := s.Decode(&raw); err != nil {
				return err
			}
			res.Ev = EvOf(raw)
			if res.Ev.Op != "invalidate" {
				w.mu.Lock()
				w.tokens[op.Stream] = s.ResumeToken()
				w.times[op.Stream] = primitive.Timestamp{T: res.Ev.T, I: res.Ev.I}
				w.mu.Unlock()
			}
			return nil
		}
		if e := s.Err(); e != nil {
			res.StreamErr = Classify(e)
		}
		return nil
	case "sclose":
		s := w.Stream(op.Stream)
		if s == nil {
			res.Cls = "skipped"
			return nil
		}
		return s.Close(ctx)
	}
	return nil
}
