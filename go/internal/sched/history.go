package sched

import (
	"fmt"
	"sort"
	"strings"

	"go.mongodb.org/mongo-driver/bson"
	"go.mongodb.org/mongo-driver/mongo/options"

	"github.com/256dpi/lungo"
)

// CheckHistory is the C04 history checker.  It is independent of the model: it takes the call
// history (invocation/return stamps of a global logical clock, commit counters, results) and the
// final oplog, replays the committed writes ONE AT A TIME in oplog order on a fresh engine, and
// checks
//
//	not-serializable   every write call's result and the final contents equal the serial replay;
//	                   acknowledged writes are in the log, failed ones are not; the events of one
//	                   transaction are contiguous
//	real-time-order    the log order extends the returned-before-invoked order
//	read-not-a-prefix  every read equals the contents after a log prefix that was current at some
//	                   instant between its invocation and its return
//	lost-update        the counter equals the number of successful increments and no two
//	                   increments return the same value
func CheckHistory(o *Outcome) []Viol {
	var out []Viol
	bad := func(w, what, detail string) { out = append(out, Viol{"C04", w, what, detail}) }
	if o.Deadlocked || o.Stalled || o.Oplog == nil {
		return nil
	}
	if o.Sc.Preload > 0 || o.Sc.MaxOplog > 0 {
		return nil // the log is trimmed by retention: not replayable from the final oplog
	}
	isWrite := func(k string) bool { return k == "ins" || k == "ins3" || k == "inc" || k == "fau" }
	// the documents of a multi-document insert carry the call's tag plus "#i"
	norm := func(t string) string {
		if i := strings.IndexByte(t, '#'); i >= 0 {
			return t[:i]
		}
		return t
	}
	multi := map[string]int{}
	byTag := map[string]*HRec{}
	for i := range o.History {
		h := &o.History[i]
		if isWrite(h.Kind) {
			byTag[h.Tag] = h
		}
	}
	// the log as a sequence of tags
	var log []string
	pos := map[string]int{}
	seed := 0
	for _, e := range o.Oplog {
		if e.DB != DB || e.Coll != Coll {
			return nil // scenarios with other namespaces (watch stream) are not replayable here
		}
		if e.Tag == "" {
			if e.Key == `"ctr"` && e.Op == "insert" && len(log) == 0 {
				seed++
				continue
			}
			return nil // untagged writes (delete, drop): outside the checker's vocabulary
		}
		t := norm(e.Tag)
		if t != e.Tag {
			multi[t]++
			if len(log) > 0 && log[len(log)-1] == t {
				continue // further document of the same insert, contiguous
			}
		}
		if _, dup := pos[t]; dup {
			bad("not-serializable", "a write appears twice in the log (or a multi-document insert is not contiguous)", e.Tag)
			continue
		}
		pos[t] = len(log)
		log = append(log, t)
	}
	for t, n := range multi {
		if n != 3 {
			bad("not-serializable", "a multi-document insert is only partly in the log", fmt.Sprintf("%s: %d of 3", t, n))
		}
	}
	// writes made inside a helper callback (WithTransaction / UseSession) whose transaction was
	// abandoned — the callback failed, panicked, called Goexit, aborted, or simply did not commit —
	// must not be in the log
	abandoned := func(h *HRec) bool {
		if !h.InWtx || h.Actor-1 >= len(o.Sc.Actors) || h.Op >= len(o.Sc.Actors[h.Actor-1]) {
			return false
		}
		op := o.Sc.Actors[h.Actor-1][h.Op]
		switch op.Kind {
		case "usess":
			return op.Fault != ""
		case "wtx":
			switch op.Fault {
			case "cbPanic", "cbErr", "goexit", "cbAbort":
				return true
			}
		}
		return false
	}
	for tag, h := range byTag {
		if _, logged := pos[tag]; logged && abandoned(h) {
			bad("not-serializable", "a write of an abandoned helper transaction is in the log", tag)
		}
	}
	// acknowledged vs logged
	for tag, h := range byTag {
		_, logged := pos[tag]
		ack := h.Res.Cls == "ok" && h.Res.Wrote
		switch {
		case logged && !ack && h.Res.Cls != "ok":
			bad("not-serializable", "a write call that reported "+h.Res.Cls+" is in the log", tag)
		case !logged && ack && (h.Sess == 0 || h.OwnCommit) && !h.InWtx:
			w := "not-serializable"
			if h.Kind != "ins" && h.Kind != "ins3" {
				w = "lost-update"
			}
			bad(w, "an acknowledged write is missing from the log", tag)
		}
	}
	for _, tag := range log {
		if byTag[tag] == nil {
			bad("not-serializable", "the log holds a write nobody issued", tag)
			return out
		}
	}
	// transaction groups: a plain call is its own transaction; calls of one WithTransaction belong
	// together; calls with a session context are grouped per session between commits
	commitsOf := map[int][]*HRec{} // successful CommitTransaction calls per session, by invocation
	wtxOf := map[[2]int]*HRec{}
	for i := range o.History {
		w := &o.History[i]
		if w.Kind == "scommit" && w.Res.Cls == "ok" {
			commitsOf[w.Sess] = append(commitsOf[w.Sess], w)
		}
		if w.Kind == "wtx" || w.Kind == "usess" {
			wtxOf[[2]int{w.Actor, w.Op}] = w
		}
	}
	for _, cs := range commitsOf {
		sort.Slice(cs, func(i, j int) bool { return cs[i].Inv < cs[j].Inv })
	}
	commitOf := func(h *HRec) *HRec {
		for _, w := range commitsOf[h.Sess] {
			if w.Inv > h.Ret {
				return w
			}
		}
		return nil
	}
	group := func(h *HRec) string {
		switch {
		case h.InWtx:
			return fmt.Sprintf("w%d.%d", h.Actor, h.Op)
		case h.Sess != 0 && !h.OwnCommit:
			// the call ran on the session's transaction (a call with a session context whose session
			// had no transaction runs, and commits, on its own)
			if w := commitOf(h); w != nil {
				return fmt.Sprintf("s%d.%d", h.Sess, w.Inv)
			}
			return fmt.Sprintf("s%d", h.Sess)
		}
		return h.Tag
	}
	type txn struct {
		g    string
		tags []string
	}
	var txns []txn
	for _, tag := range log {
		g := group(byTag[tag])
		if n := len(txns); n > 0 && txns[n-1].g == g {
			txns[n-1].tags = append(txns[n-1].tags, tag)
		} else {
			txns = append(txns, txn{g, []string{tag}})
		}
	}
	seenG := map[string]bool{}
	for _, t := range txns {
		if seenG[t.g] && strings.HasPrefix(t.g, "w") {
			bad("not-serializable", "the events of one transaction are not contiguous in the log", t.g)
		}
		seenG[t.g] = true
	}
	// serial replay
	ms := lungo.NewMemoryStore()
	client, engine, err := lungo.Open(nil, lungo.Options{Store: ms, ExpireInterval: 1 << 40})
	if err != nil {
		return out
	}
	defer engine.Close()
	coll := client.Database(DB).Collection(Coll)
	if seed > 0 {
		_, _ = coll.InsertOne(nil, bson.D{{Key: "_id", Value: "ctr"}, {Key: "n", Value: int64(0)}})
	}
	snaps := [][]string{Contents(engine, lungo.Handle{DB, Coll})}
	upd := func(tag string) bson.D {
		return bson.D{{Key: "$inc", Value: bson.D{{Key: "n", Value: int64(1)}}}, {Key: "$set", Value: bson.D{{Key: "last", Value: tag}}}}
	}
	for _, t := range txns {
		for _, tag := range t.tags {
			h := byTag[tag]
			var got OpResult
			switch h.Kind {
			case "ins":
				_, e := coll.InsertOne(nil, bson.D{{Key: "_id", Value: tag}, {Key: "tag", Value: tag}})
				got.Cls = Classify(e)
			case "ins3":
				docs := []interface{}{}
				for i := 0; i < 3; i++ {
					t := fmt.Sprintf("%s#%d", tag, i)
					docs = append(docs, bson.D{{Key: "_id", Value: t}, {Key: "tag", Value: t}})
				}
				r, e := coll.InsertMany(nil, docs)
				got.Cls = Classify(e)
				if r != nil {
					got.Matched = int64(len(r.InsertedIDs))
				}
			case "inc":
				r, e := coll.UpdateOne(nil, bson.D{{Key: "_id", Value: "ctr"}}, upd(tag))
				got.Cls = Classify(e)
				if r != nil {
					got.Matched, got.Modified = r.MatchedCount, r.ModifiedCount
				}
			case "fau":
				var d bson.D
				e := coll.FindOneAndUpdate(nil, bson.D{{Key: "_id", Value: "ctr"}}, upd(tag),
					options.FindOneAndUpdate().SetReturnDocument(options.After)).Decode(&d)
				got.Cls = Classify(e)
				if e == nil {
					got.Doc = canon(d)
					got.Matched, got.Modified = 1, 1
				}
			}
			if got.Cls != h.Res.Cls || got.Matched != h.Res.Matched || got.Modified != h.Res.Modified || got.Doc != h.Res.Doc {
				bad("not-serializable", "a write call's result differs from the serial replay in log order",
					fmt.Sprintf("%s: concurrent {%s m=%d d=%d %s} serial {%s m=%d d=%d %s}", tag, h.Res.Cls, h.Res.Matched, h.Res.Modified, h.Res.Doc,
						got.Cls, got.Matched, got.Modified, got.Doc))
			}
		}
		snaps = append(snaps, Contents(engine, lungo.Handle{DB, Coll}))
	}
	final := snaps[len(snaps)-1]
	if strings.Join(final, "\n") != strings.Join(o.Final, "\n") {
		bad("not-serializable", "final contents differ from the serial replay", fmt.Sprintf("concurrent %v serial %v", o.Final, final))
	}
	// real-time order
	pubRet := func(h *HRec) (int64, bool) {
		switch {
		case h.InWtx:
			if w := wtxOf[[2]int{h.Actor, h.Op}]; w != nil {
				return w.Ret, true
			}
			return 0, false
		case h.Sess != 0 && !h.OwnCommit:
			if w := commitOf(h); w != nil {
				return w.Ret, true
			}
			return 0, false
		}
		return h.Ret, true
	}
	maxInv, maxTag := int64(-1), ""
	for _, t1 := range log {
		h1 := byTag[t1]
		if r1, ok := pubRet(h1); ok && r1 < maxInv {
			bad("real-time-order", "a write that returned before another was invoked is logged after it", t1+" / "+maxTag)
		}
		if h1.Inv > maxInv {
			maxInv, maxTag = h1.Inv, t1
		}
	}
	// reads
	for i := range o.History {
		h := &o.History[i]
		if h.Kind != "find" || h.Res.Cls != "ok" || h.Sess != 0 || h.InWtx {
			continue
		}
		docs := append([]string(nil), h.Res.Docs...)
		sort.Strings(docs)
		lo, hi := int(h.Pub0), int(h.Pub1)
		if hi >= len(snaps) {
			hi = len(snaps) - 1
		}
		found := false
		for k := lo; k <= hi && k < len(snaps); k++ {
			s := append([]string(nil), snaps[k]...)
			sort.Strings(s)
			if strings.Join(s, "\n") == strings.Join(docs, "\n") {
				found = true
				break
			}
		}
		if !found {
			bad("read-not-a-prefix", "a read does not equal the contents after any log prefix current during the call",
				fmt.Sprintf("actor %d op %d window [%d,%d] of %d commits: %v", h.Actor, h.Op, lo, hi, len(snaps)-1, docs))
		}
	}
	// lost updates
	want := int64(0)
	seenN := map[string]string{}
	for i := range o.History {
		h := &o.History[i]
		if h.Kind != "inc" && h.Kind != "fau" {
			continue
		}
		_, logged := pos[h.Tag]
		if h.Res.Cls == "ok" && h.Res.Modified == 1 && (logged || ((h.Sess == 0 || h.OwnCommit) && !h.InWtx)) {
			want++
		}
		if h.Kind == "fau" && h.Res.Doc != "" && logged {
			var d struct {
				N int64 `bson:"n"`
			}
			_ = bson.UnmarshalExtJSON([]byte(h.Res.Doc), true, &d)
			key := fmt.Sprint(d.N)
			if other, dup := seenN[key]; dup {
				bad("lost-update", "two increments returned the same counter value", other+" / "+h.Tag)
			}
			seenN[key] = h.Tag
		}
	}
	if seed > 0 {
		have := int64(-1)
		for _, d := range o.Final {
			var doc struct {
				ID interface{} `bson:"_id"`
				N  int64       `bson:"n"`
			}
			if bson.UnmarshalExtJSON([]byte(d), true, &doc) == nil && doc.ID == "ctr" {
				have = doc.N
			}
		}
		if have != want {
			bad("lost-update", "the counter differs from the number of successful increments", fmt.Sprintf("counter %d, increments %d", have, want))
		}
	}
	return out
}
