//go:build !verif

package sched

// HooksAvailable reports whether /repo was compiled with its verification hooks (build tag verif).
const HooksAvailable = false

func setHooks(h func(point string, args ...interface{})) {}
