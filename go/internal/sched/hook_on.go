//go:build verif

package sched

import (
	"github.com/256dpi/lungo"
	"github.com/256dpi/lungo/dbkit"
)

// HooksAvailable reports whether /repo was compiled with its verification hooks.
const HooksAvailable = true

func setHooks(h func(point string, args ...interface{})) {
	lungo.VerifSetHook(h)
	dbkit.VerifSetHook(h)
}
