package sched

import (
	"context"
	"errors"
	"fmt"
	"runtime"
	"strings"
	"sync"
	"sync/atomic"
	"time"

	"go.mongodb.org/mongo-driver/bson"
	"go.mongodb.org/mongo-driver/bson/primitive"
	"go.mongodb.org/mongo-driver/mongo"
	"go.mongodb.org/mongo-driver/mongo/options"

	"github.com/256dpi/lungo"
)

// CallInfo describes a (sub)call in the vocabulary of the Lean model (Lungo.Conc.Call).
type CallInfo struct {
	Call string // useTx | begin | commit | abort | sessStart | sessCommit | sessAbort | sessEnd | close | crit | none
	Lock bool
	Sess int    // 0 = none
	Crit string // watch | cancel | read
	Op   string // real operation kind
	Sub  bool   // a call made from inside a composite call (WithTransaction callback)
}

// OpResult is the canonical outcome of one real call.
type OpResult struct {
	Cls       string   `json:"cls"`             // ok | closed | ctx | timeout | nested | existing | noActive | mismatch | store | callback | sessEnded | missingTxn | dup | lost | panic
	Panic     string   `json:"panic,omitempty"` // panic value text (monitors only)
	Matched   int64    `json:"m,omitempty"`
	Modified  int64    `json:"d,omitempty"`
	Upserted  int64    `json:"u,omitempty"`
	Leak      bool     `json:"leak,omitempty"`  // wtx: the session still held its transaction when WithTransaction was left
	Key       string   `json:"key,omitempty"`   // pop/popu: _id of the returned job; claim: the job addressed
	Doc       string   `json:"doc,omitempty"`   // findOneAndUpdate: returned document
	Docs      []string `json:"docs,omitempty"`  // find: contents
	Has       bool     `json:"has,omitempty"`   // next/trynext returned true
	Ev        *Ev      `json:"ev,omitempty"`    // delivered event
	StreamErr string   `json:"serr,omitempty"`  // class of stream.Err() after a false Next
	Wrote     bool     `json:"w,omitempty"`     // the call changed its transaction
	Start     string   `json:"start,omitempty"` // watch: the start position actually used ("T.I" of the token / time)
}

// Ev summarises a change event.
type Ev struct {
	T, I uint32
	Op   string
	DB   string
	Coll string
	Key  string
	Tag  string
}

func (e *Ev) ID() string { return fmt.Sprintf("%d.%d", e.T, e.I) }

// HRec is one entry of the call history (C04 checker).
type HRec struct {
	Actor, Op, Sub int
	Kind           string
	Sess           int
	InWtx          bool
	Tag            string
	Inv, Ret       int64 // global logical clock
	Pub0, Pub1     int64 // commits published at invocation / at return
	Per0, Per1     int   // index of the last persisted state at invocation / at return
	OwnCommit      bool  // the call itself published a commit (it ran on its own transaction, not the session's)
	Res            OpResult
}

var errStoreFault = errors.New("injected store failure")

// FaultStore wraps a MemoryStore; the next Store call can be made to fail or panic.
type FaultStore struct {
	mu    sync.Mutex
	inner lungo.Store
	next  string
	Calls int
	hook  func(point string, args ...interface{})
	// Persisted[k] = contents of db.c after the k-th successful store (0 = state the scenario starts
	// with); Failed = contents the failed / panicking store calls were asked to write
	Persisted [][]string
	Failed    [][]string
}

func (s *FaultStore) setNext(k string) { s.mu.Lock(); s.next = k; s.mu.Unlock() }

func (s *FaultStore) Load() (*lungo.Catalog, error) { return s.inner.Load() }

// Store is itself a pair of parking points (pseudo hooks store.enter / store.exit, effective only
// when called from an actor goroutine): the controller can run other actors while a writer is
// INSIDE the store write of its commit.  On correct code every other writer is then blocked and
// readers see the old catalog (the model takes store+publish as one step).
func (s *FaultStore) Store(c *lungo.Catalog) error {
	s.mu.Lock()
	k := s.next
	s.next = ""
	s.Calls++
	hook := s.hook
	s.mu.Unlock()
	if hook != nil {
		hook("store.enter")
	}
	switch k {
	case "storeFail", "storePanic":
		s.mu.Lock()
		s.Failed = append(s.Failed, contentsOf(c, lungo.Handle{DB, Coll}))
		s.mu.Unlock()
		if k == "storeFail" {
			return errStoreFault
		}
		panic("injected store panic")
	}
	err := s.inner.Store(c)
	if err == nil {
		// the persisted state changes exactly here (C05 monitors)
		s.mu.Lock()
		s.Persisted = append(s.Persisted, contentsOf(c, lungo.Handle{DB, Coll}))
		s.mu.Unlock()
	}
	if hook != nil {
		hook("store.exit")
	}
	return err
}

// persistedIndex is the index of the last persisted state.
func (s *FaultStore) persistedIndex() int {
	s.mu.Lock()
	defer s.mu.Unlock()
	return len(s.Persisted) - 1
}

func (s *FaultStore) setHook(h func(point string, args ...interface{})) {
	s.mu.Lock()
	s.hook = h
	s.mu.Unlock()
}

// World is one engine with its sessions, streams and transaction handles.
type World struct {
	Client   lungo.IClient
	Engine   *lungo.Engine
	Store    *FaultStore
	Sessions map[int]lungo.ISession
	ctl      *Controller

	mu       sync.Mutex
	streams  map[int]lungo.IChangeStream
	tokens   map[int]bson.Raw            // resume token of the last event delivered on a slot
	times    map[int]primitive.Timestamp // cluster time of the last event delivered on a slot
	handles  map[int]*lungo.Transaction
	stale    map[int]*lungo.Transaction // finished handles (for the misuse op estale)
	History  []HRec
	seq      int
	Queue    int    // number of preloaded jobs in db.q
	FilePath string // file of the FileStore ("" = memory store)
	Old      []*Ev  // oplog before the scenario (targets of the hand-made start positions old:<k>, oldtime:<k>)
}

// DB and Coll are the default namespace of the scenarios.
const (
	DB        = "db"
	Coll      = "c"
	NColl     = "n" // a collection that does not exist at the start (catalog-level scenarios)
	QueueColl = "q" // the job queue of the read-modify-write scenarios (Scenario.Queue jobs j1..jN, prio i, state ready)
)

// WorldOptions configures the engine of a world.
type WorldOptions struct {
	Sessions int
	Opts     lungo.Options
	Catalog  *lungo.Catalog // initial catalog (nil: empty)
	NoSeed   bool           // do not insert the counter document
	FilePath string         // non-empty: use a lungo.FileStore on this path instead of the memory store
}

// NewWorld opens an engine on a fault-injecting memory store and seeds the counter document.
func NewWorld(o WorldOptions) (*World, error) {
	var ms lungo.Store = lungo.NewMemoryStore()
	if o.FilePath != "" {
		// a real (slow) store: the catalog is BSON-encoded and written atomically to a file
		ms = lungo.NewFileStore(o.FilePath, 0600)
	}
	if o.Catalog != nil {
		_ = ms.Store(o.Catalog)
	}
	fs := &FaultStore{inner: ms}
	opts := o.Opts
	opts.Store = fs
	if opts.ExpireInterval == 0 {
		opts.ExpireInterval = time.Hour
	}
	client, engine, err := lungo.Open(nil, opts)
	if err != nil {
		return nil, err
	}
	w := &World{Client: client, Engine: engine, Store: fs, Sessions: map[int]lungo.ISession{},
		streams: map[int]lungo.IChangeStream{}, tokens: map[int]bson.Raw{}, times: map[int]primitive.Timestamp{},
		handles: map[int]*lungo.Transaction{}, stale: map[int]*lungo.Transaction{}}
	for i := 1; i <= o.Sessions; i++ {
		s, err := client.StartSession()
		if err != nil {
			return nil, err
		}
		w.Sessions[i] = s
	}
	if !o.NoSeed {
		if _, err := client.Database(DB).Collection(Coll).InsertOne(nil, bson.D{{Key: "_id", Value: "ctr"}, {Key: "n", Value: int64(0)}}); err != nil {
			return nil, err
		}
	}
	fs.mu.Lock()
	fs.Persisted = [][]string{Contents(engine, lungo.Handle{DB, Coll})}
	fs.mu.Unlock()
	w.FilePath = o.FilePath
	return w, nil
}

// Classify maps an error to its class (sentinels first; the engine's fmt.Errorf errors have no
// sentinel and are recognised by their fixed text).
func Classify(err error) string {
	switch {
	case err == nil:
		return "ok"
	case errors.Is(err, lungo.ErrEngineClosed):
		return "closed"
	case errors.Is(err, context.Canceled), errors.Is(err, context.DeadlineExceeded):
		return "ctx"
	case errors.Is(err, lungo.ErrSessionEnded):
		return "sessEnded"
	case errors.Is(err, errStoreFault):
		return "store"
	case errors.Is(err, lungo.ErrLostOplogPosition):
		return "lost"
	case errors.Is(err, errCallback):
		return "callback"
	case errors.Is(err, mongo.ErrNoDocuments):
		return "nodoc"
	}
	s := err.Error()
	switch {
	case strings.Contains(s, "token acquisition timeout"):
		return "timeout"
	case strings.Contains(s, "detected nested transaction"):
		return "nested"
	case strings.Contains(s, "existing transaction"):
		return "existing"
	case strings.Contains(s, "no active transaction"):
		return "noActive"
	case strings.Contains(s, "transaction mismatch"):
		return "mismatch"
	case strings.Contains(s, "missing transaction"):
		return "missingTxn"
	}
	if mongo.IsDuplicateKeyError(err) || strings.Contains(s, "duplicate") {
		return "dup"
	}
	return "callback"
}

var errCallback = errors.New("injected callback error")

func canon(v interface{}) string {
	b, err := bson.MarshalExtJSON(v, true, false)
	if err != nil {
		return "!" + err.Error()
	}
	return string(b)
}

func (w *World) coll(op Op) lungo.ICollection {
	db, c := DB, Coll
	if op.DB != "" {
		db = op.DB
	}
	if op.Coll != "" {
		c = op.Coll
	}
	return w.Client.Database(db).Collection(c)
}

func (w *World) record(h HRec) {
	w.mu.Lock()
	w.History = append(w.History, h)
	w.mu.Unlock()
}

// modelCall gives the model-level call of a simple op.
func modelCall(op Op) CallInfo {
	switch op.Kind {
	case "ins", "ins3", "inc", "fau", "upd0", "dup", "bad", "del", "drop", "dropdb", "pop", "popu", "claim", "ups", "rups",
		"ccoll", "insn", "insu", "updall", "crix", "dropn":
		return CallInfo{Call: "useTx", Lock: true, Sess: op.Sess, Op: op.Kind}
	case "find", "findn":
		return CallInfo{Call: "useTx", Lock: false, Sess: op.Sess, Op: op.Kind}
	case "badddl":
		if badDDLBegins(op.Fault) {
			return CallInfo{Call: "useTx", Lock: true, Sess: op.Sess, Op: op.Kind}
		}
		return CallInfo{Call: "none", Op: op.Kind}
	case "sstart":
		return CallInfo{Call: "sessStart", Sess: op.Sess, Op: op.Kind}
	case "scommit":
		return CallInfo{Call: "sessCommit", Sess: op.Sess, Op: op.Kind}
	case "sabort":
		return CallInfo{Call: "sessAbort", Sess: op.Sess, Op: op.Kind}
	case "send":
		return CallInfo{Call: "sessEnd", Sess: op.Sess, Op: op.Kind}
	case "ebegin":
		return CallInfo{Call: "begin", Lock: op.Lock, Op: op.Kind}
	case "ecommit":
		return CallInfo{Call: "commit", Op: op.Kind}
	case "eabort":
		return CallInfo{Call: "abort", Op: op.Kind}
	case "close":
		return CallInfo{Call: "close", Op: op.Kind}
	case "watch":
		return CallInfo{Call: "crit", Crit: "watch", Op: op.Kind}
	case "cat":
		return CallInfo{Call: "crit", Crit: "read", Op: op.Kind}
	case "wtx":
		return CallInfo{Call: "sessStart", Sess: op.Sess, Op: op.Kind}
	}
	return CallInfo{Call: "none", Op: op.Kind}
}

// Do executes one script op of actor a on the real API, wrapped in recover(), and records it.
func (w *World) Do(a *actor, idx int, op Op) {
	c := w.ctl
	// context kinds: "" = WithCancel (cancellable by the controller), "bg" = context.Background()
	// (never done), "timeout" = WithTimeout 30 s (a Done channel that never fires within a scenario)
	var ctx context.Context
	var cancel context.CancelFunc
	switch op.Ctx {
	case "bg":
		ctx = context.Background()
	case "timeout":
		ctx, cancel = context.WithTimeout(context.Background(), 30*time.Second)
		defer cancel()
	default:
		ctx, cancel = context.WithCancel(context.Background())
		defer cancel()
	}
	dead := false
	if op.Fault == "precancel" && cancel != nil {
		cancel()
		dead = true
	}
	c.setCancel(a, cancel, dead)
	defer c.setCancel(a, nil, true)
	n := op.N
	if n <= 0 || !c.Free {
		n = 1
	}
	for rep := 0; rep < n; rep++ {
		info := modelCall(op)
		if op.Kind == "usess" {
			info = CallInfo{Call: "sessStart", Sess: 100*a.id + idx + 1, Op: "usess"}
		}
		if (op.Kind == "ecommit" || op.Kind == "eabort") && !w.Handle(a.id) {
			info.Call = "none"
		}
		if op.Kind == "ebegin" && op.Lock && w.Handle(a.id) {
			// the model has one handle per actor: a second locked Begin is not expressible
			info.Call = "none"
			op.Kind = "skip"
		}
		if op.Kind == "watch" && w.watchSkipped(op) {
			// the start position does not exist (nothing delivered on the source slot): no call is made
			info.Call = "none"
		}
		c.noteCall(a.id, info)
		res := w.call(ctx, a, idx, rep, op, false)
		c.noteRet(a.id, res, true)
	}
}

// call performs one real call; inWtx marks calls made from a WithTransaction callback.
func (w *World) call(ctx context.Context, a *actor, idx, sub int, op Op, inWtx bool) (res *OpResult) {
	c := w.ctl
	res = &OpResult{}
	w.mu.Lock()
	w.seq++
	tag := fmt.Sprintf("a%d.%d.%d.%d", a.id, idx, sub, w.seq)
	w.mu.Unlock()
	h := HRec{Actor: a.id, Op: idx, Sub: sub, Kind: op.Kind, Sess: op.Sess, InWtx: inWtx, Tag: tag}
	h.Inv = c.Tick()
	h.Pub0 = c.Published()
	own0 := atomic.LoadInt64(&a.pubs)
	h.Per0 = w.Store.persistedIndex()
	defer func() {
		h.Per1 = w.Store.persistedIndex()
		if p := recover(); p != nil {
			res.Cls = "panic"
			res.Panic = fmt.Sprint(p)
		}
		if op.Kind == "wtx" && !inWtx {
			// however WithTransaction was left (return, error, panic, Goexit): the session must not hold
			// its transaction any more
			if hasTxn, _, _ := sessionPeek(w.Sessions[op.Sess]); hasTxn {
				res.Leak = true
			}
		}
		h.OwnCommit = atomic.LoadInt64(&a.pubs) > own0
		h.Pub1 = c.Published()
		h.Ret = c.Tick()
		h.Res = *res
		w.record(h)
	}()
	// run f with the session context of op.Sess (or the plain context)
	with := func(f func(ctx context.Context) error) error {
		if op.Sess == 0 || inWtx {
			return f(ctx)
		}
		return lungo.WithSession(ctx, w.Sessions[op.Sess], func(sc lungo.ISessionContext) error { return f(sc) })
	}
	var err error
	switch op.Kind {
	case "ins":
		err = with(func(ctx context.Context) error {
			_, e := w.coll(op).InsertOne(ctx, bson.D{{Key: "_id", Value: tag}, {Key: "tag", Value: tag}})
			return e
		})
		res.Wrote = err == nil
	case "ins3":
		// ONE commit that appends three events
		err = with(func(ctx context.Context) error {
			docs := []interface{}{}
			for i := 0; i < 3; i++ {
				t := fmt.Sprintf("%s#%d", tag, i)
				docs = append(docs, bson.D{{Key: "_id", Value: t}, {Key: "tag", Value: t}})
			}
			r, e := w.coll(op).InsertMany(ctx, docs)
			if r != nil {
				res.Matched = int64(len(r.InsertedIDs))
			}
			return e
		})
		res.Wrote = err == nil
	case "pop", "popu":
		// a queue "pop": read-modify-write in ONE call — the best ready job by priority is deleted (pop)
		// or marked taken (popu) and returned
		q := w.Client.Database(DB).Collection(QueueColl)
		filter := bson.D{{Key: "state", Value: "ready"}}
		srt := bson.D{{Key: "prio", Value: -1}}
		err = with(func(ctx context.Context) error {
			var out bson.D
			var e error
			if op.Kind == "pop" {
				e = q.FindOneAndDelete(ctx, filter, options.FindOneAndDelete().SetSort(srt)).Decode(&out)
			} else {
				e = q.FindOneAndUpdate(ctx, filter, bson.D{{Key: "$set", Value: bson.D{{Key: "state", Value: "taken"}, {Key: "by", Value: tag}}}},
					options.FindOneAndUpdate().SetSort(srt).SetReturnDocument(options.After)).Decode(&out)
			}
			if e == nil {
				res.Doc = canon(out)
				res.Matched = 1
				for _, el := range out {
					if el.Key == "_id" {
						res.Key, _ = el.Value.(string)
					}
				}
			}
			return e
		})
		res.Wrote = err == nil
	case "claim":
		// another client changes the state of ONE specific job (by default the best one), so that it
		// stops matching the pops' filter
		n := op.N
		if n <= 0 {
			n = w.Queue
		}
		id := fmt.Sprintf("j%d", n)
		res.Key = id
		err = with(func(ctx context.Context) error {
			r, e := w.Client.Database(DB).Collection(QueueColl).UpdateOne(ctx, bson.D{{Key: "_id", Value: id}, {Key: "state", Value: "ready"}},
				bson.D{{Key: "$set", Value: bson.D{{Key: "state", Value: "claimed"}, {Key: "by", Value: tag}}}})
			if r != nil {
				res.Matched, res.Modified = r.MatchedCount, r.ModifiedCount
			}
			return e
		})
		res.Wrote = err == nil && res.Modified > 0
	case "ups", "rups":
		// UpdateOne / ReplaceOne with upsert on one fixed key: exactly one of several concurrent calls inserts
		err = with(func(ctx context.Context) error {
			q := w.Client.Database(DB).Collection(QueueColl)
			var r *mongo.UpdateResult
			var e error
			if op.Kind == "ups" {
				r, e = q.UpdateOne(ctx, bson.D{{Key: "_id", Value: "u"}}, bson.D{{Key: "$inc", Value: bson.D{{Key: "n", Value: int64(1)}}}, {Key: "$set", Value: bson.D{{Key: "by", Value: tag}}}}, options.Update().SetUpsert(true))
			} else {
				r, e = q.ReplaceOne(ctx, bson.D{{Key: "_id", Value: "r"}}, bson.D{{Key: "_id", Value: "r"}, {Key: "by", Value: tag}}, options.Replace().SetUpsert(true))
			}
			if r != nil {
				res.Matched, res.Modified, res.Upserted = r.MatchedCount, r.ModifiedCount, r.UpsertedCount
			}
			return e
		})
		res.Wrote = err == nil
	case "ccoll":
		// Database.CreateCollection on db.n (a write without change events); it must never wipe documents
		err = with(func(ctx context.Context) error { return w.Client.Database(DB).CreateCollection(ctx, NColl) })
		res.Wrote = err == nil
	case "insn":
		err = with(func(ctx context.Context) error {
			_, e := w.Client.Database(DB).Collection(NColl).InsertOne(ctx, bson.D{{Key: "_id", Value: tag}, {Key: "tag", Value: tag}, {Key: "b", Value: tag}})
			return e
		})
		res.Wrote = err == nil
	case "insu":
		// ONE API call = ONE transaction: an unordered InsertMany of four documents
		err = with(func(ctx context.Context) error {
			docs := []interface{}{}
			for i := 0; i < 4; i++ {
				t := fmt.Sprintf("%s#%d", tag, i)
				docs = append(docs, bson.D{{Key: "_id", Value: t}, {Key: "tag", Value: t}, {Key: "b", Value: tag}})
			}
			r, e := w.Client.Database(DB).Collection(NColl).InsertMany(ctx, docs, options.InsertMany().SetOrdered(false))
			if r != nil {
				res.Matched = int64(len(r.InsertedIDs))
			}
			return e
		})
		res.Wrote = err == nil
	case "findn":
		err = with(func(ctx context.Context) error {
			cur, e := w.Client.Database(DB).Collection(NColl).Find(ctx, bson.D{})
			if e != nil {
				return e
			}
			var docs []bson.D
			if e := cur.All(ctx, &docs); e != nil {
				return e
			}
			res.Docs = []string{}
			for _, d := range docs {
				res.Docs = append(res.Docs, canon(d))
			}
			return nil
		})
	case "updall":
		err = with(func(ctx context.Context) error {
			r, e := w.Client.Database(DB).Collection(NColl).UpdateMany(ctx, bson.D{}, bson.D{{Key: "$set", Value: bson.D{{Key: "seen", Value: tag}}}})
			if r != nil {
				res.Matched, res.Modified = r.MatchedCount, r.ModifiedCount
			}
			return e
		})
		res.Wrote = err == nil && res.Modified > 0
	case "crix":
		err = with(func(ctx context.Context) error {
			_, e := w.Client.Database(DB).Collection(NColl).Indexes().CreateOne(ctx, mongo.IndexModel{Keys: bson.D{{Key: "b", Value: 1}}})
			return e
		})
		res.Wrote = err == nil
	case "dropn":
		err = with(func(ctx context.Context) error { return w.Client.Database(DB).Collection(NColl).Drop(ctx) })
		res.Wrote = err == nil
	case "badddl":
		// catalog calls with invalid names: they must fail promptly and leave the writer slot free
		err = with(func(ctx context.Context) error { return badDDL(ctx, w.Client, op.Fault) })
	case "dup":
		err = with(func(ctx context.Context) error {
			_, e := w.coll(op).InsertOne(ctx, bson.D{{Key: "_id", Value: "ctr"}, {Key: "tag", Value: tag}})
			return e
		})
	case "inc", "upd0":
		id := "ctr"
		if op.Kind == "upd0" {
			id = "absent"
		}
		err = with(func(ctx context.Context) error {
			r, e := w.coll(op).UpdateOne(ctx, bson.D{{Key: "_id", Value: id}},
				bson.D{{Key: "$inc", Value: bson.D{{Key: "n", Value: int64(1)}}}, {Key: "$set", Value: bson.D{{Key: "last", Value: tag}}}})
			if r != nil {
				res.Matched, res.Modified = r.MatchedCount, r.ModifiedCount
			}
			return e
		})
		res.Wrote = err == nil && res.Modified > 0
	case "fau":
		err = with(func(ctx context.Context) error {
			var out bson.D
			e := w.coll(op).FindOneAndUpdate(ctx, bson.D{{Key: "_id", Value: "ctr"}},
				bson.D{{Key: "$inc", Value: bson.D{{Key: "n", Value: int64(1)}}}, {Key: "$set", Value: bson.D{{Key: "last", Value: tag}}}},
				options.FindOneAndUpdate().SetReturnDocument(options.After)).Decode(&out)
			if e == nil {
				res.Doc = canon(out)
				res.Matched, res.Modified = 1, 1
			}
			return e
		})
		res.Wrote = err == nil
	case "del":
		err = with(func(ctx context.Context) error {
			r, e := w.coll(op).DeleteOne(ctx, bson.D{{Key: "_id", Value: bson.D{{Key: "$ne", Value: "ctr"}}}})
			if r != nil {
				res.Matched = r.DeletedCount
			}
			return e
		})
		res.Wrote = err == nil && res.Matched > 0
	case "drop":
		err = with(func(ctx context.Context) error { return w.coll(op).Drop(ctx) })
		res.Wrote = err == nil
	case "dropdb":
		db := DB
		if op.DB != "" {
			db = op.DB
		}
		err = with(func(ctx context.Context) error { return w.Client.Database(db).Drop(ctx) })
		res.Wrote = err == nil
	case "find":
		err = with(func(ctx context.Context) error {
			cur, e := w.coll(op).Find(ctx, bson.D{}, options.Find().SetSort(bson.D{{Key: "_id", Value: 1}}))
			if e != nil {
				return e
			}
			var docs []bson.D
			if e := cur.All(ctx, &docs); e != nil {
				return e
			}
			res.Docs = []string{}
			for _, d := range docs {
				res.Docs = append(res.Docs, canon(d))
			}
			return nil
		})
	case "sstart":
		err = w.Sessions[op.Sess].StartTransaction()
	case "scommit":
		err = w.Sessions[op.Sess].CommitTransaction(ctx)
	case "sabort":
		err = w.Sessions[op.Sess].AbortTransaction(ctx)
	case "send":
		w.Sessions[op.Sess].EndSession(ctx)
	case "wtx":
		sess := w.Sessions[op.Sess]
		body := func() {
			_, err = sess.WithTransaction(ctx, func(sc lungo.ISessionContext) (interface{}, error) {
				// the start sub-call has returned
				c.noteRet(a.id, &OpResult{Cls: "ok"}, false)
				for j, in := range op.Inner {
					in.Sess = op.Sess
					ci := modelCall(in)
					ci.Sub = true
					c.noteCall(a.id, ci)
					r := w.call(sc, a, idx, 100+j, in, true)
					c.noteRet(a.id, r, false)
					if r.Cls == "panic" {
						panic(r.Panic)
					}
				}
				switch op.Fault {
				case "cbPanic":
					panic("injected callback panic")
				case "cbErr":
					return nil, errCallback
				case "goexit":
					runtime.Goexit() // the deferred AbortTransaction must still run
				case "cbCommit":
					// the callback commits by itself; WithTransaction's own commit then finds no transaction
					_ = sc.CommitTransaction(sc)
				case "cbAbort":
					_ = sc.AbortTransaction(sc)
				case "nested":
					// WithTransaction on the same session from inside the callback: must fail ("existing"), not wedge
					c.noteCall(a.id, CallInfo{Call: "sessStart", Sess: op.Sess, Op: "wtx-nested", Sub: true})
					_, e := sess.WithTransaction(sc, func(lungo.ISessionContext) (interface{}, error) { return nil, nil })
					c.noteRet(a.id, &OpResult{Cls: Classify(e)}, false)
				}
				return nil, nil
			})
		}
		if op.Fault == "goexit" {
			if w.runAdopted(a, body) {
				res.Cls = "goexit"
			}
		} else {
			body()
		}
	case "usess":
		// Client.UseSession with a callback that starts a transaction, writes, and leaves in one of five
		// ways (op.Fault = "" commit and return | err | cbPanic | goexit | nocommit): the session must be
		// ended on EVERY way out, which aborts the abandoned transaction and frees the writer slot
		sid := 100*a.id + idx + 1 // UseSession creates its own session: a fresh id for the model
		mode := op.Fault
		body := func() {
			err = w.Client.UseSession(ctx, func(sc lungo.ISessionContext) error {
				e := sc.StartTransaction()
				c.noteRet(a.id, &OpResult{Cls: Classify(e)}, false)
				if e != nil {
					return e
				}
				in := Op{Kind: "ins", Sess: sid}
				c.noteCall(a.id, CallInfo{Call: "useTx", Lock: true, Sess: sid, Op: "ins", Sub: true})
				r := w.call(sc, a, idx, 100, in, true)
				c.noteRet(a.id, r, false)
				switch mode {
				case "err", "cbErr":
					return errCallback
				case "cbPanic":
					panic("injected callback panic")
				case "goexit":
					runtime.Goexit()
				case "nocommit":
					return nil
				}
				return sc.CommitTransaction(sc)
			})
		}
		if mode == "goexit" {
			if w.runAdopted(a, body) {
				res.Cls = "goexit"
			}
		} else {
			body()
		}
	case "ebegin":
		var t *lungo.Transaction
		t, err = w.Engine.Begin(ctx, op.Lock)
		if err == nil && op.Lock {
			w.mu.Lock()
			w.handles[a.id] = t
			w.mu.Unlock()
		}
	case "bad":
		// an update the callback rejects: useTransaction's error path (deferred Abort)
		err = with(func(ctx context.Context) error {
			_, e := w.coll(op).UpdateOne(ctx, bson.D{{Key: "_id", Value: "ctr"}}, bson.D{{Key: "$nosuchop", Value: bson.D{{Key: "n", Value: 1}}}})
			return e
		})
	case "estale":
		// client misuse: Commit of a transaction that is already finished (outside the model's vocabulary)
		w.mu.Lock()
		t := w.stale[a.id]
		w.mu.Unlock()
		if t == nil {
			res.Cls = "skipped"
			return res
		}
		err = w.Engine.Commit(t)
	case "eabortstale":
		// what every driver write does after a successful Commit: the deferred Abort of the SAME,
		// already finished transaction — here as a call of its own, so that the controller can run
		// other actors between the Commit and this Abort (outside the model's vocabulary)
		w.mu.Lock()
		t := w.stale[a.id]
		w.mu.Unlock()
		if t == nil {
			res.Cls = "skipped"
			return res
		}
		w.Engine.Abort(t)
	case "cat":
		// Engine.Catalog(): a short e.mutex section; what it returns is the visible state
		res.Docs = Contents(w.Engine, lungo.Handle{DB, Coll})
	case "ecommit", "eabort":
		w.mu.Lock()
		t := w.handles[a.id]
		delete(w.handles, a.id)
		if t != nil {
			w.stale[a.id] = t
		}
		w.mu.Unlock()
		if t == nil {
			res.Cls = "skipped"
			return res
		}
		if op.Kind == "ecommit" {
			err = w.Engine.Commit(t)
		} else {
			w.Engine.Abort(t)
		}
	case "sleep":
		// wall-clock pause (retention ages have second precision); outside the model
		time.Sleep(time.Duration(op.N) * time.Millisecond)
	case "close":
		w.Engine.Close()
	case "watch", "next", "trynext", "sclose":
		err = w.streamOp(ctx, a, op, res)
	default:
		res.Cls = "skipped"
		return res
	}
	if res.Cls == "" {
		res.Cls = Classify(err)
	}
	return res
}

// runAdopted runs f on a fresh goroutine that takes over the actor's identity for the hooks (needed
// when f ends its goroutine with runtime.Goexit); a panic of f is re-raised in the caller.  It
// reports whether f left through Goexit.
func (w *World) runAdopted(a *actor, f func()) (exited bool) {
	c := w.ctl
	done := make(chan struct{})
	var pv interface{}
	normal := false
	go func() {
		defer close(done)
		restore := c.adopt(a)
		defer restore()
		defer func() {
			if !normal {
				pv = recover() // nil for Goexit
			}
		}()
		f()
		normal = true
	}()
	<-done
	if pv != nil {
		panic(pv)
	}
	return !normal
}

// Handle reports whether the actor holds a transaction handle from ebegin.
func (w *World) Handle(actorID int) bool {
	w.mu.Lock()
	defer w.mu.Unlock()
	return w.handles[actorID] != nil
}

// BadDDL lists the variants of op badddl: catalog calls with invalid names.
var BadDDL = []string{"cc-empty", "db-empty", "db-dot", "drop-empty", "ix-empty", "dropix-empty", "ins-empty"}

func badDDL(ctx context.Context, cl lungo.IClient, variant string) error {
	switch variant {
	case "cc-empty":
		return cl.Database(DB).CreateCollection(ctx, "")
	case "db-empty":
		return cl.Database("").CreateCollection(ctx, "x")
	case "db-dot":
		_, e := cl.Database("a.b").Collection("x").InsertOne(ctx, bson.D{{Key: "x", Value: 1}})
		return e
	case "drop-empty":
		return cl.Database(DB).Collection("").Drop(ctx)
	case "ix-empty":
		_, e := cl.Database(DB).Collection(Coll).Indexes().CreateOne(ctx, mongo.IndexModel{Keys: bson.D{}})
		return e
	case "dropix-empty":
		_, e := cl.Database(DB).Collection(Coll).Indexes().DropOne(ctx, "")
		return e
	case "ins-empty":
		_, e := cl.Database("").Collection("").InsertOne(ctx, bson.D{{Key: "x", Value: 1}})
		return e
	}
	return nil
}

// badDDLBegins reports whether a variant fails AFTER Engine.Begin (then it is a useTransaction call
// of the model with a failing callback) or before it (then it is no model call at all).  Learned
// once per process by running the variant on a scratch engine with a counting hook.
var (
	badOnce   sync.Once
	badBegins = map[string]bool{}
)

func badDDLBegins(variant string) bool {
	badOnce.Do(func() {
		cl, eng, err := lungo.Open(nil, lungo.Options{Store: lungo.NewMemoryStore(), ExpireInterval: time.Hour})
		if err != nil {
			return
		}
		defer eng.Close()
		_, _ = cl.Database(DB).Collection(Coll).InsertOne(nil, bson.D{{Key: "_id", Value: "ctr"}})
		for _, v := range BadDDL {
			var n int64
			setHooks(func(point string, args ...interface{}) {
				if point == "begin.locked" {
					atomic.AddInt64(&n, 1)
				}
			})
			func() {
				defer func() { _ = recover() }()
				_ = badDDL(context.Background(), cl, v)
			}()
			setHooks(nil)
			badBegins[v] = atomic.LoadInt64(&n) > 0
		}
	})
	return badBegins[variant]
}
