package sched

import (
	"fmt"
	"strings"
)

// CheckCatalog is the C04 checker of the catalog-level scenarios on db.n (a collection that does not
// exist at the start): CreateCollection / CreateIndex race with the first inserts, and an unordered
// InsertMany is ONE transaction.
//
//	ack-lost          an acknowledged insert into db.n (plain call, or committed session) is missing
//	                  from the final contents although nobody dropped the collection — e.g. a queued
//	                  CreateCollection wiped what was committed while it waited
//	batch-not-atomic  a concurrent reader sees some but not all documents of one InsertMany, or an
//	                  UpdateMany {} marked some but not all of them
func CheckCatalog(o *Outcome) []Viol {
	if o.Deadlocked || o.Stalled || o.FinalN == nil {
		return nil
	}
	var out []Viol
	bad := func(w, what, detail string) { out = append(out, Viol{"C04", w, what, detail}) }
	dropped, faults := false, o.Sc.AllowStore
	for _, s := range o.Sc.Actors {
		for _, op := range s {
			if op.Kind == "dropn" || op.Kind == "dropdb" {
				dropped = true
			}
		}
	}
	final := strings.Join(o.FinalN, "\n")
	count := func(docs []string, tag string) (n, seen int) {
		for _, d := range docs {
			if strings.Contains(d, `"b":"`+tag+`"`) {
				n++
				if strings.Contains(d, `"seen"`) {
					seen++
				}
			}
		}
		return
	}
	for i := range o.History {
		h := &o.History[i]
		switch h.Kind {
		case "insn", "insu":
			size := 1
			if h.Kind == "insu" {
				size = 4
			}
			n, seen := count(o.FinalN, h.Tag)
			if h.Res.Cls == "ok" && (h.Sess == 0 || h.OwnCommit) && !h.InWtx && !dropped && !faults && n != size {
				bad("ack-lost", "an acknowledged insert is missing from the final contents of the collection", fmt.Sprintf("%s %s: %d of %d documents in %.300s", h.Kind, h.Tag, n, size, final))
			}
			if h.Kind == "insu" {
				if n != 0 && n != size {
					bad("batch-not-atomic", "only a part of one InsertMany is in the final contents", fmt.Sprintf("%s: %d of %d", h.Tag, n, size))
				}
				if seen != 0 && seen != n {
					bad("batch-not-atomic", "an UpdateMany {} marked only a part of one InsertMany", fmt.Sprintf("%s: %d of %d", h.Tag, seen, n))
				}
				// every concurrent reader sees none or all of the batch
				for j := range o.History {
					r := &o.History[j]
					if r.Kind != "findn" || r.Res.Cls != "ok" {
						continue
					}
					if k, sk := count(r.Res.Docs, h.Tag); (k != 0 && k != size) || (sk != 0 && sk != k) {
						bad("batch-not-atomic", "a reader saw a part of one InsertMany (or of its UpdateMany)", fmt.Sprintf("%s: actor %d saw %d of %d, %d marked", h.Tag, r.Actor, k, size, sk))
					}
				}
			}
		}
	}
	return out
}
