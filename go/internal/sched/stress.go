package sched

import (
	"context"
	"fmt"
	"math/rand"
	"runtime"
	"strings"
	"sync"
	"sync/atomic"
	"time"

	"github.com/256dpi/lungo"
)

// StressConfig configures the free-running stress mode (thorough tier): no parking, the hook only
// perturbs the timing (random 0–200 µs sleeps / spins), many goroutines hammer one engine, and the
// C04 history checker judges the result.
type StressConfig struct {
	Actors   int
	Millis   int
	Seed     int64
	MaxCalls int
}

// Stress runs the stress mode and returns an outcome with history, final oplog and C04/C16 verdicts.
func Stress(cfg StressConfig) *Outcome {
	Global.Lock()
	defer Global.Unlock()
	if cfg.Actors < 2 {
		cfg.Actors = 2
	}
	if cfg.MaxCalls == 0 {
		cfg.MaxCalls = 60000
	}
	sc := Scenario{Kind: "stress", Free: true, FreeFor: cfg.Millis, Sessions: cfg.Actors}
	out := &Outcome{Sc: sc, N: cfg.Actors}
	if !HooksAvailable {
		out.viol("C16", "no-hooks", "harness built without -tags verif", "")
		return out
	}
	t0 := time.Now()
	runtime.GC()
	base := runtime.NumGoroutine()
	markLungoBase()
	w, err := NewWorld(WorldOptions{Sessions: cfg.Actors, Opts: lungo.Options{MinOplogSize: 1 << 22, MaxOplogSize: 1 << 23}})
	if err != nil {
		out.viol("C16", "setup", "cannot open engine", err.Error())
		return out
	}
	out.W = w
	scripts := make([][]Op, cfg.Actors)
	c := NewController(w, scripts, nil)
	c.Free = true
	c.freeRand.Store(uint64(cfg.Seed))
	setHooks(c.onHook)
	deadline := time.Now().Add(time.Duration(cfg.Millis) * time.Millisecond)
	var calls atomic.Int64
	var wg sync.WaitGroup
	for i := 1; i <= cfg.Actors; i++ {
		wg.Add(1)
		go func(a *actor) {
			defer wg.Done()
			gid := curGID()
			c.mu.Lock()
			c.byGID[gid] = a
			c.mu.Unlock()
			rng := rand.New(rand.NewSource(cfg.Seed + int64(a.id)*7919))
			kinds := []string{"inc", "inc", "fau", "fau", "find", "find", "upd0", "wtx", "sess"}
			for n := 0; time.Now().Before(deadline) && calls.Load() < int64(cfg.MaxCalls); n++ {
				k := kinds[rng.Intn(len(kinds))]
				ctx := context.Background()
				switch k {
				case "wtx":
					op := Op{Kind: "wtx", Sess: a.id, Inner: []Op{{Kind: "inc"}, {Kind: "fau"}}}
					if rng.Intn(4) == 0 {
						op.Fault = "cbErr"
					}
					w.call(ctx, a, n, 0, op, false)
				case "sess":
					w.call(ctx, a, n, 0, Op{Kind: "sstart", Sess: a.id}, false)
					w.call(ctx, a, n, 1, Op{Kind: "inc", Sess: a.id}, false)
					if rng.Intn(3) == 0 {
						w.call(ctx, a, n, 2, Op{Kind: "sabort", Sess: a.id}, false)
					} else {
						w.call(ctx, a, n, 2, Op{Kind: "scommit", Sess: a.id}, false)
					}
				default:
					w.call(ctx, a, n, 0, Op{Kind: k}, false)
				}
				calls.Add(1)
			}
		}(c.actors[i])
	}
	done := make(chan struct{})
	go func() { wg.Wait(); close(done) }()
	select {
	case <-done:
	// longer than the engine's one-minute token timeout: only a real wedge is reported here (a leaked
	// token shows up through the timeouts in the history and through the probe of the C16 monitors)
	case <-time.After(time.Duration(cfg.Millis)*time.Millisecond + 90*time.Second):
		out.Stalled = true
		var where []string
		for id, st := range allGoroutines() {
			if !lungoBase[id] && strings.Contains(st.Stack, "github.com/256dpi/lungo") {
				lines := strings.Split(st.Stack, "\n")
				top := ""
				for i := 0; i < len(lines) && i < 12; i += 2 {
					top += strings.TrimSpace(lines[i]) + " < "
				}
				where = append(where, st.Wait+": "+top)
			}
		}
		out.viol("C16", "wedged:stress", "stress goroutines did not finish", fmt.Sprintf("calls so far %d; %s", calls.Load(), strings.Join(where, " || ")))
	}
	setHooks(nil)
	w.Store.setHook(nil)
	if out.Stalled {
		return out
	}
	out.History = w.History
	monitorsC16(out, c, w, base)
	out.Viols = append(out.Viols, CheckHistory(out)...)
	out.Viols = append(out.Viols, CheckPersistence(out)...)
	out.WallMS = float64(time.Since(t0).Microseconds()) / 1000
	return out
}
