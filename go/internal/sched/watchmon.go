package sched

import (
	"fmt"
	"sort"
	"strings"
)

// CheckStreams is the C09 monitor (independent of the model).  From the oplog snapshots recorded
// at every publish (and at every Watch), the call history and the trace it checks, per stream:
//
//	stream-delivery:<missing|duplicate|order|foreign>
//	      the delivered sequence is exactly a prefix of the scope-filtered events after the start
//	      position: each once, in order; a TryNext that returns false although the next expected
//	      event was already published at its invocation counts as missing
//	invalidate-missing   a drop (collection stream) / dropDatabase (database or collection stream)
//	      is followed by an `invalidate` event, after which the stream is closed
//	lost-position:<kind> an expected event that retention removed before the consumer reached it
//	      must surface as ErrLostOplogPosition, never as a silent skip
//	      (kind nil-last: the stream started "before the first event", i.e. last == nil — the known defect)
//	stream-stall:<commit|close|sclose|cancel>
//	      a consumer that is blocked in Next at a quiescent point although a commit was broadcast
//	      after its last oplog read (or the engine/stream was closed, or its context cancelled)
func CheckStreams(o *Outcome) []Viol {
	var out []Viol
	bad := func(w, what, detail string) { out = append(out, Viol{"C09", w, what, detail}) }

	// ---- all events ever committed, in id order; when each became visible; which were trimmed ----
	type evInfo struct {
		ev      *Ev
		pubIdx  int // 0 = before the scenario, k = k-th commit.published
		trimmed bool
		trimAt  int // publish index of the first snapshot that no longer holds it
	}
	all := map[uint64]*evInfo{}
	key := func(e *Ev) uint64 { return uint64(e.T)<<32 | uint64(e.I) }
	type snap struct {
		seq int
		ids map[uint64]bool
		lst []*Ev
	}
	mk := func(seq int, l []*Ev) snap {
		s := snap{seq: seq, ids: map[uint64]bool{}, lst: l}
		for _, e := range l {
			s.ids[key(e)] = true
		}
		return s
	}
	snaps := []snap{mk(-1, o.Oplog0)}
	for _, e := range o.Oplog0 {
		all[key(e)] = &evInfo{ev: e}
	}
	for _, r := range o.Trace {
		if r.Kind == "event" && r.Point == "commit.published" && r.Oplog != nil {
			k := len(snaps)
			snaps = append(snaps, mk(r.Seq, r.Oplog))
			for _, e := range r.Oplog {
				if all[key(e)] == nil {
					all[key(e)] = &evInfo{ev: e, pubIdx: k}
				}
			}
		}
	}
	for id, inf := range all {
		for k := inf.pubIdx; k < len(snaps); k++ {
			if !snaps[k].ids[id] {
				inf.trimmed, inf.trimAt = true, k
				break
			}
		}
	}
	var ids []uint64
	for id := range all {
		ids = append(ids, id)
	}
	sort.Slice(ids, func(i, j int) bool { return ids[i] < ids[j] })
	anyTrim := false
	for _, inf := range all {
		if inf.trimmed {
			anyTrim = true
		}
	}
	parseID := func(s string) (uint64, bool) {
		var t, i uint32
		if n, _ := fmt.Sscanf(s, "%d.%d", &t, &i); n == 2 {
			return uint64(t)<<32 | uint64(i), true
		}
		return 0, false
	}

	// ---- streams ----
	type stream struct {
		slot, actor, op int
		scope, db, coll string
		start           string
		startID         uint64
		hasStart        bool
		watchSnap       []*Ev
		watchSeq        int
		calls           []*HRec
	}
	var streams []*stream
	bySlot := map[int]*stream{}
	hist := append([]HRec(nil), o.History...)
	sort.SliceStable(hist, func(i, j int) bool { return hist[i].Inv < hist[j].Inv })
	opOf := func(h *HRec) Op {
		if h.Actor-1 < len(o.Sc.Actors) && h.Op < len(o.Sc.Actors[h.Actor-1]) {
			return o.Sc.Actors[h.Actor-1][h.Op]
		}
		return Op{}
	}
	for i := range hist {
		h := &hist[i]
		op := opOf(h)
		switch h.Kind {
		case "watch":
			if h.Res.Cls != "ok" {
				continue
			}
			st := &stream{slot: op.Stream, actor: h.Actor, op: h.Op, scope: op.Scope, db: op.DB, coll: op.Coll, start: op.Start, watchSeq: -1}
			if st.db == "" {
				st.db = DB
			}
			if st.coll == "" {
				st.coll = Coll
			}
			if st.scope == "" {
				st.scope = "client"
			}
			if h.Res.Start != "" {
				st.startID, st.hasStart = parseID(h.Res.Start)
			}
			for _, r := range o.Trace {
				if r.Kind == "event" && r.Point == "watch.locked" && r.Actor == h.Actor && r.Op == h.Op {
					st.watchSnap, st.watchSeq = r.Oplog, r.Seq
				}
			}
			streams = append(streams, st)
			bySlot[op.Stream] = st
		case "next", "trynext", "sclose":
			if st := bySlot[op.Stream]; st != nil && h.Res.Cls != "skipped" {
				st.calls = append(st.calls, h)
			}
		}
	}
	inScope := func(st *stream, e *Ev) bool {
		switch st.scope {
		case "db":
			return e.DB == st.db
		case "coll":
			return e.DB == st.db && (e.Coll == st.coll || e.Op == "dropDatabase")
		}
		return true
	}
	invalidates := func(st *stream, e *Ev) bool {
		switch st.scope {
		case "db":
			return e.Op == "dropDatabase"
		case "coll":
			return e.Op == "drop" || e.Op == "dropDatabase"
		}
		return false
	}
	expBySlot := map[int][]*evInfo{}
	callsBySlot := map[int][]*HRec{}
	for _, st := range streams {
		if st.watchSeq < 0 {
			continue
		}
		// start position: events with id >= from are "after the start position"
		var from uint64
		nilLast := false
		kind := st.start
		if i := strings.IndexByte(kind, ':'); i > 0 {
			kind = kind[:i]
		}
		ws := st.watchSnap
		switch kind {
		case "resume", "after", "old":
			from = st.startID + 1
		case "time", "oldtime", "time0":
			ts := st.startID
			if kind == "time0" {
				ts = 1 << 32
			}
			// Watch: last = the event before the first one at or after ts (nil if that is the first retained one);
			// if every event is older, last stays at the newest event
			found := false
			for i, e := range ws {
				if key(e) >= ts {
					found = true
					if i == 0 {
						nilLast = true
						from = 0
					} else {
						from = key(ws[i-1]) + 1
					}
					break
				}
			}
			if !found {
				if len(ws) == 0 {
					nilLast = true
				} else {
					from = key(ws[len(ws)-1]) + 1
				}
			}
		default: // now
			if len(ws) == 0 {
				nilLast = true
			} else {
				from = key(ws[len(ws)-1]) + 1
			}
		}
		if nilLast && len(ws) > 0 {
			from = key(ws[0])
		}
		// expected sequence
		var exp []*evInfo
		invalidated := false
		for _, id := range ids {
			if id < from {
				continue
			}
			inf := all[id]
			if !inScope(st, inf.ev) {
				continue
			}
			exp = append(exp, inf)
			if invalidates(st, inf.ev) {
				invalidated = true
				break
			}
		}
		expBySlot[st.slot], callsBySlot[st.slot] = exp, st.calls
		cursor := 0
		gotInvalidate := false
		lostSeen := false
		closedSeen := false
		prevHas := false
		for _, h := range st.calls {
			if h.Kind == "sclose" {
				closedSeen = true
				continue
			}
			wasHas := prevHas
			prevHas = h.Res.Has
			if h.Res.StreamErr == "lost" {
				lostSeen = true
				if !anyTrim {
					bad("lost-position:spurious", "ErrLostOplogPosition although retention removed nothing", fmt.Sprintf("slot %d", st.slot))
				}
				continue
			}
			if !h.Res.Has {
				// a non-blocking poll must return an event that was visible when it was invoked
				if h.Kind == "trynext" && h.Res.StreamErr == "" && !closedSeen && !gotInvalidate && !lostSeen && cursor < len(exp) && h.Res.Cls == "ok" && !o.ClosedBy {
					inf := exp[cursor]
					if inf.pubIdx <= int(h.Pub0) && (!inf.trimmed || inf.trimAt > int(h.Pub1)) {
						if wasHas {
							// "block for the first event, poll for the rest": the previous poll delivered an
							// event, the following ones are already committed and need no further wake-up
							bad("stream-stall:trynext-after-next", "TryNext returned false right after a delivered event although the next event was already published", fmt.Sprintf("slot %d event %s", st.slot, inf.ev.ID()))
						} else {
							bad("stream-delivery:missing", "TryNext returned false although the next event was published before the call", fmt.Sprintf("slot %d event %s", st.slot, inf.ev.ID()))
						}
					}
				}
				continue
			}
			d := h.Res.Ev
			if d == nil {
				continue
			}
			if d.Op == "invalidate" {
				if !(invalidated && cursor == len(exp)) {
					bad("stream-delivery:foreign", "an invalidate event without a preceding drop", fmt.Sprintf("slot %d", st.slot))
				}
				gotInvalidate = true
				continue
			}
			if gotInvalidate {
				bad("stream-delivery:foreign", "an event after the invalidate event", fmt.Sprintf("slot %d event %s", st.slot, d.ID()))
				continue
			}
			id := key(d)
			pos := -1
			for i, inf := range exp {
				if key(inf.ev) == id {
					pos = i
				}
			}
			switch {
			case pos < 0:
				bad("stream-delivery:foreign", "delivered an event outside the scope or before the start position", fmt.Sprintf("slot %d (%s %s.%s from %s) event %s %s %s.%s", st.slot, st.scope, st.db, st.coll, st.start, d.ID(), d.Op, d.DB, d.Coll))
			case pos == cursor:
				cursor++
			case pos < cursor:
				w := "stream-delivery:order"
				if pos == cursor-1 {
					w = "stream-delivery:duplicate"
				}
				bad(w, "an event was delivered again or out of order", fmt.Sprintf("slot %d event %s", st.slot, d.ID()))
			default:
				// events skipped: trimmed by retention → lost position handling; otherwise plain loss
				allTrimmed := true
				var miss []string
				for _, inf := range exp[cursor:pos] {
					miss = append(miss, inf.ev.ID())
					if !inf.trimmed {
						allTrimmed = false
					}
				}
				switch {
				case allTrimmed && nilLast && cursor == 0:
					bad("lost-position:nil-last", "a stream positioned before the first event silently skipped events that retention discarded", fmt.Sprintf("slot %d skipped %v", st.slot, miss))
				case allTrimmed:
					bad("lost-position:skipped", "events discarded by retention were skipped without ErrLostOplogPosition", fmt.Sprintf("slot %d skipped %v", st.slot, miss))
				default:
					bad("stream-delivery:missing", "in-scope events were skipped", fmt.Sprintf("slot %d skipped %v", st.slot, miss))
				}
				cursor = pos + 1
			}
		}
		// invalidate: after the drop was delivered, a further successful poll must have produced invalidate
		if invalidated && cursor == len(exp) && !gotInvalidate {
			for _, h := range st.calls {
				if (h.Kind == "next" || h.Kind == "trynext") && !h.Res.Has && h.Res.StreamErr == "" && h.Res.Cls == "ok" {
					// was this poll after the delivery of the drop?
					last := exp[len(exp)-1]
					after := false
					for _, g := range st.calls {
						if g.Res.Has && g.Res.Ev != nil && key(g.Res.Ev) == key(last.ev) && g.Ret < h.Inv {
							after = true
						}
					}
					if after && !closedSeen && !o.ClosedBy {
						bad("invalidate-missing", "no invalidate event after a drop was delivered", fmt.Sprintf("slot %d", st.slot))
						break
					}
				}
			}
		}
	}

	// ---- stalls: a consumer blocked in Next at a quiescent point although it must have been woken ----
	lastOplog := map[int]int{} // actor → seq of its latest next.oplog
	pubBy := map[int]int{}     // writer → seq of its latest commit.published not yet passed
	var passed []int           // seqs of commits whose broadcast is over
	closeWait, cancelled := -1, map[int]int{}
	scloseRet := map[int]int{} // stream slot → seq of sclose.return
	slotOf := func(actorID, opIdx int) int {
		if actorID-1 < len(o.Sc.Actors) && opIdx < len(o.Sc.Actors[actorID-1]) {
			return o.Sc.Actors[actorID-1][opIdx].Stream
		}
		return 0
	}
	reported := map[string]bool{}
	for _, r := range o.Trace {
		switch r.Kind {
		case "event":
			if p, ok := pubBy[r.Actor]; ok && r.Point != "commit.published" {
				passed = append(passed, p)
				delete(pubBy, r.Actor)
			}
			switch r.Point {
			case "next.oplog":
				lastOplog[r.Actor] = r.Seq
			case "commit.published":
				pubBy[r.Actor] = r.Seq
			case "close.wait":
				closeWait = r.Seq
			case "sclose.return":
				scloseRet[slotOf(r.Actor, r.Op)] = r.Seq
			}
		case "ret":
			if p, ok := pubBy[r.Actor]; ok {
				passed = append(passed, p)
				delete(pubBy, r.Actor)
			}
		case "call":
			if ci, ok := r.Call.(CallInfo); ok && !ci.Sub {
				delete(cancelled, r.Actor) // a new call has a new context
			}
		case "cancel":
			cancelled[r.Actor] = r.Seq
		case "blocked", "deadlock":
			if !strings.HasPrefix(r.Site, "stream.next:select") {
				continue
			}
			cause := ""
			for _, p := range passed {
				if p > lastOplog[r.Actor] {
					cause = "commit"
				}
			}
			if closeWait >= 0 {
				cause = "close"
			}
			if s, ok := scloseRet[slotOf(r.Actor, r.Op)]; ok && s > lastOplog[r.Actor] {
				cause = "sclose"
			}
			if _, ok := cancelled[r.Actor]; ok {
				cause = "cancel"
			}
			if cause != "" && !reported[cause+fmt.Sprint(r.Actor)] {
				reported[cause+fmt.Sprint(r.Actor)] = true
				bad("stream-stall:"+cause, "a consumer stays blocked in Next although it must have been woken", fmt.Sprintf("actor %d trace #%d", r.Actor, r.Seq))
			}
			// blocked although the next expected event was already in the oplog it read last
			slot := slotOf(r.Actor, r.Op)
			// position of the consumer in the expected sequence: just after the last event it was given
			// (not the number of delivered events: a stream may have skipped discarded events — the
			// lost-position checks deal with that)
			delivered := 0
			for _, h := range callsBySlot[slot] {
				if h.Res.Has && h.Res.Ev != nil && h.Res.Ev.Op != "invalidate" && h.Ret <= r.Clock {
					for i, inf := range expBySlot[slot] {
						if key(inf.ev) == key(h.Res.Ev) && i+1 > delivered {
							delivered = i + 1
						}
					}
				}
			}
			if exp := expBySlot[slot]; delivered < len(exp) && cause == "" {
				inf := exp[delivered]
				visible := inf.pubIdx == 0 || (inf.pubIdx < len(snaps) && snaps[inf.pubIdx].seq < lastOplog[r.Actor])
				if visible && !inf.trimmed && !reported["pending"+fmt.Sprint(r.Actor)] {
					reported["pending"+fmt.Sprint(r.Actor)] = true
					bad("stream-stall:event-pending", "a consumer blocks in Next although the next event was in the oplog it has just read", fmt.Sprintf("actor %d trace #%d event %s", r.Actor, r.Seq, inf.ev.ID()))
				}
			}
		}
	}
	return out
}
