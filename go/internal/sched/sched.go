// Package sched is the schedule controller of the concurrency properties (C04, C09, C16): it
// drives REAL goroutines that call the real lungo API through the hook points compiled into
// /repo under build tag `verif` (DESIGN §7, Appendix G).
//
// Every actor goroutine parks at every hook point (and at a pseudo point "op.start" before each
// call of its script) on a per-actor channel.  The controller releases exactly one parked actor at
// a time, chosen by a Chooser (PRNG, recorded schedule, or DFS enumeration), and then waits until
// every running actor has parked again, has finished, or is provably blocked: its goroutine sits in
// a blocking primitive (sync.Mutex.Lock, select, channel receive) of the code under test, seen in
// two consecutive runtime.Stack snapshots without an event in between.  Such an actor is "in
// flight"; its next event is accepted whenever it arrives.  All events, releases, fault injections,
// blocked observations and the engine flags observed at quiescent points are recorded in one global
// trace, which the streams translate into the step vocabulary of the Lean model.
package sched

import (
	"context"
	"fmt"
	"os"
	"runtime"
	"strings"
	"sync"
	"sync/atomic"
	"time"
)

// Op is one call of an actor's script (a real API call, see world.go for the vocabulary).
type Op struct {
	Kind   string `json:"k"`
	Sess   int    `json:"s,omitempty"`  // session id (1-based); CRUD: session context, s*: the session
	Lock   bool   `json:"l,omitempty"`  // ebegin: locked transaction
	Stream int    `json:"st,omitempty"` // stream slot
	Fault  string `json:"f,omitempty"`  // precancel | cbPanic | cbErr
	Ctx    string `json:"x,omitempty"`  // context kind of the call: "" WithCancel | bg Background | timeout WithTimeout(30 s)
	DB     string `json:"db,omitempty"` // namespace override (watch scenarios)
	Coll   string `json:"c,omitempty"`  //
	Start  string `json:"sp,omitempty"` // watch: now | resume:<slot> | after:<slot> | time:<slot> | time0
	Scope  string `json:"sc,omitempty"` // watch: client | db | coll
	Inner  []Op   `json:"in,omitempty"` // wtx: calls made by the callback
	N      int    `json:"n,omitempty"`  // repetitions (stress) / retention parameter
}

// Choice is one schedule element.
type Choice struct {
	Actor int    `json:"a"`
	Kind  string `json:"k"`            // go | cancel | storeFail | storePanic
	At    string `json:"at,omitempty"` // the point the actor is parked at (or the site it is blocked in)
}

func (c Choice) String() string { return fmt.Sprintf("%d:%s", c.Actor, c.Kind) }

// Obs are the engine flags observed (by reflection) at a quiescent point.
type Obs struct {
	Alive bool    `json:"alive"`
	Txn   uintptr `json:"-"`
	HasTx bool    `json:"txn"`
	Token int     `json:"token"`
	Mutex bool    `json:"mutex"`
}

// Record is one entry of the global trace.
type Record struct {
	Seq    int
	Kind   string // event | release | call | ret | blocked | cancel | quiesce | stall | deadlock | done
	Actor  int
	Point  string        // event: hook point; release: the point the actor leaves
	Args   []interface{} // event arguments (bool / int)
	Parked bool          // event: the actor parked (false: pass-through)
	Fault  string        // release: fault injected with it; cancel: "forced" if injected by the teardown
	Call   interface{}   // call: description of the (sub)call for the model translation
	Res    *OpResult     // ret
	Final  bool          // ret: the top-level call of the script returned
	Site   string        // blocked: where
	Obs    *Obs          // quiesce
	Clock  int64
	Op     int   // index into the actor's script
	Oplog  []*Ev // commit.published / watch.locked: the oplog as the hook's goroutine sees it (PeekOplog)
}

// Chooser picks the next schedule element among the enabled ones.
type Chooser interface {
	Choose(step int, opts []Choice, last Choice) int
}

type actor struct {
	id      int
	gid     int64
	script  []Op
	state   int32 // 0 not started, 1 running, 2 parked, 3 done
	at      string
	resume  chan struct{}
	blocked bool
	site    string
	cancel  context.CancelFunc
	ctxDead bool
	opIdx   int
	pubs    int64 // commits this actor's goroutine has published
}

const (
	stNew = iota
	stRunning
	stParked
	stDone
)

// Controller runs one scenario.
type Controller struct {
	mu      sync.Mutex
	actors  []*actor // index = actor id (0 unused)
	byGID   map[int64]*actor
	trace   []Record
	notify  chan struct{}
	W       *World
	Chooser Chooser
	// configuration
	AllowCancel bool
	AllowStore  bool
	MaxSteps    int
	StallLimit  time.Duration
	PeekOplog   bool // record the oplog at commit.published / watch.locked (watch stream)
	Free        bool // free-running stress: hooks never park, random short sleeps
	freeRand    atomic.Uint64
	// results
	Schedule   []Choice
	Switches   int
	Deadlocked bool
	Stalled    bool
	Diverged   bool
	clock      atomic.Int64
	published  atomic.Int64
	passPoints map[string]bool
}

// NewController prepares a run of the given scripts (actor i+1 runs scripts[i]) on world w.
func NewController(w *World, scripts [][]Op, ch Chooser) *Controller {
	c := &Controller{W: w, Chooser: ch, byGID: map[int64]*actor{}, notify: make(chan struct{}, 1),
		// StallLimit: how long a RUNNABLE actor may go without an event before the run is given up (a
		// loaded machine or a slow fsync of the FileStore easily takes a second; nothing waits for
		// this limit unless something is really wrong)
		MaxSteps: 4000, StallLimit: 15 * time.Second,
		// pass-through points (recorded, never parked): the semaphore's own hooks, and the points that lie
		// between an effect that other goroutines can observe (token release, e.txn assignment, tomb.Kill)
		// and the unlock that ends the same critical section — the model takes release+unlock as ONE
		// step, so the controller must not preempt in between
		passPoints: map[string]bool{"sem.acquired": true, "sem.release": true, "begin.return": true,
			"commit.return": true, "abort.return": true, "close.killed": true}}
	c.actors = append(c.actors, nil)
	for i, s := range scripts {
		c.actors = append(c.actors, &actor{id: i + 1, script: s, resume: make(chan struct{})})
	}
	w.ctl = c
	w.Store.setHook(c.onHook) // store.enter / store.exit (no-ops for goroutines that are not actors)
	return c
}

// Tick advances and returns the global logical clock.
func (c *Controller) Tick() int64 { return c.clock.Add(1) }

// Published is the number of commit.published events seen so far.
func (c *Controller) Published() int64 { return c.published.Load() }

func (c *Controller) ping() {
	select {
	case c.notify <- struct{}{}:
	default:
	}
}

func (c *Controller) add(r Record) {
	r.Seq = len(c.trace)
	r.Clock = c.clock.Load()
	c.trace = append(c.trace, r)
}

// Trace returns the recorded trace (call after Run).
func (c *Controller) Trace() []Record { return c.trace }

// onHook is the function installed with VerifSetHook.
func (c *Controller) onHook(point string, args ...interface{}) {
	if point == "commit.published" {
		c.published.Add(1)
		if c.Free {
			// which actor published (stress mode registers its goroutines too)
			gid := curGID()
			c.mu.Lock()
			if a := c.byGID[gid]; a != nil {
				atomic.AddInt64(&a.pubs, 1)
			}
			c.mu.Unlock()
		}
	}
	if c.Free {
		// stress mode: perturb the timing only
		x := c.freeRand.Add(0x9e3779b97f4a7c15)
		x ^= x >> 29
		x *= 0xbf58476d1ce4e5b9
		x ^= x >> 32
		switch d := x % 1000; {
		case d < 15: // a real sleep of 0–200 µs (lets other goroutines overtake)
			time.Sleep(time.Duration((x>>20)%200) * time.Microsecond)
		case d < 150: // a short busy delay of 0–30 µs
			for end := time.Now().Add(time.Duration((x>>20)%30) * time.Microsecond); time.Now().Before(end); {
				_ = curGIDCheap()
			}
		case d < 200:
			runtime.Gosched()
		}
		return
	}
	gid := curGID()
	var snap []*Ev
	if c.PeekOplog && (point == "commit.published" || point == "watch.locked") {
		snap = peekOplog(c.W.Engine) // the calling goroutine holds e.mutex here
	}
	c.mu.Lock()
	a := c.byGID[gid]
	if a == nil {
		c.mu.Unlock()
		return
	}
	if point == "commit.published" {
		atomic.AddInt64(&a.pubs, 1)
	}
	cp := make([]interface{}, len(args))
	copy(cp, args)
	if c.passPoints[point] {
		c.add(Record{Kind: "event", Actor: a.id, Point: point, Args: cp, Op: a.opIdx})
		c.mu.Unlock()
		return
	}
	c.add(Record{Kind: "event", Actor: a.id, Point: point, Args: cp, Parked: true, Op: a.opIdx, Oplog: snap})
	a.at = point
	a.blocked = false
	atomic.StoreInt32(&a.state, stParked)
	c.mu.Unlock()
	c.ping()
	<-a.resume
}

var cheapSink atomic.Int64

func curGIDCheap() int64 { return cheapSink.Add(1) }

// noteCall records the start of a (sub)call; info is opaque to this package.
func (c *Controller) noteCall(actorID int, info interface{}) {
	if c.Free {
		return
	}
	c.mu.Lock()
	c.add(Record{Kind: "call", Actor: actorID, Call: info, Op: c.actors[actorID].opIdx})
	c.mu.Unlock()
}

// noteRet records the return of a (sub)call.
func (c *Controller) noteRet(actorID int, res *OpResult, final bool) {
	if c.Free {
		return
	}
	c.mu.Lock()
	c.add(Record{Kind: "ret", Actor: actorID, Res: res, Final: final, Op: c.actors[actorID].opIdx})
	c.mu.Unlock()
}

func (c *Controller) runActor(a *actor) {
	gid := curGID()
	c.mu.Lock()
	a.gid = gid
	c.byGID[gid] = a
	c.mu.Unlock()
	for i, op := range a.script {
		c.mu.Lock()
		a.opIdx = i
		c.mu.Unlock()
		c.onHook("op.start")
		c.W.Do(a, i, op)
	}
	c.mu.Lock()
	atomic.StoreInt32(&a.state, stDone)
	c.add(Record{Kind: "done", Actor: a.id})
	delete(c.byGID, gid)
	c.mu.Unlock()
	c.ping()
}

// adopt makes the calling goroutine stand for actor a (hooks are attributed by goroutine id) until
// the returned function is called.
func (c *Controller) adopt(a *actor) (restore func()) {
	gid := curGID()
	c.mu.Lock()
	old := a.gid
	c.byGID[gid] = a
	a.gid = gid
	c.mu.Unlock()
	return func() {
		c.mu.Lock()
		delete(c.byGID, gid)
		a.gid = old
		c.mu.Unlock()
	}
}

// quiesce waits until no actor is running: each one is parked, done, or blocked in a primitive.
func (c *Controller) quiesce() {
	start := time.Now()
	consecutive := 0
	var firstAll time.Time
	wait := 20 * time.Microsecond
	for {
		c.mu.Lock()
		nRun := 0
		for _, a := range c.actors[1:] {
			if atomic.LoadInt32(&a.state) == stRunning {
				nRun++
			}
		}
		c.mu.Unlock()
		if nRun == 0 {
			return
		}
		select {
		case <-c.notify:
			consecutive = 0
			continue
		case <-time.After(wait):
		}
		if wait < 200*time.Microsecond {
			wait *= 2
		}
		snap := allGoroutines()
		c.mu.Lock()
		all := true
		needLong := false
		for _, a := range c.actors[1:] {
			if atomic.LoadInt32(&a.state) != stRunning {
				continue
			}
			st, ok := snap[a.gid]
			site, b := "", false
			if ok {
				site, b = blockedIn(st)
			}
			if !b {
				all = false
				break
			}
			a.site = site
			if site == "tomb.wait" {
				needLong = true
			}
		}
		if all {
			if consecutive == 0 {
				firstAll = time.Now()
			}
			consecutive++
			enough := consecutive >= 2
			if needLong && time.Since(firstAll) < 15*time.Millisecond {
				enough = false
			}
			if enough {
				for _, a := range c.actors[1:] {
					if atomic.LoadInt32(&a.state) == stRunning {
						a.blocked = true
						c.add(Record{Kind: "blocked", Actor: a.id, Site: a.site, Op: a.opIdx})
					}
				}
				c.mu.Unlock()
				return
			}
		} else {
			consecutive = 0
		}
		c.mu.Unlock()
		if time.Since(start) > c.StallLimit {
			c.mu.Lock()
			c.Stalled = true
			for _, a := range c.actors[1:] {
				if atomic.LoadInt32(&a.state) == stRunning {
					st := snap[a.gid]
					c.add(Record{Kind: "stall", Actor: a.id, Site: st.Wait, Op: a.opIdx})
					a.blocked = true
				}
			}
			c.mu.Unlock()
			return
		}
	}
}

func (c *Controller) options() []Choice {
	c.mu.Lock()
	defer c.mu.Unlock()
	var out []Choice
	for _, a := range c.actors[1:] {
		switch atomic.LoadInt32(&a.state) {
		case stParked:
			out = append(out, Choice{a.id, "go", a.at})
			if c.AllowStore && a.at == "commit.store" {
				out = append(out, Choice{a.id, "storeFail", a.at})
				// an injected store panic can end in a Go *fatal error* (not recoverable, kills the harness) when the code under
				// test has lost its lock discipline; ./check retries a crashed stream with VERIF_NO_FATAL_FAULTS=1 so that the
				// remaining scenarios can still produce a failing input
				if os.Getenv("VERIF_NO_FATAL_FAULTS") == "" {
					out = append(out, Choice{a.id, "storePanic", a.at})
				}
			}
		case stRunning:
			if c.AllowCancel && a.blocked && (a.site == "token" || strings.HasPrefix(a.site, "stream.next:select")) && !a.ctxDead && a.cancel != nil {
				out = append(out, Choice{a.id, "cancel", a.site})
			}
		}
	}
	return out
}

func (c *Controller) allDone() bool {
	c.mu.Lock()
	defer c.mu.Unlock()
	for _, a := range c.actors[1:] {
		if atomic.LoadInt32(&a.state) != stDone {
			return false
		}
	}
	return true
}

func (c *Controller) apply(ch Choice) {
	c.mu.Lock()
	a := c.actors[ch.Actor]
	switch ch.Kind {
	case "cancel":
		c.add(Record{Kind: "cancel", Actor: a.id, Op: a.opIdx})
		a.ctxDead = true
		a.blocked = false
		cancel := a.cancel
		atomic.StoreInt32(&a.state, stRunning)
		c.mu.Unlock()
		if cancel != nil {
			cancel()
		}
		return
	case "storeFail", "storePanic":
		c.W.Store.setNext(ch.Kind)
	}
	c.add(Record{Kind: "release", Actor: a.id, Point: a.at, Fault: faultOf(ch.Kind), Op: a.opIdx})
	atomic.StoreInt32(&a.state, stRunning)
	a.at = ""
	c.mu.Unlock()
	a.resume <- struct{}{}
}

func faultOf(k string) string {
	if k == "go" {
		return ""
	}
	return k
}

// Run executes the scenario to completion (or to a deadlock / stall) and returns.
func (c *Controller) Run() {
	for _, a := range c.actors[1:] {
		atomic.StoreInt32(&a.state, stRunning)
		go c.runActor(a)
	}
	last := Choice{}
	for step := 0; step < c.MaxSteps; step++ {
		c.quiesce()
		c.observe()
		if c.Stalled {
			return
		}
		opts := c.options()
		goable := false
		for _, o := range opts {
			if o.Kind != "cancel" {
				goable = true
			}
		}
		if !goable {
			if c.allDone() {
				return
			}
			// nobody can be released: cancel the contexts of blocked actors (forced), then give up
			if !c.forceCancel() {
				// the schedule is exhausted and nothing can be cancelled.  A writer that waits for the
				// token while a CLIENT still holds an open write transaction (session transaction, direct
				// Begin) is not wedged: the real code leaves that wait through the one-minute token timeout.
				// End what clients hold (as the scenario teardown does) and go on; only if the blocked
				// actors still cannot move after that it is a deadlock.
				if c.clientTeardown() {
					continue
				}
				c.mu.Lock()
				c.Deadlocked = true
				for _, a := range c.actors[1:] {
					if atomic.LoadInt32(&a.state) != stDone {
						c.add(Record{Kind: "deadlock", Actor: a.id, Site: a.site, Op: a.opIdx})
					}
				}
				c.mu.Unlock()
				return
			}
			continue
		}
		i := c.Chooser.Choose(step, opts, last)
		if i < 0 || i >= len(opts) {
			c.Diverged = true
			i = 0
		}
		ch := opts[i]
		if last.Actor != 0 && ch.Actor != last.Actor {
			c.Switches++
		}
		last = ch
		c.Schedule = append(c.Schedule, ch)
		c.apply(ch)
	}
	c.Stalled = true
}

// clientTeardown ends the write transactions that CLIENTS still hold open (session transactions,
// direct Begin handles) from the controller's own goroutine, each with a 300 ms limit (in a genuine
// lock cycle the call itself blocks and is abandoned).  It reports whether anything was ended.
func (c *Controller) clientTeardown() bool {
	w := c.W
	run := func(f func()) bool {
		done := make(chan struct{})
		go func() {
			defer close(done)
			defer func() { _ = recover() }()
			f()
		}()
		select {
		case <-done:
			return true
		case <-time.After(300 * time.Millisecond):
			return false
		}
	}
	did := false
	for id := 1; id <= len(w.Sessions); id++ {
		s := w.Sessions[id]
		if s == nil {
			continue
		}
		if hasTxn, _, ended := sessionPeek(s); hasTxn && !ended {
			ok := run(func() { _ = s.AbortTransaction(context.Background()) })
			c.mu.Lock()
			c.add(Record{Kind: "teardown", Site: fmt.Sprintf("session %d aborted=%v", id, ok)})
			c.mu.Unlock()
			did = did || ok
		}
	}
	w.mu.Lock()
	hs := map[int]interface{}{}
	for id, t := range w.handles {
		hs[id] = t
	}
	w.mu.Unlock()
	for id := range hs {
		w.mu.Lock()
		t := w.handles[id]
		delete(w.handles, id)
		w.mu.Unlock()
		if t == nil {
			continue
		}
		ok := run(func() { w.Engine.Abort(t) })
		c.mu.Lock()
		c.add(Record{Kind: "teardown", Site: fmt.Sprintf("handle of actor %d aborted=%v", id, ok)})
		c.mu.Unlock()
		did = did || ok
	}
	return did
}

// forceCancel cancels the context of every blocked actor that still has a live one.
func (c *Controller) forceCancel() bool {
	c.mu.Lock()
	var cs []context.CancelFunc
	for _, a := range c.actors[1:] {
		if atomic.LoadInt32(&a.state) == stRunning && a.blocked && !a.ctxDead && a.cancel != nil {
			a.ctxDead = true
			c.add(Record{Kind: "cancel", Actor: a.id, Fault: "forced", Op: a.opIdx})
			cs = append(cs, a.cancel)
		}
	}
	c.mu.Unlock()
	for _, f := range cs {
		f()
	}
	if len(cs) > 0 {
		// give the goroutines a moment to leave their select
		time.Sleep(200 * time.Microsecond)
	}
	return len(cs) > 0
}

func (c *Controller) observe() {
	if c.W == nil || c.W.Engine == nil {
		return
	}
	o := peek(c.W.Engine)
	c.mu.Lock()
	c.add(Record{Kind: "quiesce", Obs: &o})
	c.mu.Unlock()
}

// setCancel registers the cancel function of the actor's current call context.
func (c *Controller) setCancel(a *actor, f context.CancelFunc, dead bool) {
	c.mu.Lock()
	a.cancel = f
	a.ctxDead = dead
	c.mu.Unlock()
}

// Abandon releases every parked actor without recording (teardown after a deadlock or stall), so
// that goroutines that can still finish do so.
func (c *Controller) Abandon() {
	c.mu.Lock()
	c.Free = true
	var rs []*actor
	for _, a := range c.actors[1:] {
		if atomic.LoadInt32(&a.state) == stParked {
			atomic.StoreInt32(&a.state, stRunning)
			rs = append(rs, a)
		}
		if a.cancel != nil {
			defer a.cancel()
		}
	}
	c.mu.Unlock()
	for _, a := range rs {
		select {
		case a.resume <- struct{}{}:
		case <-time.After(50 * time.Millisecond):
		}
	}
}

// ---- choosers ----

// Rand picks uniformly with a bias to keep running the same actor.
type Rand struct {
	Next func(n int) int // PRNG: uniform in [0,n)
	Stay int             // percent probability to continue with the last actor if it is parked
	Flt  int             // percent probability to pick a fault option when one exists
}

func (r *Rand) Choose(step int, opts []Choice, last Choice) int {
	var faults, plain []int
	for i, o := range opts {
		if o.Kind == "go" {
			plain = append(plain, i)
		} else {
			faults = append(faults, i)
		}
	}
	if len(faults) > 0 && (len(plain) == 0 || r.Next(100) < r.Flt) {
		return faults[r.Next(len(faults))]
	}
	if last.Actor != 0 && r.Next(100) < r.Stay {
		for _, i := range plain {
			if opts[i].Actor == last.Actor {
				return i
			}
		}
	}
	return plain[r.Next(len(plain))]
}

// Fixed replays a recorded schedule; when the recorded element is not enabled it reports -1 (the
// controller then takes the first option and flags the run as diverged).
type Fixed struct{ Sched []Choice }

func (f *Fixed) Choose(step int, opts []Choice, last Choice) int {
	if step < len(f.Sched) {
		for i, o := range opts {
			if o == f.Sched[step] {
				return i
			}
		}
		return -1
	}
	// past the recorded schedule: first plain option
	for i, o := range opts {
		if o.Kind == "go" {
			return i
		}
	}
	return 0
}

// Directed drives named interleavings: each directive says "run actor A until it is parked at point
// P" (P == "" or "done": until it cannot be released any more).  When the directives are used up
// the fallback chooser takes over.
type Directed struct {
	Steps []Directive
	Then  Chooser
	i     int
	moved bool
}

// Directive is one element of a Directed schedule.
type Directive struct {
	Actor int
	Until string
	Fault string // non-empty: take this fault option of the actor once (cancel | storeFail | storePanic)
}

func (d *Directed) Choose(step int, opts []Choice, last Choice) int {
	for d.i < len(d.Steps) {
		dv := d.Steps[d.i]
		if dv.Fault != "" {
			d.i++
			d.moved = false
			for i, o := range opts {
				if o.Actor == dv.Actor && o.Kind == dv.Fault {
					return i
				}
			}
			continue
		}
		idx := -1
		for i, o := range opts {
			if o.Actor == dv.Actor && o.Kind == "go" {
				idx = i
			}
		}
		if idx < 0 {
			d.i++ // the actor is blocked or done: directive over
			d.moved = false
			continue
		}
		if d.moved && dv.Until != "" && dv.Until != "done" && opts[idx].At == dv.Until {
			d.i++
			d.moved = false
			continue
		}
		d.moved = true // the actor is released at least once per directive
		return idx
	}
	if d.Then != nil {
		return d.Then.Choose(step, opts, last)
	}
	for i, o := range opts {
		if o.Kind == "go" {
			return i
		}
	}
	return 0
}
