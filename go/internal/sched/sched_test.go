//go:build verif

package sched

import (
	"fmt"
	"math/rand"
	"testing"
)

func dump(o *Outcome) {
	for _, r := range o.Trace {
		switch r.Kind {
		case "event":
			fmt.Printf("%3d a%d %-18s %v park=%v\n", r.Seq, r.Actor, r.Point, r.Args, r.Parked)
		case "quiesce":
			fmt.Printf("%3d    obs %+v\n", r.Seq, *r.Obs)
		case "ret":
			fmt.Printf("%3d a%d ret %+v final=%v\n", r.Seq, r.Actor, *r.Res, r.Final)
		default:
			fmt.Printf("%3d a%d %s %s %s %v\n", r.Seq, r.Actor, r.Kind, r.Point, r.Site, r.Call)
		}
	}
	fmt.Println("viols", o.Viols, "switches", o.Switches, "dead", o.Deadlocked, "stall", o.Stalled, "ms", o.WallMS)
}

func TestBasic(t *testing.T) {
	rng := rand.New(rand.NewSource(1))
	sc := Scenario{Kind: "basic", Actors: [][]Op{{{Kind: "inc"}, {Kind: "find"}}, {{Kind: "fau"}}}}
	o := Run(sc, &Rand{Next: rng.Intn, Stay: 50})
	dump(o)
	if len(o.Viols) > 0 {
		t.Fatal(o.Viols)
	}
}
