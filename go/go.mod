module verifharness

go 1.25.0

require (
	github.com/256dpi/lungo v0.0.0
	github.com/shopspring/decimal v1.4.0
	go.mongodb.org/mongo-driver v1.17.9
)

require github.com/tidwall/btree v1.8.1 // indirect

replace github.com/256dpi/lungo => /repo
