module verifharness

go 1.25.0

require (
	github.com/256dpi/lungo v0.0.0
	github.com/shopspring/decimal v1.4.0
	go.mongodb.org/mongo-driver v1.17.9
)

require (
	github.com/golang/snappy v0.0.4 // indirect
	github.com/klauspost/compress v1.16.7 // indirect
	github.com/montanaflynn/stats v0.7.1 // indirect
	github.com/tidwall/btree v1.8.1 // indirect
	github.com/xdg-go/pbkdf2 v1.0.0 // indirect
	github.com/xdg-go/scram v1.1.2 // indirect
	github.com/xdg-go/stringprep v1.0.4 // indirect
	github.com/youmark/pkcs8 v0.0.0-20240726163527-a2c0da244d78 // indirect
	golang.org/x/crypto v0.50.0 // indirect
	golang.org/x/sync v0.20.0 // indirect
	golang.org/x/text v0.36.0 // indirect
	gopkg.in/tomb.v2 v2.0.0-20161208151619-d5d1b5820637 // indirect
)

replace github.com/256dpi/lungo => /repo
