// crashwriter — helper process of stream "crash" (C05): opens a lungo file store at <path> and
// performs ONE more commit (InsertOne of the given document). It is run under strace so the
// parent can record the system calls of the commit and kill it at every system-call boundary.
//
//	crashwriter <store path> <db> <coll> <hex of bson document>
//
// The main goroutine is locked to the main thread so that all system calls of the commit are
// issued by one thread (strace's injection counters are per thread).
//
// Environment (error-injection scenarios of the stream):
//
//	CRASHWRITER_PAD=<n>           the inserted document gets an extra field pad = n times "x" (large databases;
//	                              a document of that size does not fit on the command line)
//	CRASHWRITER_RLIMIT_FSIZE=<n>  RLIMIT_FSIZE is set to n bytes before the commit and SIGXFSZ is ignored: a write
//	                              crossing the limit is SHORT, the next one fails with EFBIG (real kernel, no ptrace)
//
// Output: "committed" (Commit returned nil) | "insert-error" (it returned an error) | "open-error".
package main

import (
	"context"
	"encoding/hex"
	"fmt"
	"os"
	"os/signal"
	"runtime"
	"strconv"
	"strings"
	"syscall"

	"go.mongodb.org/mongo-driver/bson"

	"github.com/256dpi/lungo"
)

func main() {
	runtime.LockOSThread()
	if len(os.Args) != 5 {
		fmt.Fprintln(os.Stderr, "usage: crashwriter <path> <db> <coll> <hex bson>")
		os.Exit(2)
	}
	raw, err := hex.DecodeString(os.Args[4])
	if err != nil {
		fmt.Fprintln(os.Stderr, "bad hex:", err)
		os.Exit(2)
	}
	var doc bson.D
	if err := bson.Unmarshal(raw, &doc); err != nil {
		fmt.Fprintln(os.Stderr, "bad bson:", err)
		os.Exit(2)
	}
	if v := os.Getenv("CRASHWRITER_PAD"); v != "" {
		n, err := strconv.Atoi(v)
		if err != nil || n < 0 {
			fmt.Fprintln(os.Stderr, "bad CRASHWRITER_PAD")
			os.Exit(2)
		}
		doc = append(doc, bson.E{Key: "pad", Value: strings.Repeat("x", n)})
	}
	client, engine, err := lungo.Open(context.Background(), lungo.Options{Store: lungo.NewFileStore(os.Args[1], 0666)})
	if err != nil {
		fmt.Println("open-error")
		os.Exit(3)
	}
	if v := os.Getenv("CRASHWRITER_RLIMIT_FSIZE"); v != "" {
		n, err := strconv.ParseUint(v, 10, 64)
		if err != nil {
			fmt.Fprintln(os.Stderr, "bad CRASHWRITER_RLIMIT_FSIZE")
			os.Exit(2)
		}
		signal.Ignore(syscall.SIGXFSZ)
		if err := syscall.Setrlimit(syscall.RLIMIT_FSIZE, &syscall.Rlimit{Cur: n, Max: n}); err != nil {
			fmt.Println("rlimit-error")
			os.Exit(5)
		}
	}
	_, err = client.Database(os.Args[2]).Collection(os.Args[3]).InsertOne(context.Background(), doc)
	if err != nil {
		fmt.Println("insert-error")
		engine.Close()
		os.Exit(4)
	}
	// the commit has returned: tell the parent (C05: once success is reported a crash cannot lose it)
	fmt.Println("committed")
	engine.Close()
}
