package main

// genTxnPrograms — DESIGN §4.1 `Gen/TxnPublish` + `Gen/CollWrites`, in the IR of
// lean/Lungo/Model/Own.lean.  Output: lean/Lungo/Gen/TxnPrograms.lean defining
//
//	Gen.txnPrograms  : List (String × Own.Prog)        one per Transaction write method
//	Gen.collPrograms : List Own.CollProg                one per mongokit.Collection write method
//
// compared in Lean with Expected.txnPrograms / Expected.collPrograms (Ties/TxnPrograms.lean).
//
// ---------------------------------------------------------------------------------------------
// MAPPING RULES (mechanical; everything else becomes `Stmt.unknown "<source>"`, which fails the
// tie AND the ownership check, or — if it touches nothing tracked — is dropped, see "dropped")
//
// tracked names:  catalogs   = "t.catalog" and every variable bound by a catalog Clone();
//                 collections = variables bound by NewCollection / Collection.Clone() / a map
//                               lookup / declared `var x *mongokit.Collection` / helper parameters
//                               of type *mongokit.Collection (renamed to the caller's argument);
//                 handles     = the method's `handle` parameter → HExpr.param, `Oplog` →
//                               HExpr.oplog, the key variable of `range cat.Namespaces` →
//                               HExpr.loopVar (helper parameters are renamed to the argument);
//                 documents   = the value variable of `for _, d := range xs` stands for `xs`
//                               (unless `xs` is rooted at tracked state: then `d` is an ordinary
//                               local); `x.f.g` stands for `x`.
// scoping is flat: a re-declaration (`namespace := …` inside a loop) rebinds the same IR variable.
//
//	err := handle.Validate(…)                       validate
//	x = bsonkit.CloneList(y) | bsonkit.Clone(y)      cloneDocs x y
//	x := C.Clone()              (C a catalog)        cloneCatalog x C
//	t.catalog = C.Clone()                            cloneCatalog "$clone" C; setCatalog "$clone"
//	x := E.Clone()              (E a collection expr: v | C.Namespaces[h])   cloneColl x E
//	x := E                      (NO Clone)           alias x E
//	x = mongokit.NewCollection(…)                    newColl x
//	C.Namespaces[h] = mongokit.NewCollection(…)      setNsNew C h
//	C.Namespaces[h] = v                              setNs C h v
//	delete(C.Namespaces, h)                          deleteNs C h
//	…, err = v.Insert|Replace|Update|Upsert|Delete|CreateIndex|DropIndex(…)
//	                                                 callColl v <method> <arg>
//	      <arg> = the identifier (after renaming) at argument position 0 (Insert) / 1 (Replace,
//	      Upsert), `none` if that argument is nil or not rooted at an identifier, or for the others
//	v.Documents.Remove(…)                            callColl v setRemove none
//	…, err = t.insert|replace|update|delete|append(…)  helper "<name>" [body of the helper, inlined
//	                                                 with parameters renamed to the arguments]
//	t.catalog = v                                    setCatalog v
//	t.dirty = true                                   setDirty
//	return …, nil | return (no error result)         retOk
//	return …, err                                    retErr
//	return …, fmt.Errorf(…)                          fail
//	break / continue                                 brk / cont
//	if c { A } else { B }                            ite <c> A B          (else-if nests)
//	switch tag { case a: A … default: D }            ite (test "tag == a") A (… D)
//	for … { B }                                      loop false B
//	for k, v := range C.Namespaces { B }             loop true (alias v (ns C loopVar) :: B)
//
// conditions:  E == nil → isNil E (E a collection expr), E != nil → neg (isNil E),
//	err != nil → err, err == nil → neg err, a && b → both, a || b → either, !a → neg,
//	anything else → test "<source text, whitespace-normalised>".
//
// dropped: a statement (or `if`/`for`/`switch` whose translated branches are all empty, or a loop
// whose body has nothing but break/continue) that contains no return/break/continue and in which
// tracked names occur only as READS: under a field selection (`oplog.Documents.List`,
// `namespace.Indexes`, `t.catalog.Namespaces[h].Indexes`), as receiver of Find/Config/List/Has, or
// in an `== nil` comparison.  Calls on `t.mutex`, and `defer t.mutex.Unlock()`, are dropped.
// A tracked name used any other way (passed to a function, assigned elsewhere, unknown method)
// makes the statement `unknown`.
// ---------------------------------------------------------------------------------------------

import (
	"fmt"
	"go/ast"
	"go/token"
	"path/filepath"
	"strings"
)

var txnMethods = []string{"Create", "Bulk", "Insert", "Replace", "Update", "Delete", "Drop",
	"CreateIndex", "DropIndex", "DropIndexByKey", "Clean", "Expire"}

var txnHelpers = map[string]bool{"insert": true, "replace": true, "update": true, "delete": true, "append": true}

var collMutators = map[string]string{"Insert": "insert", "Replace": "replace", "Update": "update",
	"Upsert": "upsert", "Delete": "delete", "CreateIndex": "createIndex", "DropIndex": "dropIndex"}

var collArgPos = map[string]int{"Insert": 0, "Replace": 1, "Upsert": 1}

var collReaders = map[string]bool{"Find": true, "Config": true, "List": true, "Has": true}

// ir is one translated statement
type ir struct {
	text      string // Lean term
	effectful bool   // anything but brk / cont / an ite of such
}

type tr struct {
	file    *ast.File
	cats    map[string]bool
	colls   map[string]bool
	hsub    map[string]string // Go identifier → HExpr term
	vsub    map[string]string // Go identifier → IR variable name (collections, documents)
	hasErr  bool              // the enclosing function's last result is `error`
	depth   int
}

func (t *tr) clone() *tr {
	n := &tr{file: t.file, cats: map[string]bool{}, colls: map[string]bool{}, hsub: map[string]string{}, vsub: map[string]string{}, depth: t.depth}
	for k, v := range t.cats {
		n.cats[k] = v
	}
	for k, v := range t.colls {
		n.colls[k] = v
	}
	return n
}

func (t *tr) name(id string) string {
	if v, ok := t.vsub[id]; ok {
		return v
	}
	return id
}

func rootIdent(e ast.Expr) (string, bool) {
	for {
		switch x := e.(type) {
		case *ast.Ident:
			return x.Name, true
		case *ast.SelectorExpr:
			e = x.X
		case *ast.ParenExpr:
			e = x.X
		case *ast.StarExpr:
			e = x.X
		default:
			return "", false
		}
	}
}

// catExpr: `t.catalog` or a catalog variable
func (t *tr) catExpr(e ast.Expr) (string, bool) {
	switch x := e.(type) {
	case *ast.Ident:
		if t.cats[t.name(x.Name)] {
			return t.name(x.Name), true
		}
	case *ast.SelectorExpr:
		if id, ok := x.X.(*ast.Ident); ok && id.Name == "t" && x.Sel.Name == "catalog" {
			return "t.catalog", true
		}
	}
	return "", false
}

func (t *tr) hExpr(e ast.Expr) (string, bool) {
	if id, ok := e.(*ast.Ident); ok {
		if id.Name == "Oplog" {
			return "HExpr.oplog", true
		}
		if h, ok := t.hsub[id.Name]; ok {
			return h, true
		}
	}
	return "", false
}

// collExpr: a collection variable or `C.Namespaces[h]`
func (t *tr) collExpr(e ast.Expr) (string, bool) {
	switch x := e.(type) {
	case *ast.Ident:
		if t.colls[t.name(x.Name)] {
			return "(CExpr.var " + lstr(t.name(x.Name)) + ")", true
		}
	case *ast.IndexExpr:
		if c, h, ok := t.nsIndex(x); ok {
			return "(CExpr.ns " + lstr(c) + " " + h + ")", true
		}
	}
	return "", false
}

func (t *tr) nsIndex(x *ast.IndexExpr) (string, string, bool) {
	sel, ok := x.X.(*ast.SelectorExpr)
	if !ok || sel.Sel.Name != "Namespaces" {
		return "", "", false
	}
	c, ok := t.catExpr(sel.X)
	if !ok {
		return "", "", false
	}
	h, ok := t.hExpr(x.Index)
	if !ok {
		return "", "", false
	}
	return c, h, true
}

// methodCall: `recv.M(args)` → recv expr, M
func methodCall(e ast.Expr) (ast.Expr, string, *ast.CallExpr) {
	c, ok := e.(*ast.CallExpr)
	if !ok {
		return nil, "", nil
	}
	sel, ok := c.Fun.(*ast.SelectorExpr)
	if !ok {
		return nil, "", c
	}
	return sel.X, sel.Sel.Name, c
}

// tracked: does the identifier (or `t.catalog` / `t.dirty`) name tracked state?
func (t *tr) trackedIdent(name string) bool {
	n := t.name(name)
	return t.cats[n] || t.colls[n]
}

// unsafeUse reports whether node uses tracked state other than by reading it (see "dropped").
func (t *tr) unsafeUse(n ast.Node) bool {
	bad := false
	var visit func(n ast.Node, ctx string)
	// ctx: "sel" = under a field selection / read-only receiver / nil comparison; "" = as a value
	visit = func(n ast.Node, ctx string) {
		if n == nil || bad {
			return
		}
		switch x := n.(type) {
		case *ast.Ident:
			if t.trackedIdent(x.Name) && ctx != "sel" {
				bad = true
			}
		case *ast.SelectorExpr:
			if id, ok := x.X.(*ast.Ident); ok && id.Name == "t" {
				if x.Sel.Name == "mutex" {
					return
				}
				if (x.Sel.Name == "catalog" || x.Sel.Name == "dirty") && ctx != "sel" {
					bad = true
				}
				return
			}
			visit(x.X, "sel")
		case *ast.CallExpr:
			if recv, m, _ := methodCall(x); recv != nil {
				if root, ok := rootIdent(recv); ok && (t.trackedIdent(root) || root == "t") {
					if root == "t" {
						if s, ok := recv.(*ast.SelectorExpr); ok && s.Sel.Name == "mutex" {
							return
						}
						if id, ok := recv.(*ast.Ident); ok && id.Name == "t" {
							bad = true // a method of the transaction we do not know
							return
						}
					}
					if !collReaders[m] {
						bad = true
						return
					}
					visit(recv, "sel")
				} else {
					visit(recv, "")
				}
			} else {
				visit(x.Fun, "")
			}
			for _, a := range x.Args {
				visit(a, "")
			}
		case *ast.IndexExpr:
			visit(x.X, ctx)
			visit(x.Index, "")
		case *ast.BinaryExpr:
			if (x.Op == token.EQL || x.Op == token.NEQ) && (isNil(x.X) || isNil(x.Y)) {
				visit(x.X, "sel")
				visit(x.Y, "sel")
				return
			}
			visit(x.X, "")
			visit(x.Y, "")
		case *ast.ParenExpr:
			visit(x.X, ctx)
		case *ast.StarExpr:
			visit(x.X, ctx)
		case *ast.UnaryExpr:
			visit(x.X, "")
		default:
			ast.Inspect(n, func(c ast.Node) bool {
				if c == n || c == nil {
					return true
				}
				if e, ok := c.(ast.Expr); ok {
					visit(e, "")
					return false
				}
				return true
			})
		}
	}
	visit(n, "")
	return bad
}

func isNil(e ast.Expr) bool {
	id, ok := e.(*ast.Ident)
	return ok && id.Name == "nil"
}

func hasJump(n ast.Node) bool {
	found := false
	ast.Inspect(n, func(c ast.Node) bool {
		switch c.(type) {
		case *ast.ReturnStmt, *ast.BranchStmt:
			found = true
		case *ast.FuncLit:
			return false
		}
		return !found
	})
	return found
}

func (t *tr) cond(e ast.Expr) string {
	switch x := e.(type) {
	case *ast.ParenExpr:
		return t.cond(x.X)
	case *ast.UnaryExpr:
		if x.Op == token.NOT {
			return "(Cond.neg " + t.cond(x.X) + ")"
		}
	case *ast.BinaryExpr:
		switch x.Op {
		case token.LAND:
			return "(Cond.both " + t.cond(x.X) + " " + t.cond(x.Y) + ")"
		case token.LOR:
			return "(Cond.either " + t.cond(x.X) + " " + t.cond(x.Y) + ")"
		case token.EQL, token.NEQ:
			if isNil(x.Y) {
				inner := ""
				if id, ok := x.X.(*ast.Ident); ok && id.Name == "err" {
					// `err != nil` is the positive form
					if x.Op == token.NEQ {
						return "Cond.err"
					}
					return "(Cond.neg Cond.err)"
				}
				if ce, ok := t.collExpr(x.X); ok {
					inner = "(Cond.isNil " + ce + ")"
				}
				if inner != "" {
					if x.Op == token.EQL {
						return inner
					}
					return "(Cond.neg " + inner + ")"
				}
			}
		}
	}
	return "(Cond.test " + lstr(src(e)) + ")"
}

func unknown(n ast.Node) ir {
	return ir{"Stmt.unknown " + lstr(src(n)), true}
}

func texts(xs []ir) string {
	s := make([]string, len(xs))
	for i, x := range xs {
		s[i] = x.text
	}
	return "[" + strings.Join(s, ", ") + "]"
}

func anyEffect(xs []ir) bool {
	for _, x := range xs {
		if x.effectful {
			return true
		}
	}
	return false
}

func (t *tr) block(list []ast.Stmt) []ir {
	var out []ir
	for _, s := range list {
		out = append(out, t.stmt(s)...)
	}
	return out
}

func (t *tr) ite(c string, thn, els []ir) []ir {
	if len(thn) == 0 && len(els) == 0 {
		return nil
	}
	return []ir{{"Stmt.ite " + c + " " + texts(thn) + " " + texts(els), anyEffect(thn) || anyEffect(els)}}
}

func (t *tr) stmt(s ast.Stmt) []ir {
	switch x := s.(type) {
	case *ast.BlockStmt:
		return t.block(x.List)
	case *ast.EmptyStmt:
		return nil
	case *ast.ReturnStmt:
		if !t.hasErr || len(x.Results) == 0 {
			return []ir{{"Stmt.retOk", true}}
		}
		last := x.Results[len(x.Results)-1]
		if isNil(last) {
			return []ir{{"Stmt.retOk", true}}
		}
		if id, ok := last.(*ast.Ident); ok && id.Name == "err" {
			return []ir{{"Stmt.retErr", true}}
		}
		if c, ok := last.(*ast.CallExpr); ok && (src(c.Fun) == "fmt.Errorf" || src(c.Fun) == "errors.New") {
			return []ir{{"Stmt.fail", true}}
		}
		return []ir{unknown(x)}
	case *ast.BranchStmt:
		if x.Label == nil && x.Tok == token.BREAK {
			return []ir{{"Stmt.brk", false}}
		}
		if x.Label == nil && x.Tok == token.CONTINUE {
			return []ir{{"Stmt.cont", false}}
		}
		return []ir{unknown(x)}
	case *ast.IfStmt:
		var out []ir
		if x.Init != nil {
			out = append(out, t.stmt(x.Init)...)
		}
		var els []ir
		if x.Else != nil {
			els = t.stmt(x.Else)
		}
		return append(out, t.ite(t.cond(x.Cond), t.block(x.Body.List), els)...)
	case *ast.SwitchStmt:
		if x.Init != nil || x.Tag == nil {
			if t.unsafeUse(x) || hasJump(x) {
				return []ir{unknown(x)}
			}
			return nil
		}
		// build from the last clause backwards
		var def []ir
		var clauses []*ast.CaseClause
		for _, c := range x.Body.List {
			cc := c.(*ast.CaseClause)
			if cc.List == nil {
				def = t.block(cc.Body)
			} else {
				clauses = append(clauses, cc)
			}
		}
		els := def
		for i := len(clauses) - 1; i >= 0; i-- {
			cc := clauses[i]
			c := ""
			for j, v := range cc.List {
				one := "(Cond.test " + lstr(src(x.Tag)+" == "+src(v)) + ")"
				if j == 0 {
					c = one
				} else {
					c = "(Cond.either " + c + " " + one + ")"
				}
			}
			els = t.ite(c, t.block(cc.Body), els)
		}
		return els
	case *ast.ForStmt:
		body := t.block(x.Body.List)
		if x.Init != nil && t.unsafeUse(x.Init) || x.Post != nil && t.unsafeUse(x.Post) || x.Cond != nil && t.unsafeUse(x.Cond) {
			return []ir{unknown(x)}
		}
		if !anyEffect(body) {
			return nil
		}
		return []ir{{"Stmt.loop false " + texts(body), true}}
	case *ast.RangeStmt:
		// range over C.Namespaces binds the handle (key) and aliases the value
		if sel, ok := x.X.(*ast.SelectorExpr); ok && sel.Sel.Name == "Namespaces" {
			if c, ok := t.catExpr(sel.X); ok {
				var pre []ir
				if k, ok := x.Key.(*ast.Ident); ok && k.Name != "_" {
					t.hsub[k.Name] = "HExpr.loopVar"
				}
				if v, ok := x.Value.(*ast.Ident); ok && v.Name != "_" {
					delete(t.vsub, v.Name)
					t.colls[v.Name] = true
					pre = append(pre, ir{"Stmt.alias " + lstr(v.Name) + " (CExpr.ns " + lstr(c) + " HExpr.loopVar)", true})
				}
				body := t.block(x.Body.List)
				if !anyEffect(body) {
					return nil
				}
				return []ir{{"Stmt.loop true " + texts(append(pre, body...)), true}}
			}
		}
		if t.unsafeUse(x.X) {
			return []ir{unknown(x)}
		}
		// the value variable stands for the ranged variable
		if v, ok := x.Value.(*ast.Ident); ok && v.Name != "_" {
			delete(t.vsub, v.Name)
			if root, ok := rootIdent(x.X); ok && !t.trackedIdent(root) && root != "t" {
				t.vsub[v.Name] = t.name(root)
			}
		}
		body := t.block(x.Body.List)
		if !anyEffect(body) {
			return nil
		}
		return []ir{{"Stmt.loop false " + texts(body), true}}
	case *ast.DeferStmt:
		if t.unsafeUse(x.Call) {
			return []ir{unknown(x)}
		}
		return nil
	case *ast.DeclStmt:
		gd, ok := x.Decl.(*ast.GenDecl)
		if ok && gd.Tok == token.VAR {
			for _, sp := range gd.Specs {
				vs := sp.(*ast.ValueSpec)
				if src(vs.Type) == "*mongokit.Collection" && len(vs.Values) == 0 {
					for _, n := range vs.Names {
						delete(t.vsub, n.Name)
						t.colls[n.Name] = true
					}
					continue
				}
				if t.unsafeUse(vs) {
					return []ir{unknown(x)}
				}
			}
			return nil
		}
		if t.unsafeUse(x) {
			return []ir{unknown(x)}
		}
		return nil
	case *ast.ExprStmt:
		return t.call(x.X, nil, x)
	case *ast.AssignStmt:
		return t.assign(x)
	}
	if t.unsafeUse(s) || hasJump(s) {
		return []ir{unknown(s)}
	}
	return nil
}

func (t *tr) bindColl(name string) {
	delete(t.vsub, name)
	delete(t.cats, name)
	t.colls[name] = true
}

func (t *tr) assign(x *ast.AssignStmt) []ir {
	if len(x.Rhs) != 1 {
		if t.unsafeUse(x) {
			return []ir{unknown(x)}
		}
		return nil
	}
	rhs := x.Rhs[0]
	lhs0 := x.Lhs[0]
	// t.catalog = … / t.dirty = …
	if sel, ok := lhs0.(*ast.SelectorExpr); ok && len(x.Lhs) == 1 {
		if id, ok := sel.X.(*ast.Ident); ok && id.Name == "t" {
			switch sel.Sel.Name {
			case "dirty":
				if src(rhs) == "true" {
					return []ir{{"Stmt.setDirty", true}}
				}
				return []ir{unknown(x)}
			case "catalog":
				if v, ok := rhs.(*ast.Ident); ok && t.cats[t.name(v.Name)] {
					return []ir{{"Stmt.setCatalog " + lstr(t.name(v.Name)), true}}
				}
				if recv, m, c := methodCall(rhs); recv != nil && m == "Clone" && len(c.Args) == 0 {
					if cs, ok := t.catExpr(recv); ok {
						t.cats["$clone"] = true
						return []ir{{"Stmt.cloneCatalog \"$clone\" " + lstr(cs), true}, {"Stmt.setCatalog \"$clone\"", true}}
					}
				}
				return []ir{unknown(x)}
			}
		}
	}
	// C.Namespaces[h] = …
	if ix, ok := lhs0.(*ast.IndexExpr); ok && len(x.Lhs) == 1 {
		if c, h, ok := t.nsIndex(ix); ok {
			if v, ok := rhs.(*ast.Ident); ok && t.colls[t.name(v.Name)] {
				return []ir{{"Stmt.setNs " + lstr(c) + " " + h + " " + lstr(t.name(v.Name)), true}}
			}
			if call, ok := rhs.(*ast.CallExpr); ok && src(call.Fun) == "mongokit.NewCollection" {
				return []ir{{"Stmt.setNsNew " + lstr(c) + " " + h, true}}
			}
			return []ir{unknown(x)}
		}
	}
	// calls on the right-hand side
	if _, ok := rhs.(*ast.CallExpr); ok {
		return t.call(rhs, x.Lhs, x)
	}
	// x := E (collection expression without Clone) → alias
	if id, ok := lhs0.(*ast.Ident); ok && len(x.Lhs) == 1 {
		if ce, ok := t.collExpr(rhs); ok {
			t.bindColl(id.Name)
			return []ir{{"Stmt.alias " + lstr(id.Name) + " " + ce, true}}
		}
	}
	// `v, ok := C.Namespaces[h]`
	if len(x.Lhs) == 2 {
		if id, ok := lhs0.(*ast.Ident); ok {
			if ce, ok := t.collExpr(rhs); ok && id.Name != "_" {
				t.bindColl(id.Name)
				return []ir{{"Stmt.alias " + lstr(id.Name) + " " + ce, true}}
			}
		}
	}
	if t.unsafeUse(x) {
		return []ir{unknown(x)}
	}
	return nil
}

// call translates a call expression appearing as a statement or as the single right-hand side of an
// assignment (lhs may be nil).
func (t *tr) call(e ast.Expr, lhs []ast.Expr, whole ast.Node) []ir {
	c, ok := e.(*ast.CallExpr)
	if !ok {
		if t.unsafeUse(whole) {
			return []ir{unknown(whole)}
		}
		return nil
	}
	fun := src(c.Fun)
	lhsIdent := func() (string, bool) {
		if len(lhs) >= 1 {
			if id, ok := lhs[0].(*ast.Ident); ok {
				return id.Name, true
			}
		}
		return "", false
	}
	switch fun {
	case "delete":
		if len(c.Args) == 2 {
			if sel, ok := c.Args[0].(*ast.SelectorExpr); ok && sel.Sel.Name == "Namespaces" {
				if cs, ok := t.catExpr(sel.X); ok {
					if h, ok := t.hExpr(c.Args[1]); ok {
						return []ir{{"Stmt.deleteNs " + lstr(cs) + " " + h, true}}
					}
				}
				return []ir{unknown(whole)}
			}
		}
	case "bsonkit.CloneList", "bsonkit.Clone":
		if dst, ok := lhsIdent(); ok && len(c.Args) == 1 {
			if root, ok := rootIdent(c.Args[0]); ok {
				s := t.name(root)
				delete(t.vsub, dst)
				return []ir{{"Stmt.cloneDocs " + lstr(dst) + " " + lstr(s), true}}
			}
		}
	case "mongokit.NewCollection":
		if dst, ok := lhsIdent(); ok && len(lhs) == 1 {
			t.bindColl(dst)
			return []ir{{"Stmt.newColl " + lstr(dst), true}}
		}
		return []ir{unknown(whole)}
	}
	recv, m, _ := methodCall(c)
	if recv != nil {
		// handle.Validate
		if id, ok := recv.(*ast.Ident); ok && m == "Validate" {
			if _, isH := t.hsub[id.Name]; isH {
				return []ir{{"Stmt.validate", true}}
			}
		}
		// helpers of the transaction
		if id, ok := recv.(*ast.Ident); ok && id.Name == "t" {
			if txnHelpers[m] {
				return t.inline(m, c, whole)
			}
			return []ir{unknown(whole)}
		}
		if m == "Clone" && len(c.Args) == 0 {
			if cs, ok := t.catExpr(recv); ok {
				if dst, ok := lhsIdent(); ok && len(lhs) == 1 {
					delete(t.vsub, dst)
					delete(t.colls, dst)
					t.cats[dst] = true
					return []ir{{"Stmt.cloneCatalog " + lstr(dst) + " " + lstr(cs), true}}
				}
				return []ir{unknown(whole)}
			}
			if ce, ok := t.collExpr(recv); ok {
				if dst, ok := lhsIdent(); ok && len(lhs) == 1 {
					t.bindColl(dst)
					return []ir{{"Stmt.cloneColl " + lstr(dst) + " " + ce, true}}
				}
				return []ir{unknown(whole)}
			}
		}
		// mutating Collection methods on a collection VARIABLE
		if id, ok := recv.(*ast.Ident); ok && t.colls[t.name(id.Name)] {
			if meth, ok := collMutators[m]; ok {
				arg := "none"
				if pos, ok := collArgPos[m]; ok && pos < len(c.Args) && !isNil(c.Args[pos]) {
					if root, ok := rootIdent(c.Args[pos]); ok {
						arg = "(some " + lstr(t.name(root)) + ")"
					}
				}
				for _, a := range c.Args {
					if t.unsafeUse(a) {
						return []ir{unknown(whole)}
					}
				}
				return []ir{{"Stmt.callColl " + lstr(t.name(id.Name)) + " Method." + meth + " " + arg, true}}
			}
		}
		// v.Documents.Remove(…)
		if sel, ok := recv.(*ast.SelectorExpr); ok && sel.Sel.Name == "Documents" && m == "Remove" {
			if id, ok := sel.X.(*ast.Ident); ok && t.colls[t.name(id.Name)] {
				return []ir{{"Stmt.callColl " + lstr(t.name(id.Name)) + " Method.setRemove none", true}}
			}
		}
	}
	if t.unsafeUse(whole) {
		return []ir{unknown(whole)}
	}
	return nil
}

// inline a private helper: parameters of type *mongokit.Collection / Handle / documents are renamed
// to the (root identifiers of the) arguments.
func (t *tr) inline(name string, c *ast.CallExpr, whole ast.Node) []ir {
	fd := method(t.file, "Transaction", name)
	if fd == nil || t.depth > 4 {
		return []ir{unknown(whole)}
	}
	n := t.clone()
	n.depth = t.depth + 1
	n.hasErr = lastIsError(fd)
	i := 0
	for _, f := range fd.Type.Params.List {
		for _, p := range f.Names {
			if i >= len(c.Args) {
				return []ir{unknown(whole)}
			}
			a := c.Args[i]
			i++
			switch src(f.Type) {
			case "*mongokit.Collection":
				id, ok := a.(*ast.Ident)
				if !ok || !t.colls[t.name(id.Name)] {
					return []ir{unknown(whole)}
				}
				n.vsub[p.Name] = t.name(id.Name)
			case "Handle":
				h, ok := t.hExpr(a)
				if !ok {
					return []ir{unknown(whole)}
				}
				n.hsub[p.Name] = h
			default:
				if t.unsafeUse(a) {
					return []ir{unknown(whole)}
				}
				if root, ok := rootIdent(a); ok && !isNil(a) {
					n.vsub[p.Name] = t.name(root)
				}
			}
		}
	}
	body := n.block(fd.Body.List)
	return []ir{{"Stmt.helper " + lstr(name) + " " + texts(body), true}}
}

func lastIsError(fd *ast.FuncDecl) bool {
	if fd.Type.Results == nil || len(fd.Type.Results.List) == 0 {
		return false
	}
	l := fd.Type.Results.List
	return src(l[len(l)-1].Type) == "error"
}

// ---- Collection methods: which components are written, in which order ----

var collWriteMethods = []string{"Insert", "Replace", "Update", "Upsert", "Delete", "CreateIndex", "DropIndex"}

func collSteps(fd *ast.FuncDecl) []string {
	var steps []string
	var walk func(n ast.Node)
	loop := func(label string, body *ast.BlockStmt) {
		mark := len(steps)
		steps = append(steps, "CollStep.forBegin "+lstr(label))
		walk(body)
		if len(steps) == mark+1 {
			steps = steps[:mark]
		} else {
			steps = append(steps, "CollStep.forEnd")
		}
	}
	walk = func(n ast.Node) {
		ast.Inspect(n, func(c ast.Node) bool {
			switch x := c.(type) {
			case *ast.RangeStmt:
				walk(x.X)
				loop(src(x.X), x.Body)
				return false
			case *ast.ForStmt:
				loop("for", x.Body)
				return false
			case *ast.AssignStmt:
				// evaluate right-hand sides first, then the store
				for _, r := range x.Rhs {
					walk(r)
				}
				for _, l := range x.Lhs {
					if ix, ok := l.(*ast.IndexExpr); ok && src(ix.X) == "c.Indexes" {
						steps = append(steps, "CollStep.mapPut")
					}
				}
				if len(x.Lhs) == 1 && len(x.Rhs) == 1 {
					if se, ok := x.Rhs[0].(*ast.SliceExpr); ok && src(x.Lhs[0]) == src(se.X) && se.Low != nil && src(se.Low) == "skip" {
						steps = append(steps, "CollStep.skip")
					}
				}
				return false
			case *ast.CallExpr:
				for _, a := range x.Args {
					walk(a)
				}
				f := src(x.Fun)
				switch {
				case f == "Sort":
					steps = append(steps, "CollStep.sort")
				case f == "Filter":
					steps = append(steps, "CollStep.filter")
				case f == "bsonkit.CloneList" || f == "bsonkit.Clone":
					steps = append(steps, "CollStep.cloneDocs")
				case f == "Update" || f == "Apply":
					steps = append(steps, "CollStep.apply "+lstr(src(x.Args[0])))
				case f == "Extract":
					steps = append(steps, "CollStep.extract")
				case f == "sameValue":
					steps = append(steps, "CollStep.idCheck")
				case f == "bsonkit.Put" && len(x.Args) >= 2 && src(x.Args[1]) == "\"_id\"":
					steps = append(steps, "CollStep.putId "+lstr(src(x.Args[0])))
				case f == "index.Remove":
					steps = append(steps, "CollStep.idxRemove")
				case f == "index.Add":
					steps = append(steps, "CollStep.idxAdd")
				case f == "index.Build":
					steps = append(steps, "CollStep.idxBuild")
				case f == "c.Documents.Add":
					steps = append(steps, "CollStep.setAdd")
				case f == "c.Documents.Replace":
					steps = append(steps, "CollStep.setReplace")
				case f == "c.Documents.Remove":
					steps = append(steps, "CollStep.setRemove")
				case f == "delete" && len(x.Args) == 2 && src(x.Args[0]) == "c.Indexes":
					steps = append(steps, "CollStep.mapDelete")
				case strings.HasPrefix(f, "c.") || strings.HasPrefix(f, "index."):
					if f != "index.Config" && f != "c.Documents.List" {
						steps = append(steps, "CollStep.other "+lstr(f))
					}
				}
				return false
			}
			return true
		})
	}
	walk(fd.Body)
	return steps
}

func genTxnPrograms(repo string, o out) {
	f := parse(filepath.Join(repo, "transaction.go"))
	var progs []string
	for _, name := range txnMethods {
		fd := method(f, "Transaction", name)
		if fd == nil {
			progs = append(progs, "("+lstr(name)+", [Stmt.unknown \"<missing method>\"])")
			continue
		}
		t := &tr{file: f, cats: map[string]bool{}, colls: map[string]bool{}, hsub: map[string]string{}, vsub: map[string]string{}}
		t.hasErr = lastIsError(fd)
		for _, p := range fd.Type.Params.List {
			if src(p.Type) == "Handle" {
				for _, n := range p.Names {
					t.hsub[n.Name] = "HExpr.param"
				}
			}
		}
		body := t.block(fd.Body.List)
		var lines []string
		for _, s := range body {
			lines = append(lines, "    "+s.text)
		}
		progs = append(progs, "("+lstr(name)+", [\n"+strings.Join(lines, ",\n")+"])")
	}
	cf := parse(filepath.Join(repo, "mongokit/collection.go"))
	var colls []string
	for _, name := range collWriteMethods {
		fd := method(cf, "Collection", name)
		if fd == nil {
			colls = append(colls, "{ name := "+lstr(name)+", params := [], steps := [CollStep.other \"<missing method>\"] }")
			continue
		}
		var params []string
		for _, p := range fd.Type.Params.List {
			for _, n := range p.Names {
				params = append(params, n.Name)
			}
		}
		colls = append(colls, fmt.Sprintf("{ name := %s, params := %s,\n    steps := [%s] }", lstr(name), lstrs(params), strings.Join(collSteps(fd), ", ")))
	}
	// the bodies of the Clone functions whose meaning `cloneCatalog` / `cloneColl` state (text, whitespace-normalised)
	var clones []string
	for _, c := range []struct{ file, recv, label string }{
		{"catalog.go", "Catalog", "lungo.Catalog.Clone"},
		{"mongokit/collection.go", "Collection", "mongokit.Collection.Clone"},
		{"mongokit/index.go", "Index", "mongokit.Index.Clone"},
		{"bsonkit/set.go", "Set", "bsonkit.Set.Clone"},
		{"bsonkit/index.go", "Index", "bsonkit.Index.Clone"},
	} {
		body := "<missing>"
		if fd := method(parse(filepath.Join(repo, c.file)), c.recv, "Clone"); fd != nil {
			body = src(fd.Body)
		}
		clones = append(clones, "("+lstr(c.label)+", "+lstr(body)+")")
	}
	content := "/- GENERATED by /verif/go/cmd/extract from /repo's working tree. Do not edit. -/\nimport Lungo.Model.Own\nnamespace Lungo.Gen\nopen Lungo.Own\n\n" +
		"def txnPrograms : List (String × Prog) := [\n  " + strings.Join(progs, ",\n  ") + "]\n\n" +
		"def collPrograms : List CollProg := [\n  " + strings.Join(colls, ",\n  ") + "]\n\n" +
		"def cloneBodies : List (String × String) := [\n  " + strings.Join(clones, ",\n  ") + "]\n" +
		"\nend Lungo.Gen\n"
	o.raw("TxnPrograms", content)
}

func init() { extraGens = append(extraGens, genTxnPrograms) }
