package main

import (
	"go/ast"
	"go/token"
	"os"
	"path/filepath"
	"sort"
	"strings"
)

// genPanicSites: a syntactic inventory of every potentially panicking construct in the
// non-test files of bsonkit, mongokit, dbkit and the root package (DESIGN §4.1 `Gen/PanicSites`):
//   index   x[i]          (slices, arrays, strings and — indistinguishable without types — maps)
//   slice   x[a:b]
//   assert  x.(T)         single-result type assertions (not `v, ok :=`, not in a type switch)
//   ifaceeq a == b / !=   where an operand is a call to bsonkit.Get / an interface-typed local (heuristic: listed by text)
//   divmod  a / b, a % b  on non-constant operands
//   panic   panic(...)
//   must    Must*(...) calls
// Each site is rendered as (file:function, kind, normalised source text). The hand-written
// Expected.panicSites carries the same triples plus a justification; the tie compares the triples.
func genPanicSites(repo string, o out) {
	var rows []string
	dirs := []string{"bsonkit", "mongokit", "dbkit", "."}
	for _, d := range dirs {
		entries, err := os.ReadDir(filepath.Join(repo, d))
		if err != nil {
			continue
		}
		var files []string
		for _, e := range entries {
			n := e.Name()
			if strings.HasSuffix(n, ".go") && !strings.HasSuffix(n, "_test.go") && !strings.HasPrefix(n, "verif_") {
				files = append(files, n)
			}
		}
		sort.Strings(files)
		for _, fn := range files {
			rel := filepath.Join(d, fn)
			if d == "." {
				rel = fn
			}
			f := parse(filepath.Join(repo, d, fn))
			for _, decl := range f.Decls {
				fd, ok := decl.(*ast.FuncDecl)
				if !ok || fd.Body == nil {
					continue
				}
				name := fd.Name.Name
				if fd.Recv != nil && len(fd.Recv.List) > 0 {
					t := fd.Recv.List[0].Type
					if st, ok := t.(*ast.StarExpr); ok {
						t = st.X
					}
					name = src(t) + "." + name
				}
				where := rel + ":" + name
				safeAssert := map[*ast.TypeAssertExpr]bool{}
				ast.Inspect(fd.Body, func(n ast.Node) bool {
					switch x := n.(type) {
					case *ast.AssignStmt:
						if len(x.Lhs) == 2 && len(x.Rhs) == 1 {
							if ta, ok := x.Rhs[0].(*ast.TypeAssertExpr); ok {
								safeAssert[ta] = true
							}
						}
					case *ast.ValueSpec:
						if len(x.Names) == 2 && len(x.Values) == 1 {
							if ta, ok := x.Values[0].(*ast.TypeAssertExpr); ok {
								safeAssert[ta] = true
							}
						}
					case *ast.TypeSwitchStmt:
						ast.Inspect(x.Assign, func(m ast.Node) bool {
							if ta, ok := m.(*ast.TypeAssertExpr); ok {
								safeAssert[ta] = true
							}
							return true
						})
					}
					return true
				})
				add := func(kind string, n ast.Node) {
					rows = append(rows, "("+lstr(where)+", "+lstr(kind)+", "+lstr(src(n))+")")
				}
				ast.Inspect(fd.Body, func(n ast.Node) bool {
					switch x := n.(type) {
					case *ast.IndexExpr:
						add("index", x)
					case *ast.SliceExpr:
						add("slice", x)
					case *ast.TypeAssertExpr:
						if x.Type != nil && !safeAssert[x] {
							add("assert", x)
						}
					case *ast.BinaryExpr:
						if x.Op == token.QUO || x.Op == token.REM {
							if _, lit := x.Y.(*ast.BasicLit); !lit {
								add("divmod", x)
							}
						}
						if x.Op == token.EQL || x.Op == token.NEQ {
							l, r := src(x.X), src(x.Y)
							if strings.Contains(l, "bsonkit.Get(") || strings.Contains(r, "bsonkit.Get(") || strings.HasSuffix(l, "ID") && strings.HasSuffix(r, "ID") {
								add("ifaceeq", x)
							}
						}
					case *ast.CallExpr:
						fn := src(x.Fun)
						if fn == "panic" {
							add("panic", x)
						} else if fn == "make" && len(x.Args) >= 2 {
							// make with a computed length/capacity panics ("makeslice: len out of range") or exhausts memory
							computed := false
							for _, a := range x.Args[1:] {
								if _, lit := a.(*ast.BasicLit); !lit {
									computed = true
								}
							}
							if computed {
								add("make", x)
							}
						} else if i := strings.LastIndex(fn, "."); strings.HasPrefix(fn[i+1:], "Must") {
							add("must", x)
						}
					}
					return true
				})
			}
		}
	}
	o.write("PanicSites", "def panicSites : List (String × String × String) := [\n  "+strings.Join(rows, ",\n  ")+"]\n")
}

func init() { extraGens = append(extraGens, genPanicSites) }
