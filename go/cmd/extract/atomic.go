package main

import (
	"encoding/json"
	"fmt"
	"go/ast"
	"go/token"
	"os"
	"path/filepath"
	"strings"
)

// genAtomicWrite: ordered calls of dbkit.AtomicWriteFile with error edges and defers
// (DESIGN §4.1 `Gen/AtomicWrite`; datatype in lean/Lungo/Model/AtomicWrite.lean).
//
// One Step.call per os.Remove / os.OpenFile / io.Copy / Sync / Close / os.Rename / os.Open call
// in source order; Step.defer at each defer statement with its calls in body order; OnErr from
// the `if` that follows the call: ret | retUnlessNotExist | ignore. A call the extractor does
// not recognise is emitted as an undefined identifier so the Lean file fails to compile.
//
// Also extracted: the definition of the temporary name (`tempPath := path + ".tmp"` → atomicWriteTmpDistinct
// := true; `tempPath := path` → false = the protocol works in place; anything else → undefined identifier).
//
// The same facts are written as AtomicWrite.json next to the Lean file (names without the `Call.`/`OnErr.`
// prefixes): the harness sends that list to the model's counterexample search (driver op fs.search), so a
// protocol change is searched for a concrete failing crash scenario even when the Lean file no longer
// compiles or the tie no longer holds.
func genAtomicWrite(repo string, o out) {
	f := parse(filepath.Join(repo, "dbkit/atomic.go"))
	fd := funcDecl(f, "AtomicWriteFile")
	var steps []string
	jsonPath := filepath.Join(o.dir, "AtomicWrite.json")
	_ = os.Remove(jsonPath)
	if fd == nil {
		o.write("AtomicWrite", "import_missing_AtomicWriteFile\n")
		return
	}
	// the temporary name
	tmpExpr := ""
	ast.Inspect(fd.Body, func(x ast.Node) bool {
		if as, ok := x.(*ast.AssignStmt); ok && len(as.Lhs) == 1 && len(as.Rhs) == 1 {
			if id, ok := as.Lhs[0].(*ast.Ident); ok && id.Name == "tempPath" {
				if tmpExpr != "" || as.Tok != token.DEFINE {
					tmpExpr = "reassigned"
				} else {
					tmpExpr = strings.ReplaceAll(src(as.Rhs[0]), " ", "")
				}
			}
		}
		return true
	})
	tmpLean, tmpJSON := "", ""
	switch tmpExpr {
	case `path+".tmp"`:
		tmpLean, tmpJSON = "true", "path+.tmp"
	case "path":
		tmpLean, tmpJSON = "false", "path"
	default:
		tmpLean, tmpJSON = "unknown_tempPath_definition", "unknown:"+tmpExpr
	}
	callName := func(c *ast.CallExpr) string {
		s := src(c.Fun)
		args := ""
		if len(c.Args) > 0 {
			args = src(c.Args[0])
		}
		switch {
		case s == "os.Remove" && args == "tempPath":
			return "Call.removeTmp"
		case s == "os.OpenFile" && args == "tempPath":
			if len(c.Args) >= 2 && strings.ReplaceAll(src(c.Args[1]), " ", "") == "os.O_WRONLY|os.O_CREATE|os.O_EXCL" {
				return "Call.createExclTmp"
			}
			return "Call.createTmp_without_O_EXCL"
		case s == "io.Copy" && args == "tempFile":
			return "Call.writeTmp"
		case s == "tempFile.Sync":
			return "Call.fsyncTmp"
		case s == "tempFile.Close":
			return "Call.closeTmp"
		case s == "os.Rename" && args == "tempPath" && len(c.Args) == 2 && src(c.Args[1]) == "path":
			return "Call.renameTmpToPath"
		case s == "os.Open" && strings.HasPrefix(args, "filepath.Dir(path)"):
			return "Call.openDir"
		case s == "dir.Sync":
			return "Call.fsyncDir"
		case s == "dir.Close":
			return "Call.closeDir"
		case s == "fmt.Errorf" || s == "os.IsNotExist" || s == "filepath.Dir":
			return ""
		}
		return "Call.unknown_" + strings.NewReplacer(".", "_", "(", "", ")", "").Replace(s)
	}
	firstCall := func(n ast.Node) string {
		name := ""
		ast.Inspect(n, func(x ast.Node) bool {
			if name != "" {
				return false
			}
			if c, ok := x.(*ast.CallExpr); ok {
				if cn := callName(c); cn != "" {
					name = cn
					return false
				}
			}
			return true
		})
		return name
	}
	onErr := func(cond ast.Expr, body *ast.BlockStmt) string {
		returns := false
		for _, s := range body.List {
			if _, ok := s.(*ast.ReturnStmt); ok {
				returns = true
			}
		}
		if !returns {
			return "OnErr.ignore"
		}
		switch src(cond) {
		case "err != nil":
			return "OnErr.ret"
		case "err != nil && !os.IsNotExist(err)":
			return "OnErr.retUnlessNotExist"
		}
		return "OnErr.unknown_condition"
	}
	list := fd.Body.List
	for i := 0; i < len(list); i++ {
		switch st := list[i].(type) {
		case *ast.DeferStmt:
			var calls []string
			if fl, ok := st.Call.Fun.(*ast.FuncLit); ok {
				for _, s := range fl.Body.List {
					if cn := firstCall(s); cn != "" {
						calls = append(calls, cn)
					}
				}
			} else if cn := callName(st.Call); cn != "" {
				calls = append(calls, cn)
			}
			steps = append(steps, "Step.defer ["+strings.Join(calls, ", ")+"]")
		case *ast.AssignStmt:
			cn := firstCall(st)
			if cn == "" {
				continue
			}
			// blank assignment of the error = ignored
			handled := "OnErr.ignore"
			assignsErr := false
			for _, l := range st.Lhs {
				if id, ok := l.(*ast.Ident); ok && id.Name == "err" {
					assignsErr = true
				}
			}
			if assignsErr && i+1 < len(list) {
				if is, ok := list[i+1].(*ast.IfStmt); ok && is.Init == nil {
					handled = onErr(is.Cond, is.Body)
				}
			}
			steps = append(steps, "Step.call "+cn+" "+handled)
		case *ast.IfStmt:
			// `if err := dir.Sync(); err != nil { return }`
			if st.Init != nil {
				if cn := firstCall(st.Init); cn != "" {
					steps = append(steps, "Step.call "+cn+" "+onErr(st.Cond, st.Body))
				}
			}
		case *ast.ExprStmt:
			if cn := firstCall(st); cn != "" {
				steps = append(steps, "Step.call "+cn+" OnErr.ignore")
			}
		}
	}
	body := "open Lungo.AtomicWrite in\ndef atomicWriteSteps : List Lungo.AtomicWrite.Step := [\n  " + strings.Join(steps, ",\n  ") + "]\n" +
		"\n/-- the temporary name is `path + \".tmp\"` (distinct from `path`) -/\ndef atomicWriteTmpDistinct : Bool := " + tmpLean + "\n"
	content := "/- GENERATED by /verif/go/cmd/extract from /repo's working tree. Do not edit. -/\nimport Lungo.Model.AtomicWrite\nnamespace Lungo.Gen\n\n" + body + "\nend Lungo.Gen\n"
	o.raw("AtomicWrite", content)

	// machine-readable copy of the same list
	type jstep struct {
		Call  string   `json:"call,omitempty"`
		OnErr string   `json:"onErr,omitempty"`
		Defer []string `json:"defer,omitempty"`
	}
	var js []jstep
	for _, st := range steps {
		fs := strings.Fields(st)
		switch {
		case len(fs) == 3 && fs[0] == "Step.call":
			js = append(js, jstep{Call: strings.TrimPrefix(fs[1], "Call."), OnErr: strings.TrimPrefix(fs[2], "OnErr.")})
		case strings.HasPrefix(st, "Step.defer ["):
			inner := strings.TrimSuffix(strings.TrimPrefix(st, "Step.defer ["), "]")
			d := jstep{Defer: []string{}}
			for _, c := range strings.Split(inner, ",") {
				if c = strings.TrimSpace(c); c != "" {
					d.Defer = append(d.Defer, strings.TrimPrefix(c, "Call."))
				}
			}
			js = append(js, d)
		default:
			fmt.Fprintln(os.Stderr, "extract: AtomicWrite: cannot render step", st)
			os.Exit(1)
		}
	}
	b, err := json.MarshalIndent(map[string]interface{}{
		"source": "dbkit/atomic.go", "func": "AtomicWriteFile", "tmp": tmpJSON, "steps": js,
	}, "", " ")
	if err == nil {
		err = os.WriteFile(jsonPath, append(b, '\n'), 0644)
	}
	if err != nil {
		fmt.Fprintln(os.Stderr, "extract:", err)
		os.Exit(1)
	}
}

func init() { extraGens = append(extraGens, genAtomicWrite) }
