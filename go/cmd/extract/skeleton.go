// genSkeleton: the synchronisation skeleton (DESIGN appendix H) of the Engine / Session / Stream /
// Semaphore functions, emitted as `Lungo.Gen.skeleton : List (String × Expected.Sk)` following the
// mapping rules documented in lean/Lungo/Expected/Skeleton.lean (§0–7).  Compared in Lean with the
// hand-written `Expected.skeleton` (lean/Lungo/Ties/Skeleton.lean).
//
// Harness instrumentation is invisible: `verifAt(...)` call statements and `defer verifAt(...)`
// statements (build tag `verif`) are ignored explicitly.
package main

import (
	"fmt"
	"go/ast"
	"go/token"
	"go/types"
	"path/filepath"
	"strconv"
	"strings"
)

var trackedCallees = set("Store", "Clean", "NewTransaction", "Begin", "Commit", "Abort", "Transaction",
	"cancel", "oplog", "fn", "Expire", "reporter", "Dirty", "Err",
	"startTransaction", "CommitTransaction", "AbortTransaction")
var trackedFields = set("e.txn", "e.catalog", "e.streams", "e.streams[_]", "s.txn", "s.starting", "s.ended",
	"s.closed", "s.dropped", "s.last", "s.error", "s.event", "s.token", "stream.closed")
var trackedChannels = set("s.signal", "stream.signal", "signal", "s.tokens")
var trackedClosures = set("stream.oplog", "stream.cancel")

func set(xs ...string) map[string]bool {
	m := map[string]bool{}
	for _, x := range xs {
		m[x] = true
	}
	return m
}

func strip(e ast.Expr) ast.Expr {
	for {
		p, ok := e.(*ast.ParenExpr)
		if !ok {
			return e
		}
		e = p.X
	}
}

// path returns (path, defined, pure)
func path(e ast.Expr) (string, bool, bool) {
	switch x := e.(type) {
	case *ast.Ident:
		return x.Name, true, true
	case *ast.SelectorExpr:
		p, ok, pure := path(x.X)
		return p + "." + x.Sel.Name, ok, pure
	case *ast.IndexExpr:
		p, ok, _ := path(x.X)
		return p + "[_]", ok, false
	case *ast.CallExpr:
		p, ok, _ := path(x.Fun)
		return p + "()", ok, false
	case *ast.StarExpr:
		return path(x.X)
	case *ast.ParenExpr:
		return path(x.X)
	}
	return "", false, false
}
func pth(e ast.Expr) string { p, ok, _ := path(e); if !ok { return "\x00" }; return p }
func purePath(e ast.Expr) (string, bool) { p, ok, pure := path(e); return p, ok && pure }
func text(e ast.Expr) string { return types.ExprString(strip(e)) }
func name(e ast.Expr) string {
	if p, ok, _ := path(e); ok {
		return p
	}
	return text(e)
}
func last(p string) string { i := strings.LastIndex(p, "."); return p[i+1:] }
func q(s string) string   { return strconv.Quote(s) }

func isTracked(c *ast.CallExpr) bool {
	switch f := c.Fun.(type) {
	case *ast.Ident:
		return trackedCallees[f.Name]
	case *ast.SelectorExpr:
		return trackedCallees[f.Sel.Name]
	}
	return false
}

// callKind returns kind tag and rendered atom ("" if none)
// isVerifHook: `verifAt(...)` — harness instrumentation, never part of the skeleton.
func isVerifHook(c *ast.CallExpr) bool {
	id, ok := c.Fun.(*ast.Ident)
	return ok && id.Name == "verifAt"
}

func callKind(c *ast.CallExpr) (string, string) {
	if isVerifHook(c) {
		return "", ""
	}
	if s, ok := c.Fun.(*ast.SelectorExpr); ok {
		p, def, _ := path(s.X)
		if def {
			switch {
			case (s.Sel.Name == "Lock" || s.Sel.Name == "RLock") && last(p) == "mutex":
				return "lock", "lock " + q(p)
			case (s.Sel.Name == "Unlock" || s.Sel.Name == "RUnlock") && last(p) == "mutex":
				return "unlock", "unlock " + q(p)
			case s.Sel.Name == "Acquire" && last(p) == "token":
				return "acquire", "acquire"
			case s.Sel.Name == "Release" && last(p) == "token":
				return "release", "release"
			case s.Sel.Name == "Kill" && last(p) == "tomb":
				return "kill", "kill"
			case s.Sel.Name == "Wait" && last(p) == "tomb":
				return "wait", "wait"
			}
		}
	}
	if id, ok := c.Fun.(*ast.Ident); ok {
		switch {
		case id.Name == "panic":
			return "panic", "panic"
		case id.Name == "close" && len(c.Args) == 1 && trackedChannels[pth(c.Args[0])]:
			return "close", "close " + q(pth(c.Args[0]))
		case id.Name == "delete" && len(c.Args) == 2 && trackedFields[pth(c.Args[0])+"[_]"]:
			return "delete", "delete " + q(pth(c.Args[0])+"[_]")
		}
	}
	if isTracked(c) {
		return "call", "call " + q(pth(c.Fun))
	}
	return "", ""
}

func rhs(e ast.Expr) string {
	e = strip(e)
	switch x := e.(type) {
	case *ast.Ident:
		switch {
		case x.Name == "nil":
			return ".nil"
		case x.Name == "true":
			return ".tt"
		case x.Name == "false":
			return ".ff"
		case strings.HasPrefix(x.Name, "Err"):
			return "(.named " + q(x.Name) + ")"
		}
		return "(.var " + q(x.Name) + ")"
	case *ast.CallExpr:
		if id, ok := x.Fun.(*ast.Ident); ok && (id.Name == "make" || id.Name == "new") {
			return ".fresh"
		}
		return "(.call " + q(name(x.Fun)) + ")"
	case *ast.CompositeLit, *ast.FuncLit:
		return ".fresh"
	case *ast.UnaryExpr:
		if _, ok := x.X.(*ast.CompositeLit); ok && x.Op == token.AND {
			return ".fresh"
		}
	}
	if p, ok := purePath(e); ok {
		return "(.field " + q(p) + ")"
	}
	return "(.other " + q(text(e)) + ")"
}

func skIsNil(e ast.Expr) bool { id, ok := strip(e).(*ast.Ident); return ok && id.Name == "nil" }

func cond(e ast.Expr) string {
	e = strip(e)
	switch x := e.(type) {
	case *ast.UnaryExpr:
		if x.Op == token.NOT {
			return "(.not " + cond(x.X) + ")"
		}
	case *ast.BinaryExpr:
		switch x.Op {
		case token.LAND:
			return "(.and " + cond(x.X) + " " + cond(x.Y) + ")"
		case token.LOR:
			return "(.or " + cond(x.X) + " " + cond(x.Y) + ")"
		case token.EQL, token.NEQ:
			eq := x.Op == token.EQL
			if skIsNil(x.Y) {
				if id, ok := strip(x.X).(*ast.Ident); ok && id.Name == "err" {
					if eq {
						return ".errNil"
					}
					return ".errNotNil"
				}
				if p, ok := purePath(x.X); ok {
					if eq {
						return "(.isNil " + q(p) + ")"
					}
					return "(.notNil " + q(p) + ")"
				}
			} else if a, ok := purePath(x.X); ok {
				if b, ok := purePath(x.Y); ok {
					if eq {
						return "(.eq " + q(a) + " " + q(b) + ")"
					}
					return "(.ne " + q(a) + " " + q(b) + ")"
				}
			}
		case token.GTR:
			if c, ok := strip(x.X).(*ast.CallExpr); ok {
				if id, ok := c.Fun.(*ast.Ident); ok && id.Name == "len" && len(c.Args) == 1 {
					if l, ok := strip(x.Y).(*ast.BasicLit); ok && l.Value == "0" {
						if p, ok := purePath(c.Args[0]); ok {
							return "(.lenPos " + q(p) + ")"
						}
					}
				}
			}
		}
	case *ast.CallExpr:
		if s, ok := x.Fun.(*ast.SelectorExpr); ok {
			if s.Sel.Name == "Alive" && last(pth(s.X)) == "tomb" {
				return ".alive"
			}
			if s.Sel.Name == "Dirty" {
				return ".dirty"
			}
		}
		if isTracked(x) {
			return "(.call " + q(pth(x.Fun)) + ")"
		}
	}
	if p, ok := purePath(e); ok && p != "true" && p != "false" {
		return "(.flag " + q(p) + ")"
	}
	return "(.other " + q(text(e)) + ")"
}

type node struct {
	s    string // rendered
	live bool
}

type skTr struct{ results []*ast.FieldList }

func (t *skTr) numResults() (int, bool) {
	r := t.results[len(t.results)-1]
	if r == nil {
		return 0, false
	}
	n := 0
	var lastT ast.Expr
	for _, f := range r.List {
		k := len(f.Names)
		if k == 0 {
			k = 1
		}
		n += k
		lastT = f.Type
	}
	id, ok := lastT.(*ast.Ident)
	return n, ok && id.Name == "error"
}

func list(ns []node) string {
	ss := make([]string, len(ns))
	for i, n := range ns {
		ss[i] = n.s
	}
	return "[" + strings.Join(ss, ", ") + "]"
}
func anyLive(ns []node) bool {
	for _, n := range ns {
		if n.live {
			return true
		}
	}
	return false
}

func (t *skTr) stmts(ss []ast.Stmt) []node {
	var out []node
	for _, s := range ss {
		out = append(out, t.stmt(s)...)
	}
	return out
}

func atom(s string) []node { return []node{{s: s, live: true}} }

func (t *skTr) simpleCall(c *ast.CallExpr) []node {
	if _, a := callKind(c); a != "" {
		return atom(a)
	}
	return nil
}

func (t *skTr) ret(r *ast.ReturnStmt) []node {
	n, isErr := t.numResults()
	var calls []string
	for _, x := range r.Results {
		if c, ok := strip(x).(*ast.CallExpr); ok && isTracked(c) {
			calls = append(calls, q(pth(c.Fun)))
		}
	}
	var kind string
	switch {
	case len(r.Results) == 0:
		kind = ".void"
	case len(r.Results) == 1 && n > 1:
		kind = ".forward"
	case isErr:
		x := strip(r.Results[len(r.Results)-1])
		kind = ".err"
		if id, ok := x.(*ast.Ident); ok {
			if id.Name == "nil" {
				kind = ".ok"
			} else if strings.HasPrefix(id.Name, "Err") {
				kind = "(.named " + q(id.Name) + ")"
			}
		} else if c, ok := x.(*ast.CallExpr); ok {
			if f := pth(c.Fun); f == "fmt.Errorf" || f == "errors.New" {
				kind = ".fmtErr"
			}
		}
	default:
		x := strip(r.Results[len(r.Results)-1])
		kind = ".value"
		if id, ok := x.(*ast.Ident); ok && id.Name == "true" {
			kind = ".tt"
		} else if ok && id.Name == "false" {
			kind = ".ff"
		} else if p, ok, _ := path(x); ok {
			kind = "(.path " + q(p) + ")"
		}
	}
	return atom("retc " + kind + " [" + strings.Join(calls, ", ") + "]")
}

func recvOf(e ast.Expr) (ast.Expr, bool) {
	u, ok := strip(e).(*ast.UnaryExpr)
	if ok && u.Op == token.ARROW {
		return u.X, true
	}
	return nil, false
}

func (t *skTr) stmt(s ast.Stmt) []node {
	switch x := s.(type) {
	case nil:
		return nil
	case *ast.ExprStmt:
		if c, ok := strip(x.X).(*ast.CallExpr); ok {
			return t.simpleCall(c)
		}
		if ch, ok := recvOf(x.X); ok && trackedChannels[pth(ch)] {
			return atom("recv " + q(pth(ch)))
		}
		return nil
	case *ast.SendStmt:
		if trackedChannels[pth(x.Chan)] {
			return atom("send " + q(pth(x.Chan)))
		}
		return nil
	case *ast.AssignStmt:
		if len(x.Lhs) == 1 && len(x.Rhs) == 1 {
			if fl, ok := strip(x.Rhs[0]).(*ast.FuncLit); ok && trackedClosures[pth(x.Lhs[0])] {
				t.results = append(t.results, fl.Type.Results)
				b := t.stmts(fl.Body.List)
				t.results = t.results[:len(t.results)-1]
				return atom(".closure " + q(pth(x.Lhs[0])) + " " + list(b))
			}
			if trackedFields[pth(x.Lhs[0])] {
				return atom("set " + q(pth(x.Lhs[0])) + " " + rhs(x.Rhs[0]))
			}
		}
		for _, l := range x.Lhs {
			if trackedFields[pth(l)] {
				panic("unsupported multi-assignment to tracked field")
			}
		}
		if len(x.Rhs) == 1 {
			if c, ok := strip(x.Rhs[0]).(*ast.CallExpr); ok {
				if n := t.simpleCall(c); n != nil {
					return n
				}
			}
			if ch, ok := recvOf(x.Rhs[0]); ok && trackedChannels[pth(ch)] {
				return atom("recv " + q(pth(ch)))
			}
			if id, ok := x.Lhs[0].(*ast.Ident); ok && len(x.Lhs) == 1 {
				if p := pth(x.Rhs[0]); trackedFields[p] || trackedChannels[p] {
					return atom("read " + q(id.Name) + " " + q(p))
				}
			}
		}
		return nil
	case *ast.DeferStmt:
		if fl, ok := x.Call.Fun.(*ast.FuncLit); ok {
			t.results = append(t.results, fl.Type.Results)
			b := t.stmts(fl.Body.List)
			t.results = t.results[:len(t.results)-1]
			if len(b) == 0 {
				return nil
			}
			return atom(".deferBlock " + list(b))
		}
		k, a := callKind(x.Call)
		switch k {
		case "":
			return nil
		case "unlock":
			return atom("deferUnlock" + strings.TrimPrefix(a, "unlock"))
		case "release":
			return atom("deferRelease")
		case "call":
			return atom("deferCall" + strings.TrimPrefix(a, "call"))
		}
		panic("unsupported defer " + k)
	case *ast.ReturnStmt:
		return t.ret(x)
	case *ast.BranchStmt:
		switch x.Tok {
		case token.BREAK:
			return []node{{s: "brk"}}
		case token.CONTINUE:
			return []node{{s: "cont"}}
		}
		panic("unsupported branch")
	case *ast.BlockStmt:
		return t.stmts(x.List)
	case *ast.LabeledStmt:
		return t.stmt(x.Stmt)
	case *ast.IfStmt:
		out := t.stmt(x.Init)
		th := t.stmts(x.Body.List)
		var el []node
		if x.Else != nil {
			el = t.stmt(x.Else)
		}
		if len(th)+len(el) > 0 {
			out = append(out, node{s: ".ite " + cond(x.Cond) + " " + list(th) + " " + list(el), live: anyLive(th) || anyLive(el)})
		}
		return out
	case *ast.ForStmt:
		b := t.stmts(x.Body.List)
		if !anyLive(b) {
			return nil
		}
		kind := ".forever"
		if x.Cond != nil {
			kind = "(.cond " + cond(x.Cond) + ")"
		} else if x.Init != nil || x.Post != nil {
			panic("for without cond but with init/post")
		}
		return atom(".loop " + kind + " " + list(b))
	case *ast.RangeStmt:
		b := t.stmts(x.Body.List)
		if !anyLive(b) && !trackedFields[pth(x.X)] {
			return nil
		}
		return atom(".loop (.range " + q(name(x.X)) + ") " + list(b))
	case *ast.SelectStmt:
		type armT struct {
			op, ch string
			body   []node
		}
		var arms []armT
		for _, c := range x.Body.List {
			cc := c.(*ast.CommClause)
			a := armT{body: t.stmts(cc.Body)}
			switch m := cc.Comm.(type) {
			case nil:
				a.op = "dflt"
			case *ast.SendStmt:
				a.op, a.ch = "send", name(m.Chan)
			case *ast.ExprStmt:
				ch, ok := recvOf(m.X)
				if !ok {
					panic("bad comm")
				}
				a.op, a.ch = "recv", name(ch)
			case *ast.AssignStmt:
				ch, ok := recvOf(m.Rhs[0])
				if !ok {
					panic("bad comm")
				}
				a.op, a.ch = "recv", name(ch)
				if len(m.Lhs) == 2 {
					a.op = "recvOk"
				}
			}
			arms = append(arms, a)
		}
		if len(arms) == 2 && len(arms[0].body) == 0 && len(arms[1].body) == 0 {
			for i := 0; i < 2; i++ {
				if arms[i].op == "send" && arms[1-i].op == "dflt" {
					return atom("trysend " + q(arms[i].ch))
				}
			}
		}
		var ss []string
		for _, a := range arms {
			op := ".dflt"
			if a.op != "dflt" {
				op = "(." + a.op + " " + q(a.ch) + ")"
			}
			ss = append(ss, ".arm "+op+" "+list(a.body))
		}
		return atom(".select [" + strings.Join(ss, ", ") + "]")
	case *ast.DeclStmt, *ast.IncDecStmt, *ast.EmptyStmt:
		return nil
	}
	panic(fmt.Sprintf("unsupported statement %T", s))
}

var skeletonFiles = [][]string{
	{"engine.go", "Engine.Catalog", "Engine.Begin", "Engine.Commit", "Engine.Abort", "Engine.Watch", "Engine.Close", "Engine.expire"},
	{"session.go", "Session.startTransaction", "Session.CommitTransaction", "Session.AbortTransaction", "Session.EndSession", "Session.Transaction", "Session.WithTransaction"},
	{"utils.go", "useTransaction"},
	{"stream.go", "Stream.next", "Stream.Close"},
	{"dbkit/semaphore.go", "Semaphore.Acquire", "Semaphore.Release"},
}

// leanIdent turns "Engine.Begin" into "Engine_Begin" (per-function definitions for the ties).
func leanIdent(key string) string { return strings.ReplaceAll(key, ".", "_") }

func genSkeleton(repo string, o out) {
	var b strings.Builder
	b.WriteString("/- GENERATED by /verif/go/cmd/extract from /repo's working tree. Do not edit. -/\n")
	b.WriteString("import Lungo.Expected.Skeleton\nnamespace Lungo.Gen\nopen Lungo.Expected\nopen Lungo.Expected.Sk\n\n")
	var keys []string
	for _, f := range skeletonFiles {
		af := parse(filepath.Join(repo, f[0]))
		decls := map[string]*ast.FuncDecl{}
		for _, d := range af.Decls {
			fd, ok := d.(*ast.FuncDecl)
			if !ok {
				continue
			}
			key := fd.Name.Name
			if fd.Recv != nil {
				rt := fd.Recv.List[0].Type
				if st, ok := rt.(*ast.StarExpr); ok {
					rt = st.X
				}
				if id, ok := rt.(*ast.Ident); ok {
					key = id.Name + "." + key
				}
			}
			decls[key] = fd
		}
		for _, key := range f[1:] {
			fd := decls[key]
			if fd == nil || fd.Body == nil {
				// an undefined identifier makes the generated file fail to compile, naming the function
				fmt.Fprintf(&b, "def sk_%s : Sk := missing_function_%s\n\n", leanIdent(key), leanIdent(key))
				keys = append(keys, key)
				continue
			}
			t := &skTr{results: []*ast.FieldList{fd.Type.Results}}
			body := t.stmts(fd.Body.List)
			fmt.Fprintf(&b, "def sk_%s : Sk := .func %s\n\n", leanIdent(key), list(body))
			keys = append(keys, key)
		}
	}
	b.WriteString("def skeleton : List (String × Sk) := [\n")
	for i, key := range keys {
		sep := ","
		if i == len(keys)-1 {
			sep = ""
		}
		fmt.Fprintf(&b, "  (%s, sk_%s)%s\n", q(key), leanIdent(key), sep)
	}
	b.WriteString("]\n\nend Lungo.Gen\n")
	o.raw("Skeleton", b.String())
}

func init() { extraGens = append(extraGens, genSkeleton) }
