// harness — runs one correspondence stream against /repo's current tree and the Lean model.
//
//	harness -stream cmp -seed 1 -n 20000 -out /path/result.json
package main

import (
	"flag"
	"fmt"
	"os"
	"sort"

	"verifharness/internal/model"
	"verifharness/internal/run"
	_ "verifharness/internal/streams"
)

func main() {
	stream := flag.String("stream", "", "stream name")
	seed := flag.Uint64("seed", 1, "PRNG seed")
	n := flag.Int("n", 1000, "number of generated cases")
	shards := flag.Int("shards", 0, "parallel shards (default: cores)")
	out := flag.String("out", "", "result JSON path")
	list := flag.Bool("list", false, "list streams")
	replay := flag.String("replay", "", "replay one request line (JSON) on implementation and model")
	nomodel := flag.Bool("nomodel", false, "run monitors only (model executable unavailable)")
	flag.Parse()
	if *list {
		var names []string
		for k := range run.Streams {
			names = append(names, k)
		}
		sort.Strings(names)
		for _, k := range names {
			fmt.Println(k)
		}
		return
	}
	s := run.Streams[*stream]
	if s == nil {
		fmt.Fprintln(os.Stderr, "unknown stream", *stream)
		os.Exit(2)
	}
	run.NoModel = *nomodel
	if *replay != "" {
		if s.Replay == nil {
			fmt.Fprintln(os.Stderr, "stream has no replay")
			os.Exit(2)
		}
		impl := s.Replay(*replay)
		fmt.Println("impl :", impl)
		if !*nomodel {
			if p, err := model.Start(); err == nil {
				m, _ := p.Ask(*replay)
				fmt.Println("model:", m)
				p.Close()
			}
		}
		if impl == "" {
			os.Exit(1)
		}
		return
	}
	res := run.Exec(s, *seed, *n, *shards)
	if *out != "" {
		if err := res.Write(*out); err != nil {
			fmt.Fprintln(os.Stderr, err)
			os.Exit(2)
		}
	}
	fmt.Printf("stream=%s evaluations=%d distinct_nontrivial=%d model_compared=%d disagreements=%d violations=%d wall=%.1fs\n",
		res.Stream, res.Evaluations, res.DistinctNontrivial, res.ModelCompared, res.NDisagreements, res.NViolations, res.WallS)
}
